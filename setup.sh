#!/usr/bin/env bash
# Build /verif/.venv offline: python 3.12 venv + z3/cvc5/crosshair/deal/jsonschema
# wheels from the local wheelhouse + a .pth that exposes /venv's site-packages
# (cylc-flow's own third-party dependencies and the editable install of /repo).
set -euo pipefail
here="$(cd "$(dirname "$0")" && pwd)"
venv="$here/.venv"
stamp="$venv/.ok"
if [ -f "$stamp" ] && "$venv/bin/python" -c 'import z3, jsonschema, cylc.flow' 2>/dev/null; then
    exit 0
fi
rm -rf "$venv"
base=/venv/bin/python
"$base" -m venv --without-pip "$venv" 2>/dev/null || python3.12 -m venv --without-pip "$venv"
sp="$("$venv/bin/python" -c 'import sysconfig; print(sysconfig.get_paths()["purelib"])')"
echo "import site; site.addsitedir('/venv/lib/python3.12/site-packages')" > "$sp/_verif_base.pth"
# pip itself comes from /venv through the .pth
PIP_NO_INDEX=1 "$venv/bin/python" -m pip install --quiet --no-index \
    --find-links /opt/veriftools/wheels --target "$sp" --upgrade \
    z3-solver cvc5 jsonschema crosshair-tool deal icontract >/dev/null 2>"$venv/pip.err" || {
        cat "$venv/pip.err" >&2; exit 1; }
"$venv/bin/python" -c 'import z3, jsonschema, cylc.flow; print("verif venv ok: z3", z3.get_version_string())'
touch "$stamp"
