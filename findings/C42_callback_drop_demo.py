"""C42: a jobs-submit command that is still queued when the pool starts stopping must still get its callback."""
import sys
from cylc.flow.subprocpool import SubProcPool
from cylc.flow.subprocctx import SubProcContext

pool = SubProcPool()
pool.size = 1
calls = []
def cb(ctx, *args):
    calls.append((ctx.cmd_key, ctx.ret_code))
# fill the pool with a long sleeper so that the next command stays queued
pool.put_command(SubProcContext('sleeper', ['sleep', '5']), callback=cb)
pool.process()
pool.put_command(SubProcContext(SubProcPool.JOBS_SUBMIT, ['true']), callback=cb)
assert len(pool.queuings) == 1
pool.set_stopping()
pool.terminate()      # kills the sleeper, drains the queue
print(calls)
got = [c for c in calls if c[0] == SubProcPool.JOBS_SUBMIT]
if len(got) != 1:
    print('C42 VIOLATED: queued jobs-submit command got %d callbacks when the pool was stopping' % len(got))
    sys.exit(1)
print('OK')
