#!/usr/bin/env python3
"""Regenerate seeded/TABLE.md from seeded/*/meta.json: which check caught which independent change."""
import glob
import json
import os

ROOT = os.path.dirname(os.path.dirname(os.path.abspath(__file__)))
rows = []
for mp in sorted(glob.glob(os.path.join(ROOT, 'seeded', '*', 'meta.json'))):
    m = json.load(open(mp))
    name = os.path.basename(os.path.dirname(mp))
    res = m.get('check_result', [])
    res = res if isinstance(res, list) else [res]
    rows.append((name, m.get('property', '?'), ', '.join(m.get('files', []))[:60],
                 (m.get('summary', '') or '')[:110].replace('|', '/').replace('\n', ' '),
                 ' / '.join(str(r) for r in res)[:200].replace('|', '/').replace('\n', ' ')))
with open(os.path.join(ROOT, 'seeded', 'TABLE.md'), 'w') as f:
    f.write('# Seeded changes and the check that reports them\n\n')
    f.write('| seed | property | file | change | result of the check |\n|---|---|---|---|---|\n')
    for r in rows:
        f.write('| ' + ' | '.join(r) + ' |\n')
print(len(rows), 'seeds')
