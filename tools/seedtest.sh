#!/usr/bin/env bash
# tools/seedtest.sh <seed-dir> <property> : confirm a seeded defect and run the check against it.
# The check's evidence record of the broken tree goes to a scratch directory (VERIF_EVIDENCE_DIR),
# never to /verif/evidence, which only ever holds records of runs on the unchanged tree.
set -u
seed="$1"; pid="$2"
cd /repo || exit 3
git diff --quiet || { echo "repo dirty"; exit 3; }
scratch="$(mktemp -d /var/tmp/verif_seed.XXXXXX)"
export VERIF_EVIDENCE_DIR="$scratch"
echo "== demo on unchanged tree"; (cd /tmp && PYTHONPATH=/repo /venv/bin/python "$seed/demo.py" >/dev/null 2>&1; echo "exit=$?")
git apply "$seed/patch.diff" || { echo "patch does not apply"; rm -rf "$scratch"; exit 3; }
echo "== demo with the change"; (cd /tmp && PYTHONPATH=/repo /venv/bin/python "$seed/demo.py" >/dev/null 2>&1; echo "exit=$?")
echo "== check"; (cd /verif && bin/vcheck "$pid" 2>&1 | grep -E "VIOLATION|UNDECIDED|CHECKER|KNOWN|obligations" | cut -c1-250; echo "check-exit=${PIPESTATUS[0]}")
git checkout -- .
rm -rf "$scratch"
