#!/usr/bin/env bash
# tools/seedtest.sh <seed-dir> <property> [<property>...] : confirm a seeded defect and run the check(s)
# against it.  The change is applied to a scratch git worktree of /repo (under /var/tmp, removed
# afterwards), never to /repo itself, so several seeds can be tried at once and a running check of the
# unchanged tree is not disturbed; the check reads the worktree through VERIF_REPO.  The evidence record
# of the broken tree goes to a scratch directory (VERIF_EVIDENCE_DIR), never to /verif/evidence.
set -u
seed="$(cd "$1" && pwd)"; shift
scratch="$(mktemp -d /var/tmp/verif_seed.XXXXXX)"
wt="$scratch/wt"
git -C /repo worktree add -q --detach "$wt" HEAD || { echo "cannot create worktree"; exit 3; }
cleanup() { git -C /repo worktree remove --force "$wt" 2>/dev/null; rm -rf "$scratch"; }
trap cleanup EXIT
export VERIF_EVIDENCE_DIR="$scratch/ev"
echo "== demo on unchanged tree"; (cd /tmp && PYTHONPATH="$wt" timeout 600 /venv/bin/python "$seed/demo.py" >/dev/null 2>&1; echo "exit=$?")
git -C "$wt" apply "$seed/patch.diff" || { echo "patch does not apply"; exit 3; }
echo "== demo with the change"; (cd /tmp && PYTHONPATH="$wt" timeout 600 /venv/bin/python "$seed/demo.py" >/dev/null 2>&1; echo "exit=$?")
for pid in "$@"; do
  echo "== check $pid"
  (cd /verif && VERIF_REPO="$wt" bin/vcheck "$pid" 2>&1 | grep -E "VIOLATION|UNDECIDED|CHECKER|KNOWN|obligations|failed obligation" | cut -c1-250; echo "check-exit=${PIPESTATUS[0]}")
done
