#!/usr/bin/env bash
# tools/seedtest.sh <seed-dir> <property> : confirm a seeded defect and run the check against it
set -u
seed="$1"; pid="$2"
cd /repo || exit 3
git diff --quiet || { echo "repo dirty"; exit 3; }
echo "== demo on unchanged tree"; (cd /tmp && PYTHONPATH=/repo /venv/bin/python "$seed/demo.py" >/dev/null 2>&1; echo "exit=$?")
git apply "$seed/patch.diff" || { echo "patch does not apply"; exit 3; }
echo "== demo with the change"; (cd /tmp && PYTHONPATH=/repo /venv/bin/python "$seed/demo.py" >/dev/null 2>&1; echo "exit=$?")
echo "== check"; (cd /verif && bin/vcheck "$pid" 2>&1 | grep -E "VIOLATION|UNDECIDED|CHECKER|KNOWN|obligations" | cut -c1-250; echo "check-exit=${PIPESTATUS[0]}")
git checkout -- .
