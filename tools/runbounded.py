import sys, json, time, importlib
sys.path.insert(0,'/verif')
m = importlib.import_module('contracts.'+sys.argv[1])
t=time.time()
r = m.check(sys.argv[2] if len(sys.argv)>2 else 'quick')
for x in r:
    print(x['verdict'], x.get('evaluations'), x.get('distinct'), x['detail'])
    for w in x.get('witness', [])[:12]: print(json.dumps(w)[:600])
print(round(time.time()-t,1),'s')
