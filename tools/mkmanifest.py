#!/usr/bin/env python3
"""Regenerate MANIFEST.json from contracts/claims.py (single source of truth)."""
import json
import os
import sys

ROOT = os.path.dirname(os.path.dirname(os.path.abspath(__file__)))
sys.path.insert(0, ROOT)
from contracts.claims import CLAIMS, NOT_APPLICABLE, NOT_BUILT  # noqa: E402

props = [json.loads(l)['id'] for l in open(os.path.join(ROOT, 'properties.jsonl'))]
checks = []
for pid in props:
    if pid not in CLAIMS:
        continue
    c = CLAIMS[pid]
    checks.append({
        'property_id': pid,
        'quick_cmd': f'bin/vcheck {pid} --tier quick',
        'thorough_cmd': f'bin/vcheck {pid} --tier thorough',
        'evidence_file': f'evidence/{pid}.json',
        'replay_cmd_template': f'bin/vcheck {pid} --replay {{path}}',
        'engine': 'pyvc',
        'level_claimed': {'category': c['category'], 'text': c['text'], 'design_ref': c.get('design_ref', 'DESIGN.md section 5')},
        'level_note': c['note'],
        'technique': c.get('technique', 'contract-based deductive verification: verification conditions '
                                         'generated from the AST of the real functions (pyvc) and discharged by z3'),
    })
na = []
for pid in props:
    if pid in CLAIMS:
        continue
    if pid in NOT_APPLICABLE:
        na.append({'property_id': pid, 'reason': NOT_APPLICABLE[pid]})
    else:
        na.append({'property_id': pid, 'reason': NOT_BUILT.get(
            pid, 'no check built in the time available (contract plan in DESIGN.md section 5); not claimed')})
man = {
    'version': 1,
    'setup_cmd': './setup.sh',
    'hooks': {
        'guard': 'CYLC_FLOW_VERIF',
        'enable': 'no hooks: contracts are sidecars under /verif/contracts, the source of /repo is read '
                  '(ast) and imported, never instrumented; the guard name is reserved and unused',
        'baseline_off_cmd': 'cd /repo && /venv/bin/python -m pytest -ra -q -p no:cacheprovider --timeout=900 '
                            '--continue-on-collection-errors',
        'source_commits': [],
        'add_only': True,
    },
    'engines': [{
        'name': 'pyvc', 'path': 'pyvc/',
        'serves_properties': [c['property_id'] for c in checks],
        'kind_free_text': 'home-built deductive verifier for a Python subset: symbolic execution of the real '
                          'function ASTs against sidecar contracts, loop invariants, callee contracts at call '
                          'sites, obligations discharged by z3 (cvc5 second opinion), native replay of counter-models',
    }],
    'checks': checks,
    'not_applicable': na,
    'notes': 'fix: commits in /repo and known findings are listed in known_findings.json; see DESIGN.md sections 6-7',
}
json.dump(man, open(os.path.join(ROOT, 'MANIFEST.json'), 'w'), indent=1)
print('MANIFEST.json:', len(checks), 'checks,', len(na), 'not claimed')
