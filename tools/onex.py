"""Developer helper: like tools/one.py, but first imports extra contract modules that are not (yet)
registered in contracts/index.py.  Usage:
    .venv/bin/python tools/onex.py contracts.c43_stop[,contracts.other] <contract key substring> [one.py flags]"""
import importlib
import os
import sys

sys.path.insert(0, os.path.dirname(os.path.dirname(os.path.abspath(__file__))))
from pyvc import runner  # noqa: E402

extra = sys.argv.pop(1).split(',')
_orig = runner.load_contracts


def load_contracts():
    reg, idx = _orig()
    for m in extra:
        importlib.import_module(m)
    return reg, idx


runner.load_contracts = load_contracts
sys.path.insert(0, os.path.dirname(os.path.abspath(__file__)))
import one  # noqa: E402

one.load_contracts = load_contracts
sys.exit(one.main())
