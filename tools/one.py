"""Developer helper: verify ONE contract and print every obligation (and the traceback of the first
Unsupported).  Usage: .venv/bin/python tools/one.py <contract key substring> [--trace] [--timeout ms]"""
import os
import sys
import time
import traceback

sys.path.insert(0, os.path.dirname(os.path.dirname(os.path.abspath(__file__))))
from pyvc.runner import load_contracts  # noqa: E402
from pyvc import verify as V  # noqa: E402
from pyvc import core  # noqa: E402


def main():
    args = [a for a in sys.argv[1:] if not a.startswith('--')]
    trace = '--trace' in sys.argv
    tmo = 20000
    if '--timeout' in sys.argv:
        tmo = int(sys.argv[sys.argv.index('--timeout') + 1])
    REG, idx = load_contracts()
    keys = [k for k, c in REG.contracts.items() if args[0] in k and not c.assumed]
    if len(keys) != 1:
        exact = [k for k in keys if k.endswith(args[0])]
        if len(exact) == 1:
            keys = exact
        else:
            print('candidates:', keys)
            return 2
    c = REG.contracts[keys[0]]
    if trace:
        orig = core.Unsupported.__init__

        def init(self, *a):
            orig(self, *a)
            traceback.print_stack(limit=14)
        core.Unsupported.__init__ = init
    t0 = time.time()
    r = V.verify_contract(REG, c, timeout_ms=tmo, strict='--strict' in sys.argv)
    print(f'{keys[0]}: {r.status} paths={r.paths} t={time.time() - t0:.1f}s')
    if r.error:
        print('ERROR', r.error)
    for u in r.unsupported:
        print('UNSUPPORTED', u)
    for n, o in r.obligations.items():
        print(f"  {o['verdict']:8s} {o['time']:6.1f}s paths={o['paths']:3d} line={o['line']} {n}"
              + (f"  reasons={sorted(set(o.get('reasons') or []))}" if o['verdict'] == 'unknown' else ''))
        if o['verdict'] == 'refuted' and '--model' in sys.argv:
            print('     model:', {k: v for k, v in (o['model'] or {}).items() if 'int(' not in k})
    return 0


if __name__ == '__main__':
    sys.exit(main())
