"""Developer helper: where does the time of one function's verification go?
Usage: .venv/bin/python tools/prof.py <contract key> [max_paths]"""
import os
import sys
import time

sys.path.insert(0, os.path.dirname(os.path.dirname(os.path.abspath(__file__))))
from pyvc.runner import load_contracts  # noqa: E402
from pyvc import verify as V, core  # noqa: E402

REG, idx = load_contracts()
c = REG.contracts[sys.argv[1]]
if len(sys.argv) > 2:
    c.max_paths = int(sys.argv[2])
if os.environ.get('NO_MERGE'):
    c.options.pop('merge_ifs', None)
stats = {'check': 0.0, 'n': 0, 'slow': 0}
orig = core.PathCtx.check


def check(self, extra=None, timeout=None):
    t = time.time()
    r = orig(self, extra, timeout)
    d = time.time() - t
    stats['check'] += d
    stats['n'] += 1
    if d > 0.5:
        stats['slow'] += 1
    return r


core.PathCtx.check = check
t0 = time.time()
r = V.verify_contract(REG, c, timeout_ms=20000)
print('total %.1fs' % (time.time() - t0), stats, 'paths', r.paths, 'obligation time %.1f' %
      sum(o['time'] for o in r.obligations.values()), r.unsupported[:3], (r.error or '')[:300])
