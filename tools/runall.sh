#!/usr/bin/env bash
# run every claimed quick check on the unchanged tree; refuse to leave stale evidence behind
cd /verif || exit 3
git -C /repo diff --quiet || { echo "/repo has uncommitted changes"; exit 3; }
unset VERIF_REPO
rc=0
for pid in $(python3 -c "import json;print(' '.join(c['property_id'] for c in json.load(open('MANIFEST.json'))['checks']))"); do
  bin/vcheck "$pid" --tier quick > "/tmp/runall_$pid.txt" 2>&1; e=$?
  echo "$pid exit=$e $(grep -E 'obligations discharged' /tmp/runall_$pid.txt | cut -c1-120)"
  [ $e -ne 0 ] && { rc=1; grep -E "VIOLATION|UNDEC|CHECKER" /tmp/runall_$pid.txt | head -5; }
done
exit $rc
