#!/usr/bin/env bash
# Run every claimed quick check on the unchanged tree, each with its evidence file removed first
# (the run has to rewrite it), then validate every evidence record against the schema and the
# claim in MANIFEST.json.  Evidence is committed only after this script exits 0.
cd "$(dirname "$0")/.." || exit 3
git -C /repo diff --quiet || { echo "/repo has uncommitted changes"; exit 3; }
unset VERIF_REPO VERIF_EVIDENCE_DIR
out="$(mktemp -d /var/tmp/verif_runall.XXXXXX)"
rc=0
pids="$*"
[ -z "$pids" ] && pids="$(python3 -c "import json;print(' '.join(c['property_id'] for c in json.load(open('MANIFEST.json'))['checks']))")"
for pid in $pids; do
  rm -f "evidence/$pid.json"
  VERIF_WRITE_BASELINE=1 bin/vcheck "$pid" --tier quick > "$out/$pid.txt" 2>&1; e=$?
  echo "$pid exit=$e $(grep -E 'obligations discharged' "$out/$pid.txt" | cut -c1-120)"
  [ $e -ne 0 ] && { rc=1; grep -E "VIOLATION|UNDEC|CHECKER" "$out/$pid.txt" | head -5; }
  grep -q "VIOLATION" "$out/$pid.txt" && rc=1
done
.venv/bin/python tools/validate_evidence.py || rc=1
rm -rf "$out"
exit $rc
