#!/usr/bin/env python3
"""tools/keepseed.py <seed-dir> <name> <property> <caught-by...> : archive a confirmed seeded defect"""
import json, os, shutil, sys
src, name, pid = sys.argv[1:4]
caught = sys.argv[4:]
dst = os.path.join('/verif/seeded', name)
os.makedirs(dst, exist_ok=True)
for f in ('patch.diff', 'demo.py'):
    shutil.copy(os.path.join(src, f), dst)
meta = json.load(open(os.path.join(src, 'meta.json')))
meta['property'] = pid
meta['confirmed'] = ('demo.py exits 0 on the unchanged tree and non-zero with patch.diff applied '
                     '(tools/seedtest.sh, PYTHONPATH=/repo /venv/bin/python demo.py); '
                     'the agent-reported unit tests pass with the change')
meta['check_result'] = caught
json.dump(meta, open(os.path.join(dst, 'meta.json'), 'w'), indent=1)
print('kept', dst)
