#!/usr/bin/env python3
"""tools/validate_evidence.py : MANIFEST.json against its schema, and every evidence/<id>.json against the
evidence schema AND against the claim (same level as level_claimed.category, proof => discharged ==
obligations, other => explanation, violations == 0, written from a run on the unchanged tree).
Exit 1 on any problem.  Run by tools/runall.sh before evidence is committed."""
import json
import os
import sys

import jsonschema

ROOT = os.path.dirname(os.path.dirname(os.path.abspath(__file__)))


def _schema(name):
    for p in (f'/root/.vp/{name}', os.path.join(ROOT, 'tools', name)):
        if os.path.exists(p):
            return json.load(open(p))
    raise SystemExit(f'no {name}')


def main():
    man = json.load(open(os.path.join(ROOT, 'MANIFEST.json')))
    bad = 0
    for e in jsonschema.Draft202012Validator(_schema('MANIFEST.schema.json')).iter_errors(man):
        print('MANIFEST.json:', e.message[:200])
        bad += 1
    props = [json.loads(line)['id'] for line in open(os.path.join(ROOT, 'properties.jsonl'))]
    claimed = [c['property_id'] for c in man['checks']]
    na = [n['property_id'] for n in man.get('not_applicable', [])]
    if sorted(claimed + na) != sorted(props):
        print('MANIFEST.json: checks + not_applicable do not partition the given properties')
        bad += 1
    ev_schema = jsonschema.Draft202012Validator(_schema('EVIDENCE.schema.json'))
    for c in man['checks']:
        pid, cat = c['property_id'], c['level_claimed']['category']
        path = os.path.join(ROOT, c['evidence_file'])
        errs = []
        if not os.path.exists(path):
            errs.append('missing')
        else:
            ev = json.load(open(path))
            errs += [e.message[:200] for e in ev_schema.iter_errors(ev)]
            cov = ev.get('coverage', {})
            if ev.get('property_id') != pid:
                errs.append(f"property_id {ev.get('property_id')}")
            if ev.get('level') != cat:
                errs.append(f"level '{ev.get('level')}' but MANIFEST level_claimed.category is '{cat}'")
            if ev.get('level') == 'proof' and cov.get('discharged') != cov.get('obligations'):
                errs.append(f"proof with discharged {cov.get('discharged')} != obligations {cov.get('obligations')}")
            if ev.get('level') == 'other' and not str(cov.get('explanation', '')).strip():
                errs.append('level other without coverage.explanation')
            if ev.get('violations'):
                errs.append(f"record of a run with {ev['violations']} violation(s): not from the unchanged tree")
            if cov.get('errors') or cov.get('undecided'):
                errs.append('record of a run with checker errors / undecided obligations')
        print(f'{pid}: ' + ('ok' if not errs else '; '.join(errs)))
        bad += len(errs)
    return 1 if bad else 0


if __name__ == '__main__':
    sys.exit(main())
