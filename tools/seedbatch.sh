#!/usr/bin/env bash
# tools/seedbatch.sh <stage-dir> <jobs> <name:Cnn[,Cmm]> ... : run tools/seedtest.sh for several seeds,
# <jobs> at a time; one log per seed in /var/tmp/seedlogs/.  (Developer helper.)
stage="$1"; jobs="$2"; shift 2
mkdir -p /var/tmp/seedlogs
run() {
  name="${1%%:*}"; pids="${1#*:}"
  /verif/tools/seedtest.sh "$stage/$name" ${pids//,/ } > "/var/tmp/seedlogs/$name.log" 2>&1
  echo "$name $(grep -E 'exit=|check-exit|VIOLATION' "/var/tmp/seedlogs/$name.log" | tr '\n' ' ' | cut -c1-400)"
}
export -f run; export stage
printf '%s\n' "$@" | xargs -P "$jobs" -I{} bash -c 'run {}'
