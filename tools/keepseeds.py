#!/usr/bin/env python3
"""tools/keepseeds.py <stage-dir> [<log-dir>] : archive confirmed seeded changes under /verif/seeded/<name>/
(patch.diff, demo.py, meta.json) with what tools/seedtest.sh observed (its log in <log-dir>/<name>.log):
demo exit codes on the unchanged and on the changed tree, and the result of the check(s)."""
import json
import os
import re
import shutil
import sys

stage = sys.argv[1]
logs = sys.argv[2] if len(sys.argv) > 2 else '/var/tmp/seedlogs'
ROOT = os.path.dirname(os.path.dirname(os.path.abspath(__file__)))
for name in sorted(os.listdir(stage)):
    src = os.path.join(stage, name)
    lp = os.path.join(logs, name + '.log')
    if not os.path.isdir(src) or not os.path.exists(lp):
        continue
    log = [l.strip() for l in open(lp) if not l.startswith('WARNING')]
    exits = [l for l in log if l.startswith('exit=')]
    if len(exits) < 2 or exits[0] != 'exit=0' or exits[1] == 'exit=0':
        print('NOT CONFIRMED', name, exits)
        continue
    dst = os.path.join(ROOT, 'seeded', name)
    os.makedirs(dst, exist_ok=True)
    for f in ('patch.diff', 'demo.py'):
        shutil.copy(os.path.join(src, f), dst)
    meta = json.load(open(os.path.join(src, 'meta.json')))
    meta['property'] = re.match(r'(C\d+)', name).group(1)
    meta['origin'] = 'independent sub-agent given only the property text and a scratch worktree'
    meta['confirmed'] = ('tools/seedtest.sh: demo.py exits 0 on the unchanged tree and ' + exits[1].replace('exit=', '')
                         + ' with patch.diff applied (scratch worktree of /repo); the agent-reported test '
                           'runs (unit + doctest + integration, same failing ids as the unchanged tree) are in tests_run')
    res = []
    cur = None
    for l in log:
        if l.startswith('== check'):
            cur = l.replace('== check ', '')
        elif cur and (l.startswith(('VIOLATION', 'UNDECIDED', 'CHECKER-ERROR', 'check-exit', 'failed obligation'))
                      or 'obligations discharged' in l):
            res.append(f'{cur}: {l[:260]}')
    meta['check_result'] = res
    json.dump(meta, open(os.path.join(dst, 'meta.json'), 'w'), indent=1)
    print('kept', name, [r for r in res if 'check-exit' in r])
