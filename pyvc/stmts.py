"""Statement execution (mixin for Engine)."""
from __future__ import annotations

import ast
import contextlib
import z3

from .kinds import (Kind, INT, BOOL, STR, FLOAT, NONE, ANY, CONST, PYTUPLE, sort_of,
                    sort_name, parse_kind, opt)
from .core import (SV, NONEV, const, Unsupported, PyRaise, Infeasible, ReturnEx,
                   BreakEx, ContinueEx)

I = z3.IntSort()
LOG_NAMES = {'LOG'}
LOG_METHODS = {'debug', 'info', 'warning', 'error', 'critical', 'exception', 'log', 'warn'}


def assigned_names(nodes):
    out = set()
    for n in nodes:
        for x in ast.walk(n):
            if isinstance(x, ast.Name) and isinstance(x.ctx, (ast.Store, ast.Del)):
                out.add(x.id)
            elif isinstance(x, ast.NamedExpr):
                out.add(x.target.id)
    return out


class StmtMixin:
    def exec_block(self, stmts):
        for s in stmts:
            self.exec(s)

    def exec(self, s):
        m = getattr(self, 's_' + type(s).__name__, None)
        if m is None:
            raise Unsupported(f'statement {type(s).__name__} (line {s.lineno})')
        self.cur_line = s.lineno
        m(s)
        c = self.frame.contract
        if c is not None and c.ghost_after and not isinstance(s, (ast.If, ast.For, ast.While, ast.Try, ast.With)):
            key = ast.unparse(s).strip()
            g = c.ghost_after.get(key)
            if g is not None:
                # ghost statements: may only assign ghost variables (checked syntactically)
                for gs in ast.parse(g).body:
                    self.check_ghost_stmt(gs, c)
                    self.exec(gs)

    def check_ghost_stmt(self, gs, c):
        names = set(c.ghost_vars)
        for x in ast.walk(gs):
            if isinstance(x, ast.Name) and isinstance(x.ctx, ast.Store) and x.id not in names:
                raise Unsupported(f'ghost code assigns non-ghost variable {x.id}')
            if isinstance(x, ast.Attribute) and isinstance(x.ctx, ast.Store):
                raise Unsupported('ghost code writes an attribute')
            if isinstance(x, ast.Call) and isinstance(x.func, ast.Attribute) \
                    and x.func.attr in ('append', 'add', 'update', 'pop', 'remove', 'appendleft', 'clear',
                                        'extend', 'insert', 'discard', 'setdefault'):
                root = x.func.value
                if not (isinstance(root, ast.Name) and root.id in names):
                    raise Unsupported('ghost code mutates a non-ghost object')

    # ------------------------------------------------------------ simple
    def s_Pass(self, s):
        pass

    def s_Global(self, s):
        raise Unsupported('global statement')

    def s_Nonlocal(self, s):
        raise Unsupported('nonlocal statement')

    def is_log_call(self, e):
        return (isinstance(e, ast.Call) and isinstance(e.func, ast.Attribute)
                and isinstance(e.func.value, ast.Name) and e.func.value.id in LOG_NAMES
                and e.func.attr in LOG_METHODS)

    def s_Expr(self, s):
        if isinstance(s.value, ast.Constant):
            return
        if self.is_log_call(s.value):
            self.notes['dropped'].add(f'{self.frame.qualname}: LOG.{s.value.func.attr} (line {s.lineno})')
            return
        self.eval(s.value)

    def s_Return(self, s):
        raise ReturnEx(self.eval(s.value) if s.value is not None else NONEV)

    def s_Break(self, s):
        raise BreakEx()

    def s_Continue(self, s):
        raise ContinueEx()

    def s_Delete(self, s):
        for t in s.targets:
            if isinstance(t, ast.Name):
                self.frame.locals.pop(t.id, None)
            elif isinstance(t, ast.Subscript):
                base = self.force(self.eval(t.value))
                idx = self.eval(t.slice)
                self.delitem(base, idx)
            else:
                raise Unsupported('del of attribute')

    def s_Assert(self, s):
        c = self.truthy(self.eval(s.test))
        if not self.p.choose(c):
            self.raise_(AssertionError)

    def s_Import(self, s):
        import importlib
        for a in s.names:
            mod = importlib.import_module(a.name)
            if a.asname:
                self.frame.locals[a.asname] = const(mod)
            else:
                self.frame.locals[a.name.split('.')[0]] = const(importlib.import_module(a.name.split('.')[0]))

    def s_ImportFrom(self, s):
        import importlib
        mod = importlib.import_module(s.module)
        for a in s.names:
            self.frame.locals[a.asname or a.name] = self.lift(getattr(mod, a.name))

    def s_FunctionDef(self, s):
        from .engine import Closure
        self.frame.locals[s.name] = const(Closure(s, self.frame))

    # ------------------------------------------------------------ assignment
    def s_Assign(self, s):
        try:
            v = self.eval(s.value)
        except Unsupported as ex:
            # a value the engine cannot model, bound to a plain local: the local becomes
            # unbound (any later READ of it is an error; values used only in dropped
            # messages / exception arguments do no harm)
            if len(s.targets) == 1 and isinstance(s.targets[0], ast.Name) and not self.p.speculating:
                self.frame.locals[s.targets[0].id] = None
                self.notes['havoc'].add(f'{self.frame.qualname}: unmodelled value of local '
                                        f'{s.targets[0].id} (line {s.lineno}): {ex}')
                return
            raise
        for t in s.targets:
            self.assign(t, v)

    def s_AnnAssign(self, s):
        if s.value is None:
            return
        v = self.eval(s.value)
        if v.kind.name in ('emptylist', 'emptydict', 'emptyset'):
            k = self.kind_from_annotation(s.annotation)
            if k is not None:
                v = self.materialise(v, k)
        self.assign(s.target, v)

    def kind_from_annotation(self, ann):
        hints = self.frame.contract.sorts if self.frame.contract else {}
        return None

    def s_AugAssign(self, s):
        cur = self.eval(_load(s.target))
        rhs = self.eval(s.value)
        cur = self.force(cur)
        op = type(s.op).__name__
        if cur.kind.is_list and op == 'Add':
            self.list_extend(cur, rhs)
            return
        if cur.kind.is_set and op in ('BitOr', 'Sub', 'BitAnd'):
            r = self.set_binop(op, cur, self.force(rhs))
            self.set_store(cur, self.set_mem(r))
            return
        self.assign(s.target, self.binop(op, cur, rhs))

    def assign(self, t, v: SV):
        if isinstance(t, ast.Name):
            hint = self.local_hint(t.id)
            if v.kind.name in ('emptylist', 'emptydict', 'emptyset'):
                if hint is None:
                    raise Unsupported(f'empty literal assigned to {t.id}: add a sort hint '
                                      f'(sorts={{"{t.id}": ...}}) in the contract')
                v = self.materialise(v, hint)
            elif hint is not None and hint.name == 'opt' and v.kind != hint and not self.term_mode:
                v = SV(hint, self.coerce(v, hint))
            self.frame.locals[t.id] = v
        elif isinstance(t, ast.Attribute):
            obj = self.force(self.eval(t.value))
            if not obj.kind.is_obj:
                if obj.kind == NONE:
                    self.raise_(AttributeError)
                raise Unsupported(f'attribute store on {obj.kind}')
            fk = self.field_kind(obj.kind.name, t.attr)
            if fk is None:
                raise Unsupported(f'no schema for {obj.kind.name}.{t.attr}')
            if v.kind.name in ('emptylist', 'emptydict', 'emptyset'):
                inner = fk.args[0] if fk.name == 'opt' else fk
                v = self.materialise(v, inner)
            inv = self.reg.field_invariant(obj.kind.name, t.attr)
            if inv is not None and not self.term_mode:
                # a type invariant of the attribute (assumed at every read) is checked at every write
                vv = v if v.kind == fk else SV(fk, self.coerce(v, fk))
                g = self.eval_clause(inv[1], env={'v': vv}, contract=inv[2], polarity=1)
                self.prove(f'{self.frames[0].qualname}::field-invariant({inv[0]}.{t.attr})', g)
            self.write_field(obj, t.attr, v)
        elif isinstance(t, ast.Subscript):
            base = self.force(self.eval(t.value))
            idx = self.eval(t.slice)
            self.setitem(base, idx, v)
        elif isinstance(t, (ast.Tuple, ast.List)):
            v = self.force(v)
            items = self.tuple_items(v) if v.kind.name in ('pytuple', 'tuple', 'const') else None
            if items is None:
                raise Unsupported(f'unpacking {v.kind}')
            if len(items) != len(t.elts):
                self.raise_(ValueError, 'unpack')
            for tt, it in zip(t.elts, items):
                self.assign(tt, it)
        else:
            raise Unsupported(f'assignment target {type(t).__name__}')

    def local_hint(self, name):
        c = self.frame.contract
        if c is not None and name in c.sorts and name not in getattr(self.frame, 'param_names', ()):
            return parse_kind(c.sorts[name])
        if c is not None and name in c.ghost_vars:
            return parse_kind(c.ghost_vars[name])
        return None

    def setitem(self, base, idx, v):
        k = base.kind
        idx = self.force(idx)
        if k.is_dict:
            kt = self.coerce(idx, k.key)
            if v.kind.name in ('emptylist', 'emptydict', 'emptyset'):
                v = self.materialise(v, k.val)
            vt = self.coerce(v, k.val)
            self.dict_store(base, z3.Store(self.dict_has(base), kt, z3.BoolVal(True)),
                            z3.Store(self.dict_vals(base), kt, vt))
            self.dict_note_insert(base, kt)
            return
        if k.is_list:
            i = self.as_int(idx)
            n = self.list_len(base)
            if not self.p.choose(z3.And(i >= 0, i < n)):
                if self.p.choose(z3.And(i < 0, i >= -n)):
                    i = n + i
                else:
                    self.raise_(IndexError)
            self.list_set_content(base, n, z3.Store(self.list_elems(base), i,
                                                   self.coerce(v, k.elem)))
            return
        if k.is_obj:
            self.call_method(base, '__setitem__', [idx, v])
            return
        raise Unsupported(f'item store on {k}')

    def dict_note_insert(self, dv, kt):
        pass

    def delitem(self, base, idx):
        k = base.kind
        idx = self.force(idx)
        if k.is_dict:
            kt = self.coerce(idx, k.key)
            if not self.p.choose(z3.Select(self.dict_has(base), kt)):
                self.raise_(KeyError)
            self.dict_store(base, z3.Store(self.dict_has(base), kt, z3.BoolVal(False)),
                            self.dict_vals(base))
            return
        raise Unsupported(f'del item on {k}')

    # ------------------------------------------------------------ control flow
    def cond(self, node, force=False):
        """z3 Bool of a test expression.  With the merge option, `and` / `or` / `not` chains are
        evaluated without forking as long as each later operand can be evaluated speculatively under
        the guard that it is reached (no fork, no exception, no heap effect); otherwise the prefix
        is decided by a fork exactly as Python's short-circuit evaluation would."""
        if self.term_mode or not (force or self.options.get('merge_ifs', False)):
            return self.truthy(self.eval(node))
        if isinstance(node, ast.UnaryOp) and isinstance(node.op, ast.Not):
            return z3.Not(self.cond(node.operand, force))
        if not isinstance(node, ast.BoolOp):
            return self.truthy(self.eval(node))
        is_and = isinstance(node.op, ast.And)
        acc = None
        for sub in node.values:
            if acc is None:
                acc = self.cond(sub, force)
                continue
            g = z3.simplify(acc if is_and else z3.Not(acc))
            if z3.is_false(g):
                break                      # certainly short-circuited here
            t = self.cond(sub, force) if z3.is_true(g) else self.spec_cond(sub, g, force)
            if t is None:
                d = self.p.choose(acc)
                if is_and and not d:
                    return z3.BoolVal(False)
                if (not is_and) and d:
                    return z3.BoolVal(True)
                acc = self.cond(sub, force)
            else:
                acc = z3.And(acc, t) if is_and else z3.Or(acc, t)
        return acc

    def spec_cond(self, sub, guard, force=False):
        """Evaluate an operand under `guard` without forking; None if that is not possible."""
        from .core import SpecAbort
        p = self.p
        fr = self.frame
        st = (dict(fr.locals), dict(p.heap), p.next, p.nfresh, len(self.obligations),
              dict(fr.call_ordinals), len(self.frames), self.cur_line)
        p.guards.append(guard)
        p.speculating += 1
        ok = True
        t = None
        try:
            t = self.cond(sub, force)
        except (SpecAbort, PyRaise, Infeasible, Unsupported, ReturnEx, BreakEx, ContinueEx):
            ok = False
        finally:
            p.guards.pop()
            p.speculating -= 1
        if ok:
            for k_, a in p.heap.items():
                b = st[1].get(k_)
                if b is None:
                    if not (z3.is_const(a) and a.decl().kind() == z3.Z3_OP_UNINTERPRETED):
                        ok = False
                        break
                elif not a.eq(b):
                    ok = False
                    break
        if not ok:
            fr.locals, p.heap, p.next, p.nfresh = dict(st[0]), dict(st[1]), st[2], st[3]
            del self.obligations[st[4]:]
            fr.call_ordinals = dict(st[5])
            del self.frames[st[6]:]
            self.cur_line = st[7]
            return None
        return t

    def s_If(self, s):
        c = self.cond(s.test)
        p = self.p
        cz = z3.simplify(c) if not isinstance(c, bool) else z3.BoolVal(c)
        if not (z3.is_true(cz) or z3.is_false(cz)) and self.options.get('merge_ifs', False):
            # path merging: execute both branches speculatively (no forks inside) and join
            if p.speculating:
                if self.try_merge_if(s, cz):
                    return
                from .core import SpecAbort
                raise SpecAbort()
            if p.pos < len(p.decisions):
                if p.decisions[p.pos] == 'M':
                    p.pos += 1
                    if not self.try_merge_if(s, cz):
                        raise Unsupported('speculative merge not reproducible on replay')
                    return
            elif self.try_merge_if(s, cz):
                p.decisions.append('M')
                p.pos += 1
                return
        if p.choose(c):
            self.narrow(s.test, True)
            self.exec_block(s.body)
        else:
            self.narrow(s.test, False)
            self.exec_block(s.orelse)

    def narrow(self, test, outcome):
        """After branching on `x`, `not x`, `x is None`, `x is not None` for an optional local x:
        rebind x to None / to its payload on the branch where that is known."""
        neg = False
        while isinstance(test, ast.UnaryOp) and isinstance(test.op, ast.Not):
            test, neg = test.operand, not neg
        name = None
        none_when = None      # outcome under which the value is None
        if isinstance(test, ast.Name):
            name, known_some = test.id, (outcome != neg)     # truthy => not None
            v = self.frame.locals.get(name)
            if v is not None and v.kind.name == 'opt' and known_some:
                self.frame.locals[name] = self.force(v)
            return
        if isinstance(test, ast.Compare) and len(test.ops) == 1 and isinstance(test.left, ast.Name) \
                and isinstance(test.comparators[0], ast.Constant) and test.comparators[0].value is None \
                and isinstance(test.ops[0], (ast.Is, ast.IsNot)):
            name = test.left.id
            is_none = isinstance(test.ops[0], ast.Is) == (outcome != neg)
            v = self.frame.locals.get(name)
            if v is not None and v.kind.name == 'opt':
                self.frame.locals[name] = NONEV if is_none else self.force(v)

    def try_merge_if(self, s, c):
        """Run both branches of `if c:` under guards c / not c without forking and
        merge the resulting states with ite-terms.  False = not possible (fork)."""
        from .core import SpecAbort
        p = self.p
        fr = self.frame
        if len(self.frames) > 12 or p.speculating >= 2:
            return False
        if not p.feasible(c) or not p.feasible(z3.Not(c)):
            return False       # one side infeasible: ordinary choose handles it without a fork

        def snap():
            return (dict(fr.locals), dict(p.heap), p.next, p.nfresh, dict(p.bounds),
                    dict(p.__dict__.get('_divmod', {})), set(p.__dict__.get('_facts', set())),
                    dict(p.str_defs),
                    {k: (b, dict(reg)) for k, (b, reg) in p.__dict__.get('multipliers', {}).items()},
                    fr.loop_ordinal, dict(fr.call_ordinals), len(self.frames), self.cur_line)

        def restore(st):
            (fr.locals, p.heap, p.next, p.nfresh, p.bounds, p._divmod, p._facts, p.str_defs,
             p.multipliers, fr.loop_ordinal, fr.call_ordinals) = (
                dict(st[0]), dict(st[1]), st[2], st[3], dict(st[4]), dict(st[5]), set(st[6]),
                dict(st[7]), {k: (b, dict(reg)) for k, (b, reg) in st[8].items()}, st[9], dict(st[10]))
            del self.frames[st[11]:]

        base = snap()
        nobl = len(self.obligations)
        outs = []
        for guard, block in ((c, s.body), (z3.Not(c), s.orelse)):
            p.guards.append(guard)
            p.speculating += 1
            ok = True
            try:
                self.exec_block(block)
            except (SpecAbort, PyRaise, ReturnEx, BreakEx, ContinueEx, Infeasible, Unsupported):
                ok = False
            finally:
                p.guards.pop()
                p.speculating -= 1
            if not ok:
                restore(base)
                del self.obligations[nobl:]
                return False
            outs.append((dict(fr.locals), dict(p.heap), p.next, p.nfresh, dict(p.bounds),
                         fr.loop_ordinal, dict(fr.call_ordinals)))
            loopA = fr.loop_ordinal
            restore(base)
        (la, ha, na, fa, ba, loa, coa), (lb, hb, nb, fb, bb, lob, cob) = outs
        # merge locals
        merged = {}
        for name in set(la) | set(lb):
            va, vb = la.get(name), lb.get(name)
            if va is vb:
                merged[name] = va
                continue
            if va is None or vb is None:
                merged[name] = None      # bound on one side only: unbound after the join
                continue
            if va.kind == vb.kind and va.t is not None and vb.t is not None:
                if va.kind == STR and not va.t.eq(vb.t) and not (
                        z3.is_string_value(z3.simplify(va.t)) and z3.is_string_value(z3.simplify(vb.t))):
                    # string terms are matched syntactically by pymodel: keep the paths apart
                    del self.obligations[nobl:]
                    return False
                merged[name] = SV(va.kind, va.t if va.t.eq(vb.t) else z3.If(c, va.t, vb.t))
                continue
            try:
                k = self.join_kinds([va.kind, vb.kind])
                merged[name] = SV(k, z3.If(c, self.coerce(va, k), self.coerce(vb, k)))
            except Unsupported:
                del self.obligations[nobl:]
                return False
        fr.locals = merged
        # merge heap
        heap = {}
        for key in set(ha) | set(hb):
            a, b = ha.get(key), hb.get(key)
            if a is None or b is None:
                other = a if a is not None else b
                init = z3.Const('H0_' + key, other.sort())
                p.bounds.setdefault(str(init), p.next0)
                a = init if a is None else a
                b = init if b is None else b
            heap[key] = a if a.eq(b) else z3.If(c, a, b)
        p.heap = heap
        p.next = na if na.eq(nb) else z3.If(c, na, nb)
        p.nfresh = max(fa, fb)
        p.bounds = dict(ba)
        p.bounds.update(bb)
        fr.loop_ordinal = max(loa, lob)
        for k_ in set(coa) | set(cob):
            fr.call_ordinals[k_] = max(coa.get(k_, 0), cob.get(k_, 0))
        return True

    def s_Raise(self, s):
        if s.exc is None:
            exc = getattr(self.frame, 'current_exc', None)
            if exc is None:
                raise Unsupported('bare raise outside except')
            raise exc
        cls = self.exception_class(s.exc)
        raise PyRaise(cls, None, f'line {s.lineno}')

    def exception_class(self, e):
        """Class raised by `raise <e>`; constructor arguments are not evaluated
        (messages), except that their evaluation is assumed side-effect free."""
        node = e.func if isinstance(e, ast.Call) else e
        try:
            v = self.eval(node)
        except Unsupported:
            raise
        if v.kind == CONST and isinstance(v.py, type) and issubclass(v.py, BaseException):
            return v.py
        if v.kind == CONST and isinstance(v.py, BaseException):
            return type(v.py)
        if v.kind == CONST and isinstance(e, ast.Call) and e.args \
                and self.reg.externals.get(('exception_factory', getattr(v.py, '__qualname__', None))):
            # raise make_error(ErrorClass, ...): the class is the first argument
            cv = self.eval(e.args[0])
            if cv.kind == CONST and isinstance(cv.py, type) and issubclass(cv.py, BaseException):
                return cv.py
        raise Unsupported(f'raise of non-class (line {e.lineno})')

    def s_Try(self, s):
        fr = self.frame
        try:
            try:
                self.exec_block(s.body)
            except PyRaise as ex:
                handled = False
                for h in s.handlers:
                    if self.handler_matches(h, ex):
                        handled = True
                        if h.name:
                            fr.locals[h.name] = const(ex)
                        prev = getattr(fr, 'current_exc', None)
                        fr.current_exc = ex
                        try:
                            self.exec_block(h.body)
                        finally:
                            fr.current_exc = prev
                        break
                if not handled:
                    raise
            else:
                self.exec_block(s.orelse)
        except (PyRaise, ReturnEx, BreakEx, ContinueEx):
            if s.finalbody:
                self.exec_block(s.finalbody)
            raise
        else:
            if s.finalbody:
                self.exec_block(s.finalbody)

    def handler_matches(self, h, ex: PyRaise):
        if h.type is None:
            return True
        tv = self.eval(h.type)
        classes = tv.py if tv.kind == CONST else None
        if tv.kind == PYTUPLE:
            classes = tuple(x.py for x in tv.py)
        if classes is None:
            raise Unsupported('except with non-constant class')
        return issubclass(ex.cls, classes)

    def s_With(self, s):
        # supported context managers: contextlib.suppress(E...), locks (no-op)
        if len(s.items) != 1:
            raise Unsupported('with: several items')
        it = s.items[0]
        ce = it.context_expr
        if isinstance(ce, ast.Call):
            f = self.eval(ce.func)
            if f.kind == CONST and f.py is contextlib.suppress:
                classes = []
                for a in ce.args:
                    av = self.eval(a)
                    classes.append(av.py)
                try:
                    self.exec_block(s.body)
                except PyRaise as ex:
                    if not issubclass(ex.cls, tuple(classes)):
                        raise
                return
        raise Unsupported(f'with statement (line {s.lineno})')

    # ------------------------------------------------------------ loops
    def loop_spec(self):
        fr = self.frame
        k = fr.loop_ordinal
        fr.loop_ordinal += 1
        spec = fr.contract.loops.get(k) if fr.contract is not None else None
        return k, spec

    def s_While(self, s):
        k, spec = self.loop_spec()
        self.generic_loop(s, k, spec, None)

    def s_For(self, s):
        k, spec = self.loop_spec()
        it = self.force(self.eval(s.iter))
        # concrete iteration: unroll
        conc = self.concrete_items(it)
        if conc is not None:
            broke = False
            for item in conc:
                self.assign(s.target, item)
                try:
                    self.exec_block(s.body)
                except ContinueEx:
                    continue
                except BreakEx:
                    broke = True
                    break
            if not broke:
                self.exec_block(s.orelse)
            return
        self.generic_loop(s, k, spec, it)

    def concrete_items(self, it: SV):
        if it.kind == PYTUPLE:
            return list(it.py)
        if it.kind.name == 'emptylist':
            return []
        if it.kind == CONST:
            py = it.py
            if isinstance(py, (list, tuple)):
                return [self.lift(x) for x in py]
            if isinstance(py, range):
                return [self.lift(x) for x in py]
            if isinstance(py, dict):
                return [self.lift(x) for x in py]
            if isinstance(py, (set, frozenset)):
                return [self.lift(x) for x in sorted(py, key=repr)]
            from .calls import ConcreteIter
            if isinstance(py, ConcreteIter):
                return py.items
        return None

    def generic_loop(self, s, k, spec, it):
        """Cut the loop at its invariant.

        entry: prove inv; havoc assigned locals + declared heap locations;
        assume inv (+ iteration facts); one arbitrary iteration: body, prove inv;
        exit paths continue with inv and negated guard / exhausted iterator."""
        from .spec import LoopSpec
        fr = self.frame
        p = self.p
        qn = fr.qualname
        if spec is None:
            spec = LoopSpec()
        is_for = isinstance(s, ast.For)
        iterctx = None
        ghost = {}
        if is_for:
            ghost['_i'] = SV(INT, z3.IntVal(0))
        # 1. invariant on entry
        for j, inv in enumerate(spec.invariant):
            t = self.eval_clause(inv, extra=ghost, polarity=1)
            self.prove(f'{qn}::inv-entry(loop {k})[{j}]', t, line=s.lineno)
        # 2. havoc
        names = assigned_names(s.body + ([s.target] if is_for else []))
        for n in sorted(names):
            if n in fr.locals and fr.locals[n] is not None:
                v = fr.locals[n]
                hint = self.local_hint(n)
                kind = hint or v.kind
                if kind in (CONST, PYTUPLE) or kind.name in ('emptylist', 'emptydict', 'emptyset'):
                    if kind == CONST:
                        fr.locals[n] = None     # becomes unbound: any read is an error
                        continue
                    raise Unsupported(f'loop {k} of {qn} reassigns {n} of kind {kind}')
                fr.locals[n] = self.sym(n, kind)
        head_heap_before = p.heap_snapshot()
        self.havoc_locations(spec.modifies, 'loop')
        head_heap = p.heap_snapshot()
        head_next = p.next
        if is_for:
            iterctx = self.iter_begin(it)
            i = p.fresh('_i', I)
            p.assume(i >= 0)
            p.assume(i <= iterctx[2])
            ghost['_i'] = SV(INT, i)
        # 3. assume invariant
        for inv in spec.invariant:
            p.assume(self.eval_clause(inv, extra=ghost))
        if spec.invariant and not p.speculating:
            # vacuity guard (as for callee contracts): an invariant that contradicts the loop-head
            # state would make the rest provable; no surviving path at all is an error
            stat = self.site_stats.setdefault(f'loop {k} invariant', [0, 0])
            if not p.tainted and p.qf.check() == z3.unsat:
                stat[1] += 1
                raise Infeasible()
            stat[0] += 1
        # 4. fork: iterate once more, or leave
        if is_for:
            more = self.iter_has_next(iterctx, ghost['_i'].t)
        else:
            more = self.truthy(self.eval(s.test))
        if p.choose(more):
            if is_for:
                item = self.iter_item(iterctx, ghost['_i'].t)
                self.assign(s.target, item)
            try:
                self.exec_block(s.body)
            except ContinueEx:
                pass
            except BreakEx:
                self.check_loop_frame(spec, head_heap, head_next, qn, k, s.lineno)
                return   # break: continue after the loop with the current state
            # iteration done: re-establish invariant at i+1
            g2 = dict(ghost)
            if iterctx is not None:
                g2['_i'] = SV(INT, ghost['_i'].t + 1)
            for j, inv in enumerate(spec.invariant):
                t = self.eval_clause(inv, extra=g2, polarity=1)
                self.prove(f'{qn}::inv-step(loop {k})[{j}]', t, line=s.lineno)
            self.check_loop_frame(spec, head_heap, head_next, qn, k, s.lineno)
            raise Infeasible()   # the arbitrary iteration ends here
        else:
            self.exec_block(s.orelse)

    def check_loop_frame(self, spec, head_heap, head_next, qn, k, line):
        """Heap locations changed by the body must be covered by the loop's modifies."""
        p = self.p
        for key, arr in p.heap.items():
            old = head_heap.get(key)
            if old is None:
                continue   # first touched in the body: created lazily, equals initial
            if arr.eq(old):
                continue
            allowed = self.allowed_refs(spec.modifies, key, None)
            if allowed is True:
                continue
            r = z3.Int('r!fr')
            cond = [r >= 1, r < head_next] + self.frame_conds(allowed, r)
            goal = z3.ForAll([r], z3.Implies(z3.And(*cond), z3.Select(arr, r) == z3.Select(old, r)))
            self.prove(f'{qn}::loop-frame(loop {k})[{key}]', goal, line=line)

    loop_old_env = None

    # ---- iteration protocol over symbolic containers
    def iter_begin(self, it: SV):
        k = it.kind
        if k.is_list:
            return ('list', it, self.list_len(it), self.list_elems(it))
        if k.is_set or k.is_dict:
            return self.order_of(it)
        if k == CONST:
            from .calls import SymIter
            if isinstance(it.py, SymIter):
                return it.py.begin(self)
        raise Unsupported(f'iteration over {k}')

    def order_of(self, it: SV):
        """Ghost enumeration of a set / of the keys of a dict: a list without
        repetitions whose elements are exactly the members.  The enumeration is
        a function of the container's identity and current content."""
        k = it.kind
        ek = k.elem if k.is_set else k.key
        s = sort_of(ek)
        mem = self.set_mem(it) if k.is_set else self.dict_has(it)
        ordf = z3.Function('order_' + sort_name(s), z3.ArraySort(s, z3.BoolSort()), I, s)
        cnt = z3.Function('card_' + sort_name(s), z3.ArraySort(s, z3.BoolSort()), I)
        idx = z3.Function('index_' + sort_name(s), z3.ArraySort(s, z3.BoolSort()), s, I)
        n = cnt(mem)
        j = z3.Int('j!ord')
        y = z3.Const('y!ord', s)
        p = self.p
        if not _pattern_safe(mem):
            # an if-then-else (merged branches) cannot occur in a quantifier pattern: name the array
            m0 = p.fresh('memv', mem.sort())
            p.assume(m0 == mem)
            mem = m0
            n = cnt(mem)
        p.assume(n >= 0)
        p.assume(z3.ForAll([j], z3.Implies(z3.And(0 <= j, j < n), z3.And(
            z3.Select(mem, ordf(mem, j)), idx(mem, ordf(mem, j)) == j)),
            patterns=[ordf(mem, j)]))
        p.assume(z3.ForAll([y], z3.Implies(z3.Select(mem, y), z3.And(
            0 <= idx(mem, y), idx(mem, y) < n, ordf(mem, idx(mem, y)) == y)),
            patterns=[idx(mem, y)]))
        return ('order', it, n, (ordf, mem), ek)

    def iter_has_next(self, ctx, i):
        return i < ctx[2]

    def iter_item(self, ctx, i):
        if ctx[0] == 'list':
            return self.list_get(ctx[1], i) if False else self.wf_value(
                SV(ctx[1].kind.elem, z3.Select(ctx[3], i)))
        if ctx[0] == 'order':
            ordf, mem = ctx[3]
            v = SV(ctx[4], ordf(mem, i))
            self.wf_value(v)
            return v
        if ctx[0] == 'symiter':
            it, inner = ctx[1], ctx[3]
            ordf, mem = inner[3]
            key = self.wf_value(SV(inner[4], ordf(mem, i)))
            if it.kind == 'keys':
                return key
            val = self.dict_get(it.base, key)
            if it.kind == 'values':
                return val
            return self.make_tuple([key, val])
        raise Unsupported('iter_item')


def _pattern_safe(t):
    """Only uninterpreted constants, selects and stores: usable inside a quantifier pattern."""
    todo = [t]
    while todo:
        x = todo.pop()
        if not z3.is_app(x):
            return False
        k = x.decl().kind()
        if k == z3.Z3_OP_ITE or z3.is_quantifier(x):
            return False
        if z3.is_bool(x) and x.num_args() > 0 and k not in (z3.Z3_OP_SELECT, z3.Z3_OP_UNINTERPRETED):
            return False
        todo.extend(x.children())
    return True


def _load(t):
    import copy
    t2 = copy.deepcopy(t)
    for x in ast.walk(t2):
        if hasattr(x, 'ctx'):
            x.ctx = ast.Load()
    return t2
