"""Symbolic executor for a subset of Python, over the real source of /repo."""
from __future__ import annotations

import ast
import builtins as _builtins
import importlib
import inspect
import re as _re
import sys
import types
import z3

from .kinds import (Kind, INT, BOOL, STR, FLOAT, NONE, ANY, CONST, PYTUPLE, sort_of,
                    sort_name, parse_kind, opt)
from .core import (SV, NONEV, const, PathCtx, Infeasible, Unsupported, PyRaise,
                   ReturnEx, BreakEx, ContinueEx, Obligation, PathLimit)
from .heapmodel import HeapMixin
from .exprs import ExprMixin
from .stmts import StmtMixin
from .calls import CallMixin
from .builtins_model import BuiltinMixin
from .source import SourceIndex

I = z3.IntSort()
DEBUG = bool(__import__('os').environ.get('PYVC_DEBUG'))


class Frame:
    def __init__(self, func, globs, locs, qualname='?', contract=None, cls=None):
        self.func = func
        self.globals = globs
        self.locals = locs
        self.qualname = qualname
        self.contract = contract
        self.cls = cls            # real class in which the function is defined (for super())
        self.loop_ordinal = 0
        self.call_ordinals = {}


class BoundSym:
    """A method bound to a symbolic receiver."""

    def __init__(self, selfv, func, cls=None):
        self.selfv = selfv
        self.func = func
        self.cls = cls


class Closure:
    def __init__(self, node, frame):
        self.node = node
        self.frame = frame


class Engine(HeapMixin, ExprMixin, StmtMixin, CallMixin, BuiltinMixin):
    def __init__(self, reg, timeout_ms=10000, feas_timeout_ms=2000, max_depth=6):
        self.reg = reg
        self.src = SourceIndex()
        self.timeout_ms = timeout_ms
        self.feas_timeout_ms = feas_timeout_ms
        self.max_depth = max_depth
        self._class_ids = {}
        self.p: PathCtx = None
        self.frames = []
        self.term_mode = 0
        self.obligations = []
        self.notes = {'inlined': set(), 'havoc': set(), 'assumed': set(), 'dropped': set()}
        self.current_contract = None
        self.path_id = 0
        self.old = None
        self.cur_line = 0
        self.model_vars = {}
        self.options = {}
        self.site_stats = {}      # call site -> [paths alive after the callee contract, paths killed]

    # ------------------------------------------------------------- frames
    @property
    def frame(self) -> Frame:
        return self.frames[-1]

    # ------------------------------------------------------------- obligations
    def prove(self, name, goal, line=None, quiet=False):
        """Record and discharge obligation  pc => goal ; then assume goal."""
        p = self.p
        self.last_reason = ''
        if isinstance(goal, bool):
            goal = z3.BoolVal(goal)
        import time
        t0 = time.time()
        if p.guards:
            goal = z3.Implies(z3.And(*p.guards) if len(p.guards) > 1 else p.guards[0], goal)
        g = z3.simplify(goal)
        if z3.is_true(g):
            verdict, model = 'proved', None
        elif self.known_fact(goal):
            verdict, model = 'proved', None
        else:
            verdict, model = self.check_goal(goal)
        dt = time.time() - t0
        if DEBUG and (dt > 1 or verdict != 'proved'):
            print(f'  [prove] path {self.path_id} {name}: {verdict} in {dt:.1f}s '
                  f'({getattr(self, "last_reason", "")})', flush=True)
        ob = Obligation(name, verdict, dt, model, self.path_id, line or self.cur_line)
        if verdict == 'unknown':
            ob.detail = self.smt2(goal)
            ob.reason = getattr(self, 'last_reason', '') or ''
        self.obligations.append(ob)
        if verdict != 'proved':
            # the goal is assumed below so that later obligations are judged on their own; from here
            # on the path condition may be unsatisfiable because of that - the vacuity guards must
            # not mistake it for a contradictory contract
            p.tainted = True
        p.assume(goal)
        return verdict

    def known_fact(self, goal):
        """Goal is (a conjunction of) facts literally present in the path condition."""
        ids = self.p.fact_ids
        if goal.get_id() in ids:
            return True
        if z3.is_and(goal):
            return all(self.known_fact(c) for c in goal.children())
        return False

    def check_goal(self, goal, max_rounds=40):
        """pc => goal, with incremental linearisation of the products PYMUL(b, d):
        a model of the linear abstraction in which some product differs from b*d
        is cut off by valid lemmas (tangent planes at the model point, additivity
        with the other products of the same multiplier) and the query is repeated."""
        import time
        p = self.p
        deadline = time.time() + self.timeout_ms / 1000.0 * 3
        p.solver.push()
        p.solver.add(z3.Not(goal))
        p.solver.set('timeout', self.timeout_ms)
        lemmas_added = []
        try:
            for rnd in range(max_rounds):
                r = p.solver.check()
                if r == z3.unsat:
                    return 'proved', None
                if r != z3.sat:
                    self.last_reason = f'solver {r} in round {rnd}: {p.solver.reason_unknown()}'
                    cand = None
                    try:
                        # the candidate model the solver could not certify (quantifiers): shown, not trusted
                        cand = self.extract_model(p.solver.model())
                    except Exception:
                        cand = None
                    return 'unknown', cand
                m = p.solver.model()
                lem = self.refine_products(m)
                if DEBUG:
                    print(f'    [refine] round {rnd}: {len(lem)} lemmas, '
                          f'{len(p.__dict__.get("all_products", {}))} products', flush=True)
                if not lem:
                    if self.products_consistent(m):
                        return 'refuted', self.extract_model(m)
                    # no gap fact is violated but some product is not b*a in this model:
                    # ask for a model of the exact (nonlinear) constraints
                    p.solver.push()
                    for bid, (b, reg) in p.__dict__.get('multipliers', {}).items():
                        for aid, (atom, mt) in reg.items():
                            p.solver.add(mt == b * atom)
                    r2 = p.solver.check()
                    try:
                        if r2 == z3.sat:
                            return 'refuted', self.extract_model(p.solver.model())
                        if r2 == z3.unsat:
                            return 'proved', None
                        self.last_reason = f'exact nonlinear check: {r2}'
                        return 'unknown', None
                    finally:
                        p.solver.pop()
                for f in lem:
                    p.solver.add(f)
                lemmas_added.extend(lem)
                if time.time() > deadline:
                    self.last_reason = f'deadline after {rnd + 1} refinement rounds'
                    return 'unknown', None
            self.last_reason = 'refinement round limit'
            return 'unknown', None
        finally:
            p.solver.pop()
            p.solver.set('timeout', self.feas_timeout_ms)
            # the lemmas are valid facts: keep them for the rest of the path
            for f in lemmas_added:
                p.assume(f)

    def products_consistent(self, m):
        for bid, (b, reg) in self.p.__dict__.get('multipliers', {}).items():
            b0 = m.eval(b, model_completion=True)
            for aid, (atom, mt) in reg.items():
                a0 = m.eval(atom, model_completion=True)
                m0 = m.eval(mt, model_completion=True)
                if not (z3.is_int_value(b0) and z3.is_int_value(a0) and z3.is_int_value(m0)):
                    return False
                if m0.as_long() != b0.as_long() * a0.as_long():
                    return False
        return True

    def refine_products(self, m, max_new=10):
        """Valid lemmas that cut off a model in which some linear combination of
        products  L = c0*b + sum c_i*PYMUL(b, a_i)  differs from  b*(c0 + sum c_i*a_i).
        For the model value e0 of e = c0 + sum c_i*a_i:
            b > 0:  e >= e0 -> L >= e0*b   and   e <= e0 -> L <= e0*b      (mirror for b < 0)"""
        import itertools
        p = self.p
        mult = p.__dict__.get('multipliers', {})
        if not mult:
            return []

        def val(t):
            v = m.eval(t, model_completion=True)
            return v.as_long() if z3.is_int_value(v) else None
        # group atoms by the model value of their multiplier
        groups = {}
        for bid, (b, reg) in mult.items():
            b0 = val(b)
            if b0 is None:
                continue
            g = groups.setdefault(b0, [])
            for aid, (atom, mt) in reg.items():
                a0, m0 = val(atom), val(mt)
                if a0 is None or m0 is None:
                    continue
                g.append((b, atom, mt, a0, m0))
        done = p.__dict__.setdefault('refined', set())
        lemmas = []
        for b0, atoms in groups.items():
            if not atoms:
                continue
            base_b = atoms[0][0]
            n = len(atoms)
            for size in (1, 2, 3, 4):
                if len(lemmas) >= max_new:
                    break
                for idxs in itertools.combinations(range(n), size):
                    if len(lemmas) >= max_new:
                        break
                    for signs in itertools.product((1, -1), repeat=size):
                        if signs[0] == -1:
                            continue   # e and -e give the same lemma
                        for c0 in (0, 1, -1):
                            e0 = c0 + sum(sg * atoms[i][3] for sg, i in zip(signs, idxs))
                            L0 = c0 * b0 + sum(sg * atoms[i][4] for sg, i in zip(signs, idxs))
                            if L0 == b0 * e0:
                                continue
                            # only the sign/gap facts (e>=1 -> L>=b, e<=-1 -> L<=-b, e==0 -> L==0)
                            ab = abs(b0)
                            violated = (e0 == 0 and L0 != 0) or \
                                (b0 > 0 and ((e0 >= 1 and L0 < b0) or (e0 <= -1 and L0 > -b0))) or \
                                (b0 < 0 and ((e0 >= 1 and L0 > b0) or (e0 <= -1 and L0 < -b0))) or \
                                (b0 == 0 and L0 != 0)
                            if not violated:
                                continue
                            e0 = 1 if e0 >= 1 else (-1 if e0 <= -1 else 0)
                            key = (tuple(atoms[i][2].get_id() for i in idxs), signs, c0, e0)
                            if key in done:
                                continue
                            done.add(key)
                            e = z3.IntVal(c0)
                            L = c0 * base_b
                            guard = []
                            for sg, i in zip(signs, idxs):
                                bi, atom, mt, _, _ = atoms[i]
                                e = e + sg * atom
                                L = L + sg * mt
                                if not bi.eq(base_b):
                                    guard.append(bi == base_b)
                            b = base_b
                            body = z3.And(
                                z3.Implies(e == 0, L == 0),
                                z3.Implies(z3.And(b > 0, e >= 1), L >= b),
                                z3.Implies(z3.And(b > 0, e <= -1), L <= -b),
                                z3.Implies(z3.And(b < 0, e >= 1), L <= b),
                                z3.Implies(z3.And(b < 0, e <= -1), L >= -b),
                                z3.Implies(b == 0, L == 0))
                            lemmas.append(z3.Implies(z3.And(*guard), body) if guard else body)
                            if len(lemmas) >= max_new:
                                break
                        if len(lemmas) >= max_new:
                            break
        return lemmas

    def smt2(self, goal):
        s = z3.Solver()
        s.add(*self.p.pc)
        s.add(z3.Not(goal))
        return s.to_smt2()

    def extract_model(self, m):
        out = {}
        for name, term in self.model_vars.items():
            try:
                v = m.eval(term, model_completion=True)
                out[name] = self.py_of_term(v)
            except Exception as e:  # pragma: no cover
                out[name] = f'?{e}'
        return out

    @staticmethod
    def py_of_term(v):
        if z3.is_int_value(v):
            return v.as_long()
        if z3.is_true(v):
            return True
        if z3.is_false(v):
            return False
        if z3.is_string_value(v):
            return v.as_string()
        if z3.is_rational_value(v):
            return float(v.as_fraction())
        return str(v)

    def watch(self, name, term):
        self.model_vars[name] = term

    # ------------------------------------------------------------- lifting
    def lift(self, py) -> SV:
        if isinstance(py, SV):
            return py
        if py is None:
            return NONEV
        if isinstance(py, bool):
            return SV(BOOL, z3.BoolVal(py))
        if isinstance(py, int):
            return SV(INT, z3.IntVal(py))
        if isinstance(py, str):
            return SV(STR, z3.StringVal(py))
        if isinstance(py, float):
            import fractions
            if py != py or py in (float('inf'), float('-inf')):
                return const(py)
            return SV(FLOAT, z3.RealVal(str(fractions.Fraction(py))))
        if isinstance(py, tuple):
            return self.make_tuple([self.lift(x) for x in py])
        return const(py)

    def sym(self, name, kind: Kind, watch=True) -> SV:
        """Fresh symbolic value of a kind (a parameter or unknown result)."""
        if kind == NONE:
            return NONEV
        if kind == CONST:
            raise Unsupported('symbolic const')
        if kind.name == 'pytuple':
            raise Unsupported('symbolic pytuple')
        t = z3.Const(self.p.fresh_name(name), sort_of(kind))
        v = SV(kind, t)
        self.wf_value(v)
        if kind.is_list:
            self.list_len(v)
        return v

    # ------------------------------------------------------------- truthiness
    def truthy(self, v: SV):
        """z3 Bool for bool(v) (may fork / call __bool__)."""
        k = v.kind
        if k == BOOL:
            return v.t
        if k == INT:
            return v.t != 0
        if k == FLOAT:
            return v.t != 0
        if k == STR:
            return z3.Length(v.t) > 0
        if k == NONE:
            return z3.BoolVal(False)
        if k == CONST:
            return z3.BoolVal(bool(v.py))
        if k == PYTUPLE:
            return z3.BoolVal(len(v.py) > 0)
        if k.name == 'opt':
            os_ = sort_of(k)
            inner = SV(k.args[0], os_.val(v.t))
            if self.term_mode or self.simple_truthy(k.args[0]):
                return z3.And(os_.is_some(v.t), self.truthy(inner))
            if self.p.choose(os_.is_none(v.t)):
                return z3.BoolVal(False)
            return self.truthy(self.wf_value(inner))
        if k.is_list:
            return self.list_len(v) > 0
        if k.is_set:
            mem = self.set_mem(v)
            x = z3.Const(self.p.fresh_name('w'), sort_of(k.elem))
            # non-empty  <=>  exists member : introduce emptiness predicate
            e = z3.Bool(self.p.fresh_name('nonempty'))
            y = z3.Const('y!ne', sort_of(k.elem))
            self.p.assume(z3.Implies(e, z3.Select(mem, x)))
            self.p.assume(z3.Implies(z3.Not(e), z3.ForAll([y], z3.Not(z3.Select(mem, y)))))
            return e
        if k.is_dict:
            has = self.dict_has(v)
            x = z3.Const(self.p.fresh_name('w'), sort_of(k.key))
            e = z3.Bool(self.p.fresh_name('nonempty'))
            y = z3.Const('y!ne', sort_of(k.key))
            self.p.assume(z3.Implies(e, z3.Select(has, x)))
            self.p.assume(z3.Implies(z3.Not(e), z3.ForAll([y], z3.Not(z3.Select(has, y)))))
            return e
        if k.is_obj:
            cls = self.reg.real_class(k.name)
            if cls is not None:
                for meth in ('__bool__', '__len__'):
                    f = self.static_lookup(cls, meth)
                    if f is not None:
                        r = self.call_function(f, [v], {}, owner=cls)
                        return self.truthy(r) if meth == '__bool__' else (self.as_int(r) != 0)
            return z3.BoolVal(True)
        if k == ANY:
            raise Unsupported('truthiness of any')
        raise Unsupported(f'truthiness of {k}')

    def simple_truthy(self, k):
        if k in (BOOL, INT, STR, FLOAT):
            return True
        if k.is_obj:
            cls = self.reg.real_class(k.name)
            return cls is None or (self.static_lookup(cls, '__bool__') is None
                                   and self.static_lookup(cls, '__len__') is None)
        return False

    def static_lookup(self, cls, name):
        for c in cls.__mro__:
            if c is object:
                continue
            if name in c.__dict__:
                return c.__dict__[name]
        return None

    def force(self, v: SV) -> SV:
        """Resolve opt[...] to none or the payload (forks in code mode)."""
        if v.kind.name != 'opt':
            return v
        os_ = sort_of(v.kind)
        if self.term_mode:
            return self.wf_value(SV(v.kind.args[0], os_.val(v.t)))
        if self.p.choose(os_.is_none(v.t)):
            return NONEV
        return self.wf_value(SV(v.kind.args[0], os_.val(v.t)))

    def as_int(self, v):
        if v.kind == INT:
            return v.t
        if v.kind == BOOL:
            return z3.If(v.t, 1, 0)
        raise Unsupported(f'expected int, got {v.kind}')

    # ------------------------------------------------------------- exceptions
    def raise_(self, cls, msg=''):
        raise PyRaise(cls, None, msg)
