"""Symbolic executor for a subset of Python, over the real source of /repo."""
from __future__ import annotations

import ast
import builtins as _builtins
import importlib
import inspect
import re as _re
import sys
import types
import z3

from .kinds import (Kind, INT, BOOL, STR, FLOAT, NONE, ANY, CONST, PYTUPLE, sort_of,
                    sort_name, parse_kind, opt)
from .core import (SV, NONEV, const, PathCtx, Infeasible, Unsupported, PyRaise,
                   ReturnEx, BreakEx, ContinueEx, Obligation, PathLimit)
from .heapmodel import HeapMixin
from .exprs import ExprMixin
from .stmts import StmtMixin
from .calls import CallMixin
from .builtins_model import BuiltinMixin
from .source import SourceIndex

I = z3.IntSort()


class Frame:
    def __init__(self, func, globs, locs, qualname='?', contract=None, cls=None):
        self.func = func
        self.globals = globs
        self.locals = locs
        self.qualname = qualname
        self.contract = contract
        self.cls = cls            # real class in which the function is defined (for super())
        self.loop_ordinal = 0
        self.call_ordinals = {}


class BoundSym:
    """A method bound to a symbolic receiver."""

    def __init__(self, selfv, func, cls=None):
        self.selfv = selfv
        self.func = func
        self.cls = cls


class Closure:
    def __init__(self, node, frame):
        self.node = node
        self.frame = frame


class Engine(HeapMixin, ExprMixin, StmtMixin, CallMixin, BuiltinMixin):
    def __init__(self, reg, timeout_ms=10000, feas_timeout_ms=2000, max_depth=6):
        self.reg = reg
        self.src = SourceIndex()
        self.timeout_ms = timeout_ms
        self.feas_timeout_ms = feas_timeout_ms
        self.max_depth = max_depth
        self._class_ids = {}
        self.p: PathCtx = None
        self.frames = []
        self.term_mode = 0
        self.obligations = []
        self.notes = {'inlined': set(), 'havoc': set(), 'assumed': set(), 'dropped': set()}
        self.current_contract = None
        self.path_id = 0
        self.old = None
        self.cur_line = 0
        self.model_vars = {}

    # ------------------------------------------------------------- frames
    @property
    def frame(self) -> Frame:
        return self.frames[-1]

    # ------------------------------------------------------------- obligations
    def prove(self, name, goal, line=None, quiet=False):
        """Record and discharge obligation  pc => goal ; then assume goal."""
        p = self.p
        if isinstance(goal, bool):
            goal = z3.BoolVal(goal)
        import time
        t0 = time.time()
        g = z3.simplify(goal)
        if z3.is_true(g):
            verdict, model = 'proved', None
        else:
            r = p.check(z3.Not(goal), timeout=self.timeout_ms)
            if r == z3.unsat:
                verdict, model = 'proved', None
            elif r == z3.sat:
                # confirm with the exact (nonlinear) facts behind the PYMUL abstraction
                p.solver.push()
                p.solver.add(z3.Not(goal))
                for f in p.__dict__.get('exact_facts', []):
                    p.solver.add(f)
                p.solver.set('timeout', self.timeout_ms)
                r2 = p.solver.check()
                if r2 == z3.sat:
                    verdict = 'refuted'
                    model = self.extract_model(p.solver.model())
                elif r2 == z3.unsat:
                    verdict, model = 'proved', None
                else:
                    verdict, model = 'unknown', None
                p.solver.pop()
                p.solver.set('timeout', self.feas_timeout_ms)
            else:
                verdict, model = 'unknown', None
        dt = time.time() - t0
        ob = Obligation(name, verdict, dt, model, self.path_id, line or self.cur_line)
        if verdict == 'unknown':
            ob.detail = self.smt2(goal)
        self.obligations.append(ob)
        p.assume(goal)
        return verdict

    def smt2(self, goal):
        s = z3.Solver()
        s.add(*self.p.pc)
        s.add(z3.Not(goal))
        return s.to_smt2()

    def extract_model(self, m):
        out = {}
        for name, term in self.model_vars.items():
            try:
                v = m.eval(term, model_completion=True)
                out[name] = self.py_of_term(v)
            except Exception as e:  # pragma: no cover
                out[name] = f'?{e}'
        return out

    @staticmethod
    def py_of_term(v):
        if z3.is_int_value(v):
            return v.as_long()
        if z3.is_true(v):
            return True
        if z3.is_false(v):
            return False
        if z3.is_string_value(v):
            return v.as_string()
        if z3.is_rational_value(v):
            return float(v.as_fraction())
        return str(v)

    def watch(self, name, term):
        self.model_vars[name] = term

    # ------------------------------------------------------------- lifting
    def lift(self, py) -> SV:
        if isinstance(py, SV):
            return py
        if py is None:
            return NONEV
        if isinstance(py, bool):
            return SV(BOOL, z3.BoolVal(py))
        if isinstance(py, int):
            return SV(INT, z3.IntVal(py))
        if isinstance(py, str):
            return SV(STR, z3.StringVal(py))
        if isinstance(py, float):
            import fractions
            if py != py or py in (float('inf'), float('-inf')):
                return const(py)
            return SV(FLOAT, z3.RealVal(str(fractions.Fraction(py))))
        if isinstance(py, tuple):
            return self.make_tuple([self.lift(x) for x in py])
        return const(py)

    def sym(self, name, kind: Kind, watch=True) -> SV:
        """Fresh symbolic value of a kind (a parameter or unknown result)."""
        if kind == NONE:
            return NONEV
        if kind == CONST:
            raise Unsupported('symbolic const')
        if kind.name == 'pytuple':
            raise Unsupported('symbolic pytuple')
        t = z3.Const(self.p.fresh_name(name), sort_of(kind))
        v = SV(kind, t)
        self.wf_value(v)
        if kind.is_list:
            self.list_len(v)
        return v

    # ------------------------------------------------------------- truthiness
    def truthy(self, v: SV):
        """z3 Bool for bool(v) (may fork / call __bool__)."""
        k = v.kind
        if k == BOOL:
            return v.t
        if k == INT:
            return v.t != 0
        if k == FLOAT:
            return v.t != 0
        if k == STR:
            return z3.Length(v.t) > 0
        if k == NONE:
            return z3.BoolVal(False)
        if k == CONST:
            return z3.BoolVal(bool(v.py))
        if k == PYTUPLE:
            return z3.BoolVal(len(v.py) > 0)
        if k.name == 'opt':
            os_ = sort_of(k)
            inner = SV(k.args[0], os_.val(v.t))
            if self.term_mode or self.simple_truthy(k.args[0]):
                return z3.And(os_.is_some(v.t), self.truthy(inner))
            if self.p.choose(os_.is_none(v.t)):
                return z3.BoolVal(False)
            return self.truthy(self.wf_value(inner))
        if k.is_list:
            return self.list_len(v) > 0
        if k.is_set:
            mem = self.set_mem(v)
            x = z3.Const(self.p.fresh_name('w'), sort_of(k.elem))
            # non-empty  <=>  exists member : introduce emptiness predicate
            e = z3.Bool(self.p.fresh_name('nonempty'))
            y = z3.Const('y!ne', sort_of(k.elem))
            self.p.assume(z3.Implies(e, z3.Select(mem, x)))
            self.p.assume(z3.Implies(z3.Not(e), z3.ForAll([y], z3.Not(z3.Select(mem, y)))))
            return e
        if k.is_dict:
            has = self.dict_has(v)
            x = z3.Const(self.p.fresh_name('w'), sort_of(k.key))
            e = z3.Bool(self.p.fresh_name('nonempty'))
            y = z3.Const('y!ne', sort_of(k.key))
            self.p.assume(z3.Implies(e, z3.Select(has, x)))
            self.p.assume(z3.Implies(z3.Not(e), z3.ForAll([y], z3.Not(z3.Select(has, y)))))
            return e
        if k.is_obj:
            cls = self.reg.real_class(k.name)
            if cls is not None:
                for meth in ('__bool__', '__len__'):
                    f = self.static_lookup(cls, meth)
                    if f is not None:
                        r = self.call_function(f, [v], {}, owner=cls)
                        return self.truthy(r) if meth == '__bool__' else (self.as_int(r) != 0)
            return z3.BoolVal(True)
        if k == ANY:
            raise Unsupported('truthiness of any')
        raise Unsupported(f'truthiness of {k}')

    def simple_truthy(self, k):
        if k in (BOOL, INT, STR, FLOAT):
            return True
        if k.is_obj:
            cls = self.reg.real_class(k.name)
            return cls is None or (self.static_lookup(cls, '__bool__') is None
                                   and self.static_lookup(cls, '__len__') is None)
        return False

    def static_lookup(self, cls, name):
        for c in cls.__mro__:
            if c is object:
                continue
            if name in c.__dict__:
                return c.__dict__[name]
        return None

    def force(self, v: SV) -> SV:
        """Resolve opt[...] to none or the payload (forks in code mode)."""
        if v.kind.name != 'opt':
            return v
        os_ = sort_of(v.kind)
        if self.term_mode:
            return self.wf_value(SV(v.kind.args[0], os_.val(v.t)))
        if self.p.choose(os_.is_none(v.t)):
            return NONEV
        return self.wf_value(SV(v.kind.args[0], os_.val(v.t)))

    def as_int(self, v):
        if v.kind == INT:
            return v.t
        if v.kind == BOOL:
            return z3.If(v.t, 1, 0)
        raise Unsupported(f'expected int, got {v.kind}')

    # ------------------------------------------------------------- exceptions
    def raise_(self, cls, msg=''):
        raise PyRaise(cls, None, msg)
