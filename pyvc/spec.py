"""Contract language: data classes, registry, and the *native* twins of the
spec built-ins (used when a contract clause is evaluated on concrete values
during a replay).

Clauses are Python expression strings.  The very same string is
 * executed symbolically by pyvc.engine (term mode) to build SMT terms, and
 * ``eval``-ed natively on the real objects for replays / differential runs.
"""
from __future__ import annotations

import importlib
import itertools
from dataclasses import dataclass, field
from typing import Any, Callable, Dict, List, Optional


@dataclass
class LoopSpec:
    invariant: List[str] = field(default_factory=list)
    modifies: List[str] = field(default_factory=list)
    # names of locals that the loop body assigns but that the invariant
    # fully determines need no listing: all assigned locals are havocked.
    decreases: Optional[str] = None


@dataclass
class Contract:
    target: str                      # 'pkg.mod:Class.method'
    sorts: Dict[str, str] = field(default_factory=dict)
    requires: List[str] = field(default_factory=list)
    ensures: Dict[str, str] = field(default_factory=dict)
    raises: Dict[str, str] = field(default_factory=dict)   # Exc -> iff-condition (pre-state)
    may_raise: List[str] = field(default_factory=list)      # unconstrained exceptions
    modifies: List[str] = field(default_factory=list)
    fresh: bool = False              # result is a newly allocated object
    loops: Dict[int, LoopSpec] = field(default_factory=dict)
    assumed: bool = False            # used at call sites, not verified against a body
    pure: bool = False               # no heap effect, result is a function of the arguments/heap
    props: List[str] = field(default_factory=list)
    note: str = ''
    concretise: Optional[Callable] = None   # model dict -> replay case
    inline_ok: List[str] = field(default_factory=list)     # callees that may be inlined
    max_paths: int = 4000
    ghost: Dict[str, str] = field(default_factory=dict)
    module: Any = None               # contract module (namespace for spec functions)
    lemmas: List[str] = field(default_factory=list)
    allow_unsupported: bool = False
    domain: List[str] = field(default_factory=list)        # sub-domain on which the code meets `ensures`
    returns_when: List[str] = field(default_factory=list)  # pre-state conditions under which it must not raise
    ghost_vars: Dict[str, str] = field(default_factory=dict)   # ghost local -> kind
    ghost_init: List[str] = field(default_factory=list)        # ghost statements run at entry
    ghost_after: Dict[str, str] = field(default_factory=dict)  # source text of a statement -> ghost code
    watch: List[str] = field(default_factory=list)         # spec expressions shown in counter-models
    tier: str = 'quick'              # 'thorough': verified only by the thorough command (slow)
    verify_only: bool = False        # never used at call sites
    options: Dict[str, Any] = field(default_factory=dict)   # engine options for this function
    vname: str = ''
    trusted_ensures: Dict[str, str] = field(default_factory=dict)  # assumed at call sites, checked natively only
    callsite: Dict[str, List[str]] = field(default_factory=dict)   # callee name -> assertions before each call of it

    @property
    def modname(self):
        return self.target.split(':')[0]

    @property
    def qualname(self):
        return self.target.split(':')[1]

    variant = None

    @property
    def short(self):
        return self.qualname if self.variant is None else f'{self.qualname}#{self.variant}'


@dataclass
class ClassSchema:
    name: str                        # kind name
    path: str                        # 'pkg.mod:Class'
    fields: Dict[str, str] = field(default_factory=dict)
    invariant: List[str] = field(default_factory=list)
    bases: List[str] = field(default_factory=list)  # schema names whose fields are inherited


class Registry:
    def __init__(self):
        self.contracts: Dict[str, Contract] = {}
        self.by_target: Dict[str, List[Contract]] = {}
        self.schemas: Dict[str, ClassSchema] = {}
        self.specs: Dict[str, Callable] = {}
        self.lemmas: List[Any] = []
        self.externals: Dict[Any, Any] = {}
        self.symbolic_globals: Dict[str, str] = {}   # 'module:attr' -> kind (mutable settings)
        self.tuple_classes: Dict[str, type] = {}     # tuple kind text -> NamedTuple class (methods)
        self.field_invs: Dict[Any, Any] = {}          # (schema, attr) -> (schema, clause over v, holder)

    def field_invariant(self, cls, attr):
        if not self.field_invs:
            return None
        seen, todo = set(), [cls]
        while todo:
            c = todo.pop(0)
            if c in seen or c not in self.schemas:
                continue
            seen.add(c)
            if (c, attr) in self.field_invs:
                return self.field_invs[(c, attr)]
            todo.extend(self.schemas[c].bases)
        return None

    def contract(self, target, **kw):
        import inspect
        frm = inspect.stack()[1]
        mod = inspect.getmodule(frm[0])
        loops = {k: (v if isinstance(v, LoopSpec) else LoopSpec(**v))
                 for k, v in kw.pop('loops', {}).items()}
        ens = kw.pop('ensures', {})
        if isinstance(ens, (list, tuple)):
            ens = {str(i): e for i, e in enumerate(ens)}
        variant = kw.pop('variant', None)
        c = Contract(target=target, loops=loops, ensures=ens, module=mod, **kw)
        c.variant = variant
        key = target if variant is None else f'{target}#{variant}'
        if key in self.contracts:
            old = self.contracts[key]
            if not old.assumed and c.assumed and not c.ensures and not c.requires and not c.modifies:
                return old       # a frame-only assumption never replaces a contract that is verified
            if old.assumed and c.assumed and not c.ensures and not c.requires and not c.modifies:
                # a frame-only assumption stated by several property files: merge
                old.props = sorted(set(old.props) | set(c.props))
                return old
            if old.assumed and not old.ensures and not old.requires and not old.modifies:
                # a real (or stronger assumed) contract supersedes a frame-only assumption
                if c.assumed:
                    c.props = sorted(set(old.props) | set(c.props))
                self.by_target[target] = [x for x in self.by_target[target] if x is not old]
            else:
                raise ValueError(f'duplicate contract {key}')
        self.contracts[key] = c
        self.by_target.setdefault(target, []).append(c)
        return c

    def schema(self, name, path, fields=None, invariant=(), bases=(), key_view=None, eq_view=None,
               field_inv=None):
        s = ClassSchema(name, path, dict(fields or {}), list(invariant), list(bases))
        s.key_view = key_view      # field that carries hash/equality when used as a dict key
        s.eq_view = eq_view        # spec function giving the value compared by __eq__
        if field_inv:
            # attr -> clause over `v`: a type invariant of the attribute, assumed whenever the
            # attribute is read and proved at every write in a function under verification
            import inspect
            mod = inspect.getmodule(inspect.stack()[1][0])
            holder = Contract(target=(path.split(':')[0] + ':' + name), module=mod)
            for a, cl in field_inv.items():
                self.field_invs[(name, a)] = (name, cl, holder)
        if name in self.schemas:
            # later declarations extend earlier ones (shared schemas grow per property)
            old = self.schemas[name]
            for a, k in list(s.fields.items()):
                # the more specific declaration wins whatever the module order: a later module that only
                # needs the field as an opaque value (`any`) must not re-model it for every earlier contract
                if k == 'any' and a in old.fields and old.fields[a] != 'any':
                    del s.fields[a]
            old.fields.update(s.fields)
            old.key_view = old.key_view or key_view
            old.eq_view = old.eq_view or eq_view
            return old
        self.schemas[name] = s
        return s

    def field_kind(self, cls, attr):
        if cls == 'ReMatch' and attr.startswith('g_'):
            return 'opt[str]'
        seen = set()
        todo = [cls]
        while todo:
            c = todo.pop(0)
            if c in seen or c not in self.schemas:
                continue
            seen.add(c)
            s = self.schemas[c]
            if attr in s.fields:
                return s.fields[attr]
            todo.extend(s.bases)
        return None

    def real_class(self, name):
        s = self.schemas.get(name)
        if s is None or not s.path:
            return None
        mod, qn = s.path.split(':')
        obj = importlib.import_module(mod)
        for part in qn.split('.'):
            obj = getattr(obj, part)
        return obj

    def schema_for_class(self, cls):
        for s in self.schemas.values():
            if ':' not in (s.path or ''):
                continue         # a record / structural schema without a real class
            mod, qn = s.path.split(':')
            if cls.__module__ == mod and cls.__qualname__ == qn:
                return s.name
        return None


REG = Registry()
contract = REG.contract
schema = REG.schema


def _lazy_native(f):
    """Native twin of a spec function in which implies(a, b) short-circuits
    (b may be undefined when a is false).  None if the body has no implies()."""
    import ast
    import inspect
    import textwrap
    try:
        src = textwrap.dedent(inspect.getsource(f))
    except (OSError, TypeError):
        return None
    if 'implies(' not in src:
        return None
    tree = ast.parse(src)

    class T(ast.NodeTransformer):
        def visit_Call(self, node):
            node = self.generic_visit(node)
            if isinstance(node.func, ast.Name) and node.func.id == 'implies' and len(node.args) == 2:
                return ast.BoolOp(op=ast.Or(), values=[
                    ast.UnaryOp(op=ast.Not(), operand=node.args[0]), node.args[1]])
            return node
    fd = tree.body[0]
    fd.decorator_list = []
    tree = ast.fix_missing_locations(T().visit(tree))
    ns = {}
    exec(compile(tree, inspect.getsourcefile(f) or '<spec>', 'exec'), f.__globals__, ns)
    return ns[f.__name__]


def spec(fn=None, native=None):
    """Mark a Python function as a spec function (pure, total, expression-like).

    Natively it is just the function (or the given `native` twin, when the
    symbolic definition speaks about the heap model rather than Python objects);
    symbolically its body is inlined in term mode."""
    def deco(f):
        if native is None:
            lazy = _lazy_native(f)
            if lazy is None:
                f.__pyvc_spec__ = True
                REG.specs[f.__name__] = f
                return f
            return spec(f, native=lazy)
        def twin(*a, **k):
            return native(*a, **k)
        twin.__pyvc_spec__ = True
        twin.__wrapped_spec__ = f      # the symbolic definition
        twin.__name__ = f.__name__
        REG.specs[f.__name__] = twin
        return twin
    return deco(fn) if fn is not None else deco


def uninterp(sorts, result):
    """Spec function that is *uninterpreted* in SMT (a ghost function of its
    arguments) and has an executable native twin (the decorated body)."""
    def deco(fn):
        fn.__pyvc_uninterp__ = (tuple(sorts), result)
        REG.specs[fn.__name__] = fn
        return fn
    return deco


# ---------------------------------------------------------------- native twins
WINDOW = [12]


def implies(a, b):
    return (not a) or bool(b)


def iff(a, b):
    return bool(a) == bool(b)


class _NativeQuant:
    """forall/exists evaluated natively over a finite window of integers that
    is centred on the integers seen in the replayed input."""
    centre = [0]
    strings = ['', 'zz']

    @classmethod
    def domain(cls):
        pts = set()
        for c in cls.centre:
            pts.update(range(c - WINDOW[0], c + WINDOW[0] + 1))
        return sorted(pts)


def _domains(fn, kinds):
    names = fn.__code__.co_varnames[:fn.__code__.co_argcount]
    return [(_NativeQuant.strings if kinds.get(n) == 'str' else _NativeQuant.domain()) for n in names]


def forall(fn, *a, **k):
    return all(fn(*xs) for xs in itertools.product(*_domains(fn, k)))


def exists(fn, *a, **k):
    return any(fn(*xs) for xs in itertools.product(*_domains(fn, k)))


def set_native_strings(strs):
    _NativeQuant.strings = sorted(set(strs) | {'', 'zz'})[:14]


def set_native_window(ints, width=12):
    ints = [i for i in ints if isinstance(i, int) and abs(i) < 10 ** 6]
    _NativeQuant.centre = sorted(set(ints)) or [0]
    WINDOW[0] = width


def int_text(s):
    try:
        int(s)
        return True
    except (TypeError, ValueError):
        return False


def sumover(s, c):
    return sum(c[m] for m in s)


NATIVE_BUILTINS = dict(int_text=int_text, sumover=sumover,implies=implies, iff=iff, forall=forall, exists=exists)
