"""Native (CPython) evaluation of contracts on the real functions: used to
replay solver counterexamples and for the CPython differential."""
from __future__ import annotations

import ast
import copy
import importlib
import traceback

from .spec import NATIVE_BUILTINS, set_native_window
from .source import resolve


class _OldRewriter(ast.NodeTransformer):
    def __init__(self):
        self.olds = []

    def visit_Call(self, node):
        if isinstance(node.func, ast.Name) and node.func.id == 'old' and len(node.args) == 1:
            self.olds.append(node.args[0])
            return ast.Subscript(value=ast.Name(id='__old', ctx=ast.Load()),
                                 slice=ast.Constant(value=len(self.olds) - 1), ctx=ast.Load())
        if isinstance(node.func, ast.Name) and node.func.id == 'oldget' and len(node.args) == 2:
            self.olds.append(node.args[0])
            base = ast.Subscript(value=ast.Name(id='__old', ctx=ast.Load()),
                                 slice=ast.Constant(value=len(self.olds) - 1), ctx=ast.Load())
            return ast.Subscript(value=base, slice=self.visit(node.args[1]), ctx=ast.Load())
        node = self.generic_visit(node)
        if isinstance(node.func, ast.Name) and node.func.id == 'implies' and len(node.args) == 2:
            # short-circuit natively: the consequent may be undefined when the antecedent is false
            return ast.BoolOp(op=ast.Or(), values=[ast.UnaryOp(op=ast.Not(), operand=node.args[0]),
                                                   node.args[1]])
        return node


def _compile(expr):
    return compile(ast.fix_missing_locations(ast.Expression(body=expr)), '<clause>', 'eval')


def split_old(src):
    tree = ast.parse(src.strip(), mode='eval').body
    rw = _OldRewriter()
    new = rw.visit(tree)
    return _compile(new), [_compile(o) for o in rw.olds]


def namespace(contract):
    ns = {}
    try:
        ns.update(vars(importlib.import_module(contract.modname)))
    except Exception:
        pass
    if contract.module is not None:
        ns.update(vars(contract.module))
    ns.update(NATIVE_BUILTINS)
    return ns


def collect_ints(x, out, depth=0):
    if depth > 4:
        return
    if isinstance(x, bool):
        return
    if isinstance(x, int):
        out.append(x)
    elif isinstance(x, str):
        try:
            out.append(int(x.replace('P', '')))
        except ValueError:
            pass
    elif isinstance(x, (list, tuple, set, frozenset)):
        for y in x:
            collect_ints(y, out, depth + 1)
    elif isinstance(x, dict):
        for k, v in x.items():
            collect_ints(k, out, depth + 1)
            collect_ints(v, out, depth + 1)
    elif hasattr(x, '__slots__') or hasattr(x, '__dict__'):
        names = list(getattr(x, '__slots__', ())) if not isinstance(getattr(x, '__slots__', ()), str) \
            else [x.__slots__]
        names += list(getattr(x, '__dict__', {}))
        for n in names:
            try:
                collect_ints(getattr(x, n), out, depth + 1)
            except Exception:
                pass


def collect_strs(x, out, depth=0, seen=None):
    seen = seen if seen is not None else set()
    if depth > 5 or id(x) in seen or len(out) > 200:
        return
    seen.add(id(x))
    if isinstance(x, str):
        out.append(x)
    elif isinstance(x, (list, tuple, set, frozenset)):
        for y in list(x)[:20]:
            collect_strs(y, out, depth + 1, seen)
    elif isinstance(x, dict):
        for k, v in list(x.items())[:20]:
            collect_strs(k, out, depth + 1, seen)
            collect_strs(v, out, depth + 1, seen)
    elif type(x).__module__.startswith(('cylc.', 'contracts.')) or hasattr(x, '__slots__'):
        names = getattr(x, '__slots__', ())
        names = [names] if isinstance(names, str) else list(names)
        names += list(getattr(x, '__dict__', {}))
        for n in names[:40]:
            try:
                collect_strs(getattr(x, n), out, depth + 1, seen)
            except Exception:
                pass


def native_check(contract, args, kwargs=None, only=None, window=12, with_domain=True):
    """Run the real function on concrete arguments and evaluate the contract.

    Returns dict(status=..., failed=[clause names], detail=str).
    status: 'ok' | 'violated' | 'pre-false' | 'error'
    """
    kwargs = kwargs or {}
    import inspect
    mod, owner, raw, func = resolve(contract.target)
    ns = namespace(contract)
    sig = inspect.signature(func)
    call_args = list(args)
    if isinstance(raw, classmethod):
        ba = sig.bind(owner, *call_args, **kwargs)
    else:
        ba = sig.bind(*call_args, **kwargs)
    ba.apply_defaults()
    env = dict(ba.arguments)
    ints = []
    collect_ints(list(env.values()), ints)
    set_native_window(ints, window)
    strs = []
    collect_strs(list(env.values()), strs)
    from .spec import set_native_strings
    set_native_strings(strs)
    loc = dict(env)
    try:
        for rq in contract.requires + (contract.domain if with_domain else []):
            code, olds = split_old(rq)
            if not eval(code, dict(ns, **loc, __old=[])):
                return dict(status='pre-false', failed=[rq], detail='')
    except Exception as ex:
        return dict(status='pre-false', failed=['<requires raised>'], detail=repr(ex))
    # pre-state values of old(...) sub-expressions and of raises conditions
    compiled = {}
    for name, en in contract.ensures.items():
        if contract.ghost_vars and any(isinstance(x, ast.Name) and x.id in contract.ghost_vars
                                       for x in ast.walk(ast.parse(en.strip(), mode='eval'))):
            continue    # clause about ghost state: not observable natively
        code, olds = split_old(en)
        vals = []
        unobservable = False
        for o in olds:
            try:
                vals.append(copy.deepcopy(eval(o, dict(ns, **loc))))
            except NameError:
                # old(...) of an expression over a quantified variable: a two-state clause that the
                # native evaluator cannot observe (it is decided symbolically only)
                unobservable = True
                break
            except Exception as ex:
                vals.append(ex)
        if unobservable:
            continue
        compiled[name] = (code, vals)
    raise_conds = {}
    for exc, cond in contract.raises.items():
        try:
            raise_conds[exc] = bool(eval(split_old(cond)[0], dict(ns, **loc, __old=[])))
        except Exception as ex:
            raise_conds[exc] = ex
    must_return = False
    if contract.returns_when:
        try:
            must_return = all(bool(eval(split_old(w)[0], dict(ns, **loc, __old=[])))
                              for w in contract.returns_when)
        except Exception:
            must_return = False
    failed = []
    detail = []
    try:
        if isinstance(raw, classmethod):
            result = func(owner, *call_args, **kwargs)
        else:
            result = func(*call_args, **kwargs)
        raised = None
    except Exception as ex:
        raised = ex
        result = None
    if isinstance(raised, RecursionError):
        # non-termination: the contracts are partial-correctness statements
        return dict(status='diverged', failed=[], detail=repr(raised), result=None, raised=repr(raised))
    if raised is not None and must_return:
        failed.append(f'returns-normally-when-supported[{type(raised).__name__}]')
        detail.append(f'raised {raised!r} although every returns_when condition holds')
    if raised is not None:
        declared = None
        for exc in contract.raises:
            cls = ns.get(exc) or getattr(__import__('builtins'), exc, None)
            if cls is None:
                import cylc.flow.exceptions as ce
                cls = getattr(ce, exc, None)
            if cls is not None and isinstance(raised, cls):
                declared = exc
        if declared is not None:
            if raise_conds[declared] is not True:
                failed.append(f'raises[{declared}](only when)')
                detail.append(f'raised {raised!r} although the condition is {raise_conds[declared]!r}')
        elif any(type(raised).__name__ == x or any(b.__name__ == x for b in type(raised).__mro__)
                 for x in contract.may_raise):
            pass
        else:
            failed.append(f'no-unexpected-exception[{type(raised).__name__}]')
            detail.append(f'raised {raised!r}')
    else:
        for exc, cv in raise_conds.items():
            if cv is True:
                failed.append(f'raises[{exc}](not raised)')
                detail.append(f'returned {result!r} although {contract.raises[exc]!r} holds')
        loc2 = dict(loc)
        loc2['result'] = result
        for name, (code, vals) in compiled.items():
            if only is not None and name not in only:
                continue
            try:
                ok = bool(eval(code, dict(ns, **loc2, __old=vals)))
            except Exception as ex:
                ok = False
                detail.append(f'ensures[{name}] raised {ex!r}')
            if not ok:
                failed.append(f'ensures[{name}]')
        if failed:
            detail.append(f'result={result!r}')
    return dict(status='violated' if failed else 'ok', failed=failed, detail='; '.join(detail),
                result=repr(result), raised=repr(raised) if raised is not None else None)
