"""Kinds (static value descriptors) and their SMT sorts.

Every symbolic value in the executor is a pair (kind, z3 term).  A kind is the
statically known Python-level shape of the value on the current path; where
Python is dynamically typed the executor splits paths until a concrete kind is
known (e.g. ``opt[T]`` is forced to ``none`` or ``T`` by a fork).
"""
from __future__ import annotations

import re
import z3

PRIMS = {'int', 'bool', 'str', 'float', 'none', 'any'}
CONTAINERS = {'opt', 'list', 'set', 'dict', 'tuple', 'deque', 'counter',
              'frozenset', 'defaultdict'}


class Kind:
    __slots__ = ('name', 'args')

    def __init__(self, name, args=()):
        self.name = name
        self.args = tuple(args)

    def __eq__(self, o):
        return isinstance(o, Kind) and self.name == o.name and self.args == o.args

    def __hash__(self):
        return hash((self.name, self.args))

    def __repr__(self):
        if self.args:
            return f"{self.name}[{','.join(map(repr, self.args))}]"
        return self.name

    # classification -------------------------------------------------
    @property
    def is_obj(self):
        return self.name not in PRIMS and self.name not in CONTAINERS \
            and self.name not in ('const', 'pytuple', 'emptylist', 'emptydict', 'emptyset')

    @property
    def is_list(self):
        return self.name in ('list', 'deque')

    @property
    def is_set(self):
        return self.name in ('set', 'frozenset')

    @property
    def is_dict(self):
        return self.name in ('dict', 'counter', 'defaultdict')

    @property
    def is_ref(self):
        return self.is_obj or self.is_list or self.is_set or self.is_dict

    @property
    def elem(self):
        return self.args[0]

    @property
    def key(self):
        return self.args[0]

    @property
    def val(self):
        if self.name == 'counter':
            return INT
        return self.args[1]


INT = Kind('int')
BOOL = Kind('bool')
STR = Kind('str')
FLOAT = Kind('float')
NONE = Kind('none')
ANY = Kind('any')
CONST = Kind('const')
PYTUPLE = Kind('pytuple')


def opt(k):
    if k.name == 'opt' or k.name == 'none':
        return k
    return Kind('opt', (k,))


_tok = re.compile(r'\s*([A-Za-z_][A-Za-z_0-9.]*|\[|\]|,)')


def parse_kind(s) -> Kind:
    if isinstance(s, Kind):
        return s
    toks = _tok.findall(s)
    if ''.join(toks) != re.sub(r'\s+', '', s):
        raise ValueError(f'bad kind {s!r}')
    pos = [0]

    def p():
        name = toks[pos[0]]
        pos[0] += 1
        args = []
        if pos[0] < len(toks) and toks[pos[0]] == '[':
            pos[0] += 1
            while True:
                args.append(p())
                if toks[pos[0]] == ',':
                    pos[0] += 1
                    continue
                if toks[pos[0]] == ']':
                    pos[0] += 1
                    break
                raise ValueError(f'bad kind {s!r}')
        if name == 'opt':
            return opt(args[0])
        return Kind(name, args)
    k = p()
    if pos[0] != len(toks):
        raise ValueError(f'bad kind {s!r}')
    return k


# ---------------------------------------------------------------- sorts
_opt_sorts = {}
_tuple_sorts = {}
AnySort = z3.DeclareSort('PyAny')


def sort_name(s):
    return re.sub(r'[^A-Za-z0-9]+', '_', str(s)).strip('_')


def opt_sort(s):
    key = str(s)
    if key not in _opt_sorts:
        n = sort_name(s)
        d = z3.Datatype('Opt_' + n)
        d.declare('none_' + n)
        d.declare('some_' + n, ('val_' + n, s))
        srt = d.create()
        # short aliases (constructor names must be unique across sorts in SMT-LIB text)
        srt.none = getattr(srt, 'none_' + n)
        srt.some = getattr(srt, 'some_' + n)
        srt.val = getattr(srt, 'val_' + n)
        srt.is_none = getattr(srt, 'is_none_' + n)
        srt.is_some = getattr(srt, 'is_some_' + n)
        _opt_sorts[key] = srt
    return _opt_sorts[key]


def tuple_sort(sorts):
    key = tuple(str(s) for s in sorts)
    if key not in _tuple_sorts:
        name = 'Tup_' + '_'.join(sort_name(s) for s in sorts)
        ts, mk, accs = z3.TupleSort(name, list(sorts))
        _tuple_sorts[key] = (ts, mk, accs)
    return _tuple_sorts[key]


def sort_of(k: Kind):
    n = k.name
    if n == 'int':
        return z3.IntSort()
    if n == 'bool':
        return z3.BoolSort()
    if n == 'str':
        return z3.StringSort()
    if n == 'float':
        return z3.RealSort()
    if n == 'none':
        return z3.BoolSort()
    if n == 'any':
        return AnySort
    if n == 'opt':
        return opt_sort(sort_of(k.args[0]))
    if n == 'tuple':
        return tuple_sort([sort_of(a) for a in k.args])[0]
    if n == 'const':
        raise TypeError('const kind has no sort')
    return z3.IntSort()  # references
