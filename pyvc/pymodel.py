"""Axiomatised pieces of Python's str/int/regex semantics (trusted base).

All functions here are *uninterpreted* in SMT; the facts about them are
instantiated at term-construction time (never as quantified axioms):

  A-STRINT-1  int(str(n)) == n and str(n) is integer text          (pystr_int)
  A-STRINT-2  str(n) is canonical: matches 0|-?[1-9][0-9]*, and has a '-' iff n<0
  A-STRINT-3  int("-" + str(m)) == -m and is integer text, for m >= 0;
              int("+" + str(m)) == m likewise
  A-REPL-1    s.replace(c, r) for a single character c distributes over
              concatenation; it is the identity on str(n) when c is not one of
              "-0123456789"; on literals it is computed.
  A-STRFLOAT  str(x) for a float x is never integer text (it contains '.',
              'e', 'inf' or 'nan').
  A-REGEX     the subset translator below (literals, classes, \\d, ?, +, *,
              |, groups, ^ at the start, $ at the end) agrees with Python re.
"""
from __future__ import annotations

import re as _re
import sre_parse
import sre_constants as sc
import z3

S = z3.StringSort()
I = z3.IntSort()
pystr_int = z3.Function('pystr_int', I, S)
pyint_str = z3.Function('pyint_str', S, I)
is_int_text = z3.Function('is_int_text', S, z3.BoolSort())
pystr_float = z3.Function('pystr_float', z3.RealSort(), S)
pyreplace = z3.Function('pyreplace', S, S, S, S)
pystrip = z3.Function('pystrip', S, S)
pyhash_str = z3.Function('pyhash_str', S, I)
pystr_any = z3.Function('pystr_any', I, S)     # str(<object ref>) – opaque

DIG = z3.Range('0', '9')
CANON_INT = z3.Union(z3.Re('0'),
                     z3.Concat(z3.Option(z3.Re('-')), z3.Range('1', '9'), z3.Star(DIG)))
NONNEG_CANON = z3.Union(z3.Re('0'), z3.Concat(z3.Range('1', '9'), z3.Star(DIG)))


def is_app_of(t, f):
    return z3.is_app(t) and t.decl().eq(f)


def str_of_int(p, n):
    """Term for str(n) plus its instantiated facts (added to path ctx p)."""
    n = z3.simplify(n)
    if z3.is_int_value(n):
        return z3.StringVal(str(n.as_long()))
    t = pystr_int(n)
    key = ('strint', t.get_id())
    p.__dict__.setdefault('_keep', []).append(t)
    if key not in p.__dict__.setdefault('_facts', set()):
        p._facts.add(key)
        p.assume(is_int_text(t))
        p.assume(pyint_str(t) == n)
        p.assume(z3.InRe(t, CANON_INT))
        p.assume((n >= 0) == z3.InRe(t, NONNEG_CANON))
    return t


def concat_parts(t):
    if z3.is_app(t) and t.decl().kind() == z3.Z3_OP_SEQ_CONCAT:
        out = []
        for a in t.children():
            out.extend(concat_parts(a))
        return out
    return [t]


def resolve_str(p, s, depth=0):
    """Simplify and unfold string constants that the path condition defines."""
    s = z3.simplify(s)
    if depth > 6:
        return s
    defs = getattr(p, 'str_defs', {})
    if z3.is_const(s) and s.decl().kind() == z3.Z3_OP_UNINTERPRETED and str(s) in defs:
        return resolve_str(p, defs[str(s)], depth + 1)
    if z3.is_app(s) and s.decl().kind() == z3.Z3_OP_SEQ_CONCAT:
        return z3.Concat(*[resolve_str(p, a, depth + 1) for a in s.children()])
    return s


def int_of_str(p, s):
    """(is_valid: z3 Bool, value: z3 Int) for int(s)."""
    s = resolve_str(p, s)
    s0 = s
    if z3.is_string_value(s):
        txt = s.as_string()
        try:
            return z3.BoolVal(True), z3.IntVal(int(txt))
        except ValueError:
            return z3.BoolVal(False), z3.IntVal(0)
    if is_app_of(s, pystr_int):
        return z3.BoolVal(True), s.arg(0)
    parts = concat_parts(s)
    if len(parts) == 2 and z3.is_string_value(parts[0]) and is_app_of(parts[1], pystr_int):
        sign = parts[0].as_string()
        m = parts[1].arg(0)
        if sign == '-':
            return m >= 0, -m
        if sign == '+':
            return m >= 0, m
        if sign == '':
            return z3.BoolVal(True), m
    return is_int_text(s0), pyint_str(s0)


INTCHARS = set('-0123456789')


def str_replace(p, s, old, new):
    s, old, new = resolve_str(p, s), z3.simplify(old), z3.simplify(new)
    if z3.is_string_value(old) and z3.is_string_value(new):
        o, n = old.as_string(), new.as_string()
        if z3.is_string_value(s):
            return z3.StringVal(s.as_string().replace(o, n))
        if len(o) == 1:
            parts = concat_parts(s)
            if len(parts) > 1:
                outs = [str_replace(p, a, old, new) for a in parts]
                return z3.Concat(*outs)
            if is_app_of(s, pystr_int) and o not in INTCHARS:
                return s
    return pyreplace(s, old, new)


def str_of_float(p, x):
    t = pystr_float(x)
    p.assume(z3.Not(is_int_text(t)))
    # str(float) always contains one of . e n (inf/nan): it is never [-]digits[\n]
    p.assume(z3.Not(z3.InRe(t, z3.Concat(z3.Option(z3.Re('-')), z3.Plus(DIG),
                                         z3.Option(z3.Re('\n'))))))
    return t


# ---------------------------------------------------------------- regex subset
class RegexUnsupported(Exception):
    pass


def _cat(xs):
    xs = list(xs)
    if not xs:
        return z3.Re('')
    if len(xs) == 1:
        return xs[0]
    return z3.Concat(*xs)


def _class_item(op, av):
    if op == sc.LITERAL:
        return z3.Re(chr(av))
    if op == sc.RANGE:
        return z3.Range(chr(av[0]), chr(av[1]))
    if op == sc.CATEGORY:
        if av == sc.CATEGORY_DIGIT:
            return DIG
        if av == sc.CATEGORY_SPACE:
            return z3.Union(z3.Re(' '), z3.Re('\t'), z3.Re('\n'), z3.Re('\r'),
                            z3.Re('\x0b'), z3.Re('\x0c'))
        if av == sc.CATEGORY_WORD:
            return z3.Union(DIG, z3.Range('a', 'z'), z3.Range('A', 'Z'), z3.Re('_'))
    raise RegexUnsupported(str((op, av)))


ANYCHAR = z3.AllChar(z3.ReSort(S))


def _tr(items):
    out = []
    for op, av in items:
        if op == sc.LITERAL:
            out.append(z3.Re(chr(av)))
        elif op == sc.NOT_LITERAL:
            out.append(z3.Intersect(ANYCHAR, z3.Complement(z3.Re(chr(av)))))
        elif op == sc.ANY:
            out.append(z3.Intersect(ANYCHAR, z3.Complement(z3.Re('\n'))))
        elif op == sc.IN:
            neg = False
            alts = []
            for o2, a2 in av:
                if o2 == sc.NEGATE:
                    neg = True
                else:
                    alts.append(_class_item(o2, a2))
            u = alts[0] if len(alts) == 1 else z3.Union(*alts)
            if neg:
                u = z3.Intersect(ANYCHAR, z3.Complement(u))
            out.append(u)
        elif op in (sc.MAX_REPEAT, sc.MIN_REPEAT):
            lo, hi, sub = av
            r = _cat(_tr(sub))
            if hi == sc.MAXREPEAT:
                if lo == 0:
                    out.append(z3.Star(r))
                elif lo == 1:
                    out.append(z3.Plus(r))
                else:
                    out.append(z3.Concat(*([r] * lo + [z3.Star(r)])))
            else:
                out.append(z3.Loop(r, lo, hi))
        elif op == sc.SUBPATTERN:
            out.append(_cat(_tr(av[3])))
        elif op == sc.BRANCH:
            out.append(z3.Union(*[_cat(_tr(b)) for b in av[1]]))
        elif op == sc.CATEGORY:
            out.append(_class_item(op, av))
        else:
            raise RegexUnsupported(str(op))
    return out


_cache = {}


def regex_to_z3(pattern: str, flags=0, mode='search'):
    """z3 regex R such that InRe(s, R) <=> re.<mode>(pattern, s) is not None."""
    key = (pattern, flags, mode)
    if key in _cache:
        return _cache[key]
    if flags & ~(_re.UNICODE):
        raise RegexUnsupported('flags')
    items = list(sre_parse.parse(pattern))
    start = end = False
    if items and items[0] == (sc.AT, sc.AT_BEGINNING):
        start = True
        items = items[1:]
    if items and items[-1] == (sc.AT, sc.AT_END):
        end = True
        items = items[:-1]
    body = _cat(_tr(items))
    allre = z3.Full(z3.ReSort(S))
    if end:
        # Python's $ also matches before a trailing newline
        body = z3.Concat(body, z3.Option(z3.Re('\n')))
    pre = post = False
    if mode == 'search':
        pre, post = not start, not end
    elif mode == 'match':
        pre, post = False, not end
    elif mode == 'fullmatch':
        if end:
            raise RegexUnsupported('$ in fullmatch')
        pre = post = False
    r = body
    if pre:
        r = z3.Concat(allre, r)
    if post:
        r = z3.Concat(r, allre)
    _cache[key] = r
    return r
