"""Ownership census: a syntactic scan of the real source showing that a set of
attributes is written only by a given set of functions (the functions that are
under contract).  This is what protects a class invariant against writers
outside the class (DESIGN 2.8)."""
from __future__ import annotations

import ast
import os

MUTATORS = {'append', 'appendleft', 'add', 'update', 'pop', 'popleft', 'remove', 'clear', 'extend',
            'setdefault', 'discard', 'insert', 'sort', 'reverse', 'popitem', '__setitem__',
            '__delitem__', 'difference_update', 'intersection_update'}


def _root_attr(node):
    """attribute name at the root of a chain of subscripts: x.attr[..][..] -> attr"""
    while isinstance(node, ast.Subscript):
        node = node.value
    if isinstance(node, ast.Attribute):
        return node.attr
    return None


def repo_root():
    import cylc.flow
    return os.path.dirname(os.path.dirname(os.path.dirname(cylc.flow.__file__)))


def scan(attrs, allowed, subdir='cylc/flow', skip_dirs=('tests',)):
    """Return list of (file, line, function, what) for writes outside `allowed`.

    allowed: set of 'file.py:Qual.name' (file relative to cylc/flow) or just 'Qual.name'."""
    root = os.path.join(repo_root(), subdir)
    out = []
    nfiles = 0
    for dp, dns, fns in os.walk(root):
        dns[:] = [d for d in dns if d not in skip_dirs]
        for fn in fns:
            if not fn.endswith('.py'):
                continue
            path = os.path.join(dp, fn)
            rel = os.path.relpath(path, root)
            try:
                tree = ast.parse(open(path).read(), path)
            except SyntaxError as ex:
                out.append((rel, 0, '?', f'syntax error: {ex}'))
                continue
            nfiles += 1

            def visit(node, qual):
                for ch in ast.iter_child_nodes(node):
                    q = qual
                    if isinstance(ch, (ast.FunctionDef, ast.AsyncFunctionDef, ast.ClassDef)):
                        q = (qual + '.' if qual else '') + ch.name
                    what = None
                    if isinstance(ch, (ast.Assign, ast.AugAssign, ast.AnnAssign, ast.Delete)):
                        tg = ch.targets if isinstance(ch, (ast.Assign, ast.Delete)) else [ch.target]
                        flat = []
                        for t in tg:
                            flat.extend(t.elts if isinstance(t, (ast.Tuple, ast.List)) else [t])
                        for t in flat:
                            a = _root_attr(t)
                            if a in attrs:
                                what = f'{type(ch).__name__} of .{a}'
                    elif isinstance(ch, ast.Call) and isinstance(ch.func, ast.Attribute) \
                            and ch.func.attr in MUTATORS:
                        a = _root_attr(ch.func.value)
                        if a in attrs:
                            what = f'.{a}.{ch.func.attr}(...)'
                    if what is not None:
                        fq = qual if not isinstance(ch, (ast.FunctionDef, ast.ClassDef)) else q
                        if not (fq in allowed or f'{rel}:{fq}' in allowed):
                            out.append((rel, ch.lineno, fq, what))
                    visit(ch, q)
            visit(tree, '')
    return out, nfiles


def census_obligation(name, attrs, allowed):
    bad, nfiles = scan(set(attrs), set(allowed))
    if bad:
        return dict(name=name, kind='census', verdict='refuted', backend='scan',
                    detail=f'{len(bad)} write(s) outside the functions under contract',
                    witness=[dict(file=f, line=l, function=q, what=w) for f, l, q, w in bad[:20]])
    return dict(name=name, kind='census', verdict='proved', backend='scan',
                detail=f'{nfiles} files scanned; {sorted(attrs)} written only in {sorted(allowed)}')
