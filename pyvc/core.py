"""Path context: decisions, path condition, heap, allocation, obligations."""
from __future__ import annotations

import time
import z3

from .kinds import Kind, INT, BOOL, STR, FLOAT, NONE, ANY, CONST, sort_of, opt_sort, tuple_sort, opt


class Infeasible(Exception):
    pass


class Unsupported(Exception):
    pass


class PathLimit(Exception):
    pass


class SpecAbort(Exception):
    """A speculative branch (if-merging) cannot be completed without forking."""


class PyRaise(Exception):
    """A Python exception propagating through symbolically executed code."""

    def __init__(self, cls, value=None, msg=''):
        self.cls = cls
        self.value = value
        self.msg = msg

    def __str__(self):
        return f'PyRaise({self.cls.__name__}: {self.msg})'


class ReturnEx(Exception):
    def __init__(self, value):
        self.value = value


class BreakEx(Exception):
    pass


class ContinueEx(Exception):
    pass


class SV:
    """Symbolic value: (kind, z3 term) or, for kind const, a real Python object."""
    __slots__ = ('kind', 't', 'py')

    def __init__(self, kind, t=None, py=None):
        self.kind = kind
        self.t = t
        self.py = py

    def __repr__(self):
        if self.kind == CONST:
            return f'<const {self.py!r}>'
        return f'<{self.kind} {self.t}>'


NONEV = SV(NONE, z3.BoolVal(True))


def const(py):
    return SV(CONST, None, py)


class Obligation:
    __slots__ = ('name', 'verdict', 'time', 'model', 'path', 'line', 'backend', 'detail', 'reason')

    def __init__(self, name, verdict, t, model, path, line, backend='z3', detail=''):
        self.reason = ''
        self.name = name
        self.verdict = verdict     # 'proved' | 'refuted' | 'unknown'
        self.time = t
        self.model = model
        self.path = path
        self.line = line
        self.backend = backend
        self.detail = detail


_QCACHE = {}


def has_quantifier(t):
    """Does the formula contain a quantifier? (memoised on the AST id; iterative walk)"""
    tid = t.get_id()
    r = _QCACHE.get(tid)
    if r is not None and r[0].eq(t):
        return r[1]
    seen = set()
    todo = [t]
    found = False
    while todo:
        x = todo.pop()
        xid = x.get_id()
        if xid in seen:
            continue
        seen.add(xid)
        if z3.is_quantifier(x):
            if not x.is_lambda():
                found = True
                break
            todo.append(x.body())     # an array lambda (pointwise frame): not a quantified fact
            continue
        if z3.is_app(x):
            todo.extend(x.children())
    if len(_QCACHE) > 50000:
        _QCACHE.clear()
    _QCACHE[tid] = (t, found)     # the term is kept alive, so its id cannot be reused
    return found


class PathCtx:
    """State of one symbolic execution path (rebuilt from scratch per path)."""

    def __init__(self, prefix, timeout_ms=10000, feas_timeout_ms=2000):
        self.decisions = list(prefix)
        self.pos = 0
        self.solver = z3.Solver()
        self.solver.set('timeout', feas_timeout_ms)
        self.qf = z3.Solver()     # quantifier-free facts only: branch feasibility
        self.qf.set('timeout', feas_timeout_ms)
        self.qf_ver = 0
        self.feas_cache = {}
        self.timeout_ms = timeout_ms
        self.feas_timeout_ms = feas_timeout_ms
        self.pc = []
        self.heap = {}            # key -> z3 array term
        self.heap_sorts = {}      # key -> (domain..., range) description
        self.bounds = {}          # base-array const name -> z3 Int bound on refs stored in it
        self.next0 = z3.Int('next0')
        self.next = self.next0
        self.nfresh = 0
        self.counter = 0
        self.str_defs = {}        # string constant -> defining term (from assumed equalities)
        self.fact_ids = set()     # ids of asserted facts (and of their top-level conjuncts)
        self.guards = []          # guards of the speculative branches being executed
        self.speculating = 0
        self.alts = []            # alternative prefixes discovered on this path
        self.tainted = False      # an obligation on this path was not discharged (its goal was assumed)
        self.local_fresh = {}     # containers allocated on this path: str(ref) -> ref
        self.escaped = set()      # str(ref) of references that were stored or passed on
        self.trace = []
        self.assume(self.next0 >= 1)

    # naming ------------------------------------------------------------
    def fresh_name(self, base):
        self.counter += 1
        return f'{base}!{self.counter}'

    def fresh(self, base, sort):
        return z3.Const(self.fresh_name(base), sort)

    # path condition ------------------------------------------------------
    def assume(self, c):
        if isinstance(c, bool):
            c = z3.BoolVal(c)
        if z3.is_true(c):
            return
        if self.guards:
            c = z3.Implies(z3.And(*self.guards) if len(self.guards) > 1 else self.guards[0], c)
            cid = c.get_id()
            if cid in self.fact_ids:
                return
            self.fact_ids.add(cid)
            self.pc.append(c)
            self.solver.add(c)
            if not has_quantifier(c):
                self.qf.add(c)
                self.qf_ver += 1
            return
        if z3.is_eq(c) and c.arg(0).sort() == z3.StringSort():
            a, b = z3.simplify(c.arg(0)), z3.simplify(c.arg(1))
            for x, t in ((a, b), (b, a)):
                if z3.is_const(x) and x.decl().kind() == z3.Z3_OP_UNINTERPRETED \
                        and not (z3.is_const(t) and t.decl().kind() == z3.Z3_OP_UNINTERPRETED
                                 and str(t) in self.str_defs):
                    self.str_defs.setdefault(str(x), t)
                    break
        cid = c.get_id()
        if cid in self.fact_ids:
            return
        self.fact_ids.add(cid)
        if z3.is_and(c):
            for ch in c.children():
                self.fact_ids.add(ch.get_id())
        self.pc.append(c)
        self.solver.add(c)
        if not has_quantifier(c):
            self.qf.add(c)
            self.qf_ver += 1

    def feasible(self, cond):
        """May `cond` hold on this path?  Asked of the quantifier-free part of the path condition
        only (an over-approximation: a path that only the quantified facts rule out is explored
        anyway, and every obligation on it is still checked against the full path condition)."""
        key = (self.qf_ver, cond.get_id())
        hit = self.feas_cache.get(key)
        if hit is not None and hit[0].eq(cond):
            return hit[1]
        r = self.qf.check(cond)          # as an assumption: the solver state stays incremental
        ans = r != z3.unsat
        self.feas_cache[key] = (cond, ans)
        return ans

    def check(self, extra=None, timeout=None):
        s = self.solver
        if timeout is not None:
            s.set('timeout', timeout)
        try:
            if extra is None:
                r = s.check()
            else:
                s.push()
                s.add(extra)
                r = s.check()
                s.pop()
        finally:
            if timeout is not None:
                s.set('timeout', self.feas_timeout_ms)
        return r

    def choose(self, cond):
        """Fork on a z3 Bool; returns the Python bool chosen on this path."""
        if isinstance(cond, bool):
            return cond
        cond = z3.simplify(cond)
        if z3.is_true(cond):
            return True
        if z3.is_false(cond):
            return False
        if self.speculating:
            # inside a speculative (to-be-merged) branch: no forking, no decision recorded
            g = z3.And(*self.guards) if self.guards else z3.BoolVal(True)
            can_t = self.feasible(z3.And(g, cond))
            can_f = self.feasible(z3.And(g, z3.Not(cond)))
            if can_t and can_f:
                raise SpecAbort()
            if not can_t and not can_f:
                raise SpecAbort()
            self.assume(cond if can_t else z3.Not(cond))
            return can_t
        if self.pos < len(self.decisions):
            d = self.decisions[self.pos]
            if d == 'M':
                raise Unsupported('decision replay out of step (merge marker at a fork)')
        else:
            can_t = self.feasible(cond)
            can_f = self.feasible(z3.Not(cond))
            if can_t and can_f:
                d = True
                self.alts.append(self.decisions[:self.pos] + [False])
            elif can_t:
                d = True
            elif can_f:
                d = False
            else:
                raise Infeasible()
            self.decisions.append(d)
        self.pos += 1
        self.assume(cond if d else z3.Not(cond))
        return d

    def choose_n(self, n):
        """Non-deterministic choice of an index in range(n) (binary forks)."""
        for i in range(n - 1):
            b = self.fresh('nd', z3.BoolSort())
            if self.choose(b):
                return i
        return n - 1

    # heap ----------------------------------------------------------------
    def heap_get(self, key, sort_fn):
        if key not in self.heap:
            srt = sort_fn()
            arr = z3.Const('H0_' + key, srt)
            self.heap[key] = arr
            self.bounds[str(arr)] = self.next0
        return self.heap[key]

    def heap_snapshot(self):
        return dict(self.heap)

    def alloc(self):
        r = self.next
        self.next = self.next + 1
        self.nfresh += 1
        return z3.simplify(r)

    def bump_next(self):
        """After a call that may allocate: next becomes an unknown larger value."""
        n = self.fresh('next', z3.IntSort())
        self.assume(n >= self.next)
        self.next = n
