"""Path context: decisions, path condition, heap, allocation, obligations."""
from __future__ import annotations

import time
import z3

from .kinds import Kind, INT, BOOL, STR, FLOAT, NONE, ANY, CONST, sort_of, opt_sort, tuple_sort, opt


class Infeasible(Exception):
    pass


class Unsupported(Exception):
    pass


class PathLimit(Exception):
    pass


class SpecAbort(Exception):
    """A speculative branch (if-merging) cannot be completed without forking."""


class PyRaise(Exception):
    """A Python exception propagating through symbolically executed code."""

    def __init__(self, cls, value=None, msg=''):
        self.cls = cls
        self.value = value
        self.msg = msg

    def __str__(self):
        return f'PyRaise({self.cls.__name__}: {self.msg})'


class ReturnEx(Exception):
    def __init__(self, value):
        self.value = value


class BreakEx(Exception):
    pass


class ContinueEx(Exception):
    pass


class SV:
    """Symbolic value: (kind, z3 term) or, for kind const, a real Python object."""
    __slots__ = ('kind', 't', 'py')

    def __init__(self, kind, t=None, py=None):
        self.kind = kind
        self.t = t
        self.py = py

    def __repr__(self):
        if self.kind == CONST:
            return f'<const {self.py!r}>'
        return f'<{self.kind} {self.t}>'


NONEV = SV(NONE, z3.BoolVal(True))


def const(py):
    return SV(CONST, None, py)


class Obligation:
    __slots__ = ('name', 'verdict', 'time', 'model', 'path', 'line', 'backend', 'detail')

    def __init__(self, name, verdict, t, model, path, line, backend='z3', detail=''):
        self.name = name
        self.verdict = verdict     # 'proved' | 'refuted' | 'unknown'
        self.time = t
        self.model = model
        self.path = path
        self.line = line
        self.backend = backend
        self.detail = detail


class PathCtx:
    """State of one symbolic execution path (rebuilt from scratch per path)."""

    def __init__(self, prefix, timeout_ms=10000, feas_timeout_ms=2000):
        self.decisions = list(prefix)
        self.pos = 0
        self.solver = z3.Solver()
        self.solver.set('timeout', feas_timeout_ms)
        self.timeout_ms = timeout_ms
        self.feas_timeout_ms = feas_timeout_ms
        self.pc = []
        self.heap = {}            # key -> z3 array term
        self.heap_sorts = {}      # key -> (domain..., range) description
        self.bounds = {}          # base-array const name -> z3 Int bound on refs stored in it
        self.next0 = z3.Int('next0')
        self.next = self.next0
        self.nfresh = 0
        self.counter = 0
        self.str_defs = {}        # string constant -> defining term (from assumed equalities)
        self.fact_ids = set()     # ids of asserted facts (and of their top-level conjuncts)
        self.guards = []          # guards of the speculative branches being executed
        self.speculating = 0
        self.alts = []            # alternative prefixes discovered on this path
        self.trace = []
        self.assume(self.next0 >= 1)

    # naming ------------------------------------------------------------
    def fresh_name(self, base):
        self.counter += 1
        return f'{base}!{self.counter}'

    def fresh(self, base, sort):
        return z3.Const(self.fresh_name(base), sort)

    # path condition ------------------------------------------------------
    def assume(self, c):
        if isinstance(c, bool):
            c = z3.BoolVal(c)
        if z3.is_true(c):
            return
        if self.guards:
            c = z3.Implies(z3.And(*self.guards) if len(self.guards) > 1 else self.guards[0], c)
            cid = c.get_id()
            if cid in self.fact_ids:
                return
            self.fact_ids.add(cid)
            self.pc.append(c)
            self.solver.add(c)
            return
        if z3.is_eq(c) and c.arg(0).sort() == z3.StringSort():
            a, b = z3.simplify(c.arg(0)), z3.simplify(c.arg(1))
            for x, t in ((a, b), (b, a)):
                if z3.is_const(x) and x.decl().kind() == z3.Z3_OP_UNINTERPRETED \
                        and not (z3.is_const(t) and t.decl().kind() == z3.Z3_OP_UNINTERPRETED
                                 and str(t) in self.str_defs):
                    self.str_defs.setdefault(str(x), t)
                    break
        cid = c.get_id()
        if cid in self.fact_ids:
            return
        self.fact_ids.add(cid)
        if z3.is_and(c):
            for ch in c.children():
                self.fact_ids.add(ch.get_id())
        self.pc.append(c)
        self.solver.add(c)

    def check(self, extra=None, timeout=None):
        s = self.solver
        if timeout is not None:
            s.set('timeout', timeout)
        try:
            if extra is None:
                r = s.check()
            else:
                s.push()
                s.add(extra)
                r = s.check()
                s.pop()
        finally:
            if timeout is not None:
                s.set('timeout', self.feas_timeout_ms)
        return r

    def choose(self, cond):
        """Fork on a z3 Bool; returns the Python bool chosen on this path."""
        if isinstance(cond, bool):
            return cond
        cond = z3.simplify(cond)
        if z3.is_true(cond):
            return True
        if z3.is_false(cond):
            return False
        if self.speculating:
            # inside a speculative (to-be-merged) branch: no forking, no decision recorded
            g = z3.And(*self.guards) if self.guards else z3.BoolVal(True)
            can_t = self.check(z3.And(g, cond)) != z3.unsat
            can_f = self.check(z3.And(g, z3.Not(cond))) != z3.unsat
            if can_t and can_f:
                raise SpecAbort()
            if not can_t and not can_f:
                raise SpecAbort()
            self.assume(cond if can_t else z3.Not(cond))
            return can_t
        if self.pos < len(self.decisions):
            d = self.decisions[self.pos]
            if d == 'M':
                raise Unsupported('decision replay out of step (merge marker at a fork)')
        else:
            can_t = self.check(cond) != z3.unsat
            can_f = self.check(z3.Not(cond)) != z3.unsat
            if can_t and can_f:
                d = True
                self.alts.append(self.decisions[:self.pos] + [False])
            elif can_t:
                d = True
            elif can_f:
                d = False
            else:
                raise Infeasible()
            self.decisions.append(d)
        self.pos += 1
        self.assume(cond if d else z3.Not(cond))
        return d

    def choose_n(self, n):
        """Non-deterministic choice of an index in range(n) (binary forks)."""
        for i in range(n - 1):
            b = self.fresh('nd', z3.BoolSort())
            if self.choose(b):
                return i
        return n - 1

    # heap ----------------------------------------------------------------
    def heap_get(self, key, sort_fn):
        if key not in self.heap:
            srt = sort_fn()
            arr = z3.Const('H0_' + key, srt)
            self.heap[key] = arr
            self.bounds[str(arr)] = self.next0
        return self.heap[key]

    def heap_snapshot(self):
        return dict(self.heap)

    def alloc(self):
        r = self.next
        self.next = self.next + 1
        self.nfresh += 1
        return z3.simplify(r)

    def bump_next(self):
        """After a call that may allocate: next becomes an unknown larger value."""
        n = self.fresh('next', z3.IntSort())
        self.assume(n >= self.next)
        self.next = n
