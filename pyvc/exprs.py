"""Expression evaluation (mixin for Engine)."""
from __future__ import annotations

import ast
import builtins as _builtins
import inspect
import types
import z3

from .kinds import (Kind, INT, BOOL, STR, FLOAT, NONE, ANY, CONST, PYTUPLE, sort_of,
                    parse_kind, opt)
from .core import SV, NONEV, const, Unsupported, PyRaise, Infeasible
from . import pymodel as pm

I = z3.IntSort()
PYDIV = z3.Function('pydiv', I, I, I)
PYMOD = z3.Function('pymod', I, I, I)
PYMUL = z3.Function('pymul', I, I, I)


class OpaqueLiteral:
    """A literal whose items have different kinds; carried as a constant, never inspected."""

    def __init__(self, items):
        self.items = items

    def __repr__(self):
        return f'<opaque literal of {len(self.items)} items>'


def lin_decompose(t):
    """(c0, {atom_id: (coef, atom)}) with t == c0 + sum coef*atom, or None."""
    out = {}
    c0 = [0]

    def go(t, k):
        if z3.is_int_value(t):
            c0[0] += k * t.as_long()
            return True
        if z3.is_app(t):
            kind = t.decl().kind()
            if kind == z3.Z3_OP_ADD:
                return all(go(c, k) for c in t.children())
            if kind == z3.Z3_OP_SUB:
                ch = t.children()
                return go(ch[0], k) and all(go(c, -k) for c in ch[1:])
            if kind == z3.Z3_OP_UMINUS:
                return go(t.arg(0), -k)
            if kind == z3.Z3_OP_MUL:
                ch = t.children()
                nums = [c for c in ch if z3.is_int_value(c)]
                rest = [c for c in ch if not z3.is_int_value(c)]
                if len(rest) == 1:
                    kk = k
                    for n in nums:
                        kk *= n.as_long()
                    return go(rest[0], kk)
                if not rest:
                    v = k
                    for n in nums:
                        v *= n.as_long()
                    c0[0] += v
                    return True
        cur = out.get(t.get_id())
        out[t.get_id()] = ((cur[0] if cur else 0) + k, t)
        return True
    if not go(t, 1):
        return None
    return c0[0], {i: ca for i, ca in out.items() if ca[0] != 0}


def _mul_facts(b, d):
    """Linear instances of facts about the product b*d (true of multiplication)."""
    m = PYMUL(b, d)
    return [
        z3.Implies(d == 0, m == 0),
        z3.Implies(d == 1, m == b),
        z3.Implies(d == -1, m == -b),
        z3.Implies(z3.And(b > 0, d >= 1), m >= b),
        z3.Implies(z3.And(b > 0, d <= -1), m <= -b),
        z3.Implies(z3.And(b < 0, d >= 1), m <= b),
        z3.Implies(z3.And(b < 0, d <= -1), m >= -b),
        z3.Implies(b == 0, m == 0),
    ]


def _mentions(a, b, vars_):
    names = {str(v) for v in vars_}
    if not names:
        return False
    todo = [a, b]
    seen = set()
    while todo:
        t = todo.pop()
        if t.get_id() in seen:
            continue
        seen.add(t.get_id())
        if z3.is_const(t) and str(t) in names:
            return True
        todo.extend(t.children())
    return False


class ExprMixin:
    binders = ()
    polarity = 0

    def eval(self, e) -> SV:
        m = getattr(self, 'e_' + type(e).__name__, None)
        if m is None:
            raise Unsupported(f'expression {type(e).__name__} (line {getattr(e, "lineno", "?")})')
        if hasattr(e, 'lineno'):
            self.cur_line = e.lineno
        return m(e)

    # ------------------------------------------------------------ atoms
    def e_Constant(self, e):
        if e.value is Ellipsis:
            return const(Ellipsis)
        return self.lift(e.value)

    def e_Name(self, e):
        return self.lookup(e.id)

    def lookup(self, name):
        fr = self.frame
        if name in fr.locals:
            v = fr.locals[name]
            if v is None:
                raise Unsupported(f'unbound local {name}')
            return v
        if name in self.spec_names:
            return const(self.spec_names[name])
        f = fr.func
        if f is not None and getattr(f, '__closure__', None) and name in f.__code__.co_freevars:
            # free variable of a closure: the real cell content
            cell = f.__closure__[f.__code__.co_freevars.index(name)]
            try:
                return self.lift(cell.cell_contents)
            except ValueError:
                raise Unsupported(f'empty closure cell {name}')
        if name in fr.globals:
            return self.lift(fr.globals[name])
        if hasattr(_builtins, name):
            return const(getattr(_builtins, name))
        raise Unsupported(f'unknown name {name}')

    def e_Tuple(self, e):
        items = []
        for x in e.elts:
            if isinstance(x, ast.Starred):
                items.extend(self.tuple_items(self.eval(x.value)))
            else:
                items.append(self.eval(x))
        return self.make_tuple(items)

    def e_List(self, e):
        items = [self.eval(x) for x in e.elts]
        if not items:
            return SV(Kind('emptylist'), None, [])
        ek = self.join_kinds([i.kind for i in items])
        return self.new_list(ek, items)

    def e_Set(self, e):
        items = [self.eval(x) for x in e.elts]
        ek = self.join_kinds([i.kind for i in items])
        return self.new_set(ek, items)

    def e_Dict(self, e):
        if not e.keys:
            return SV(Kind('emptydict'), None, {})
        if any(k is None for k in e.keys):
            raise Unsupported('dict unpacking in literal')
        ks = [self.eval(k) for k in e.keys]
        vs = [self.eval(v) for v in e.values]
        try:
            kk, vk = self.join_kinds([k.kind for k in ks]), self.join_kinds([v.kind for v in vs])
        except Unsupported:
            if self.term_mode:
                raise
            # a record literal with values of different types ({"run_status": 0, "time": t}): an
            # opaque value that can only be handed to a callee whose contract does not look at it
            return const(OpaqueLiteral(list(zip(ks, vs))))
        return self.new_dict(kk, vk, list(zip(ks, vs)))

    def join_kinds(self, kinds):
        ks = set(kinds)
        if len(ks) == 1:
            return kinds[0]
        if NONE in ks:
            rest = ks - {NONE}
            if len(rest) == 1:
                return opt(next(iter(rest)))
        if ks <= {INT, BOOL}:
            return INT
        inner = {k.args[0] if k.name == 'opt' else k for k in ks if k != NONE}
        if len(inner) == 1:
            return opt(next(iter(inner)))
        raise Unsupported(f'heterogeneous element kinds {ks}')

    def materialise(self, v: SV, kind: Kind) -> SV:
        """Turn an empty-literal placeholder into a heap object of the wanted kind."""
        if v.kind.name == 'emptylist':
            return self.new_list(kind.elem) if kind.is_list else self._bad(v, kind)
        if v.kind.name == 'emptyset':
            return self.new_set(kind.elem) if kind.is_set else self._bad(v, kind)
        if v.kind.name == 'emptydict':
            if kind.is_dict:
                return self.new_dict(kind.key, kind.val, name=kind.name)
            return self._bad(v, kind)
        return v

    def _bad(self, v, kind):
        raise Unsupported(f'cannot materialise {v.kind} as {kind}')

    # ------------------------------------------------------------ attribute
    def e_Attribute(self, e):
        base = self.eval(e.value)
        return self.getattr(base, e.attr)

    def getattr(self, base: SV, attr: str) -> SV:
        base = self.force(base)
        k = base.kind
        if k == CONST:
            py = base.py
            from .engine import BoundSym
            if isinstance(py, BoundSym):
                raise Unsupported('attribute of bound method')
            if isinstance(py, types.ModuleType):
                sg = self.reg.symbolic_globals.get(f'{py.__name__}:{attr}')
                if sg is not None:
                    # a mutable module-level setting: any value of its kind
                    kk = parse_kind(sg)
                    return self.wf_value(SV(kk, z3.Const(f'G_{py.__name__}.{attr}', sort_of(kk))))
            import logging as _logging
            if isinstance(py, _logging.Logger) and attr == 'level':
                # the configured log level is a run-time setting: any integer
                return SV(INT, z3.Const(f'G_{py.name}.level', z3.IntSort()))
            try:
                raw = inspect.getattr_static(py, attr) if inspect.isclass(py) else getattr(py, attr)
            except AttributeError:
                raise Unsupported(f'attribute {attr} of {py!r}')
            if inspect.isclass(py):
                if isinstance(raw, (staticmethod,)):
                    return const(raw.__func__)
                if isinstance(raw, classmethod):
                    return const(BoundSym(base, raw.__func__, py))
                raw = getattr(py, attr) if not isinstance(raw, types.FunctionType) else raw
            return self.lift(raw)
        if k == NONE:
            if self.term_mode:
                raise Unsupported(f'None.{attr} in spec')
            self.raise_(AttributeError, f'None.{attr}')
        if k.name in ('ReMatch', 'ReGroupDict', 'PyDateTime'):
            from .engine import BoundSym
            return const(BoundSym(base, ('builtin', attr), None))
        if k.is_obj:
            fk = self.field_kind(k.name, attr)
            if fk is not None:
                return self.read_field(base, attr)
            cls = self.reg.real_class(k.name)
            if attr == '__class__' and cls is not None:
                return const(cls)
            if cls is None:
                raise Unsupported(f'no schema class for {k.name}')
            raw = self.static_lookup(cls, attr)
            if raw is None:
                raise Unsupported(f'{k.name} has no attribute/schema field {attr}')
            from .engine import BoundSym
            if isinstance(raw, types.FunctionType):
                return const(BoundSym(base, raw, cls))
            if isinstance(raw, classmethod):
                return const(BoundSym(const(cls), raw.__func__, cls))
            if isinstance(raw, staticmethod):
                return const(raw.__func__)
            if isinstance(raw, property):
                return self.call_function(raw.fget, [base], {}, owner=cls)
            if hasattr(raw, '__wrapped__') and callable(raw):
                return const(BoundSym(base, raw, cls))
            return self.lift(raw)
        if k.is_list or k.is_set or k.is_dict or k == STR or k.name in ('emptylist', 'emptydict', 'emptyset'):
            from .engine import BoundSym
            return const(BoundSym(base, ('builtin', attr), None))
        if k == PYTUPLE:
            from .engine import BoundSym
            return const(BoundSym(base, ('builtin', attr), None))
        if k.name == 'tuple':
            ncls = self.reg.tuple_classes.get(repr(k))
            if ncls is not None:
                from .engine import BoundSym
                fields = getattr(ncls, '_fields', ())
                if attr in fields:
                    return self.tuple_items(base)[fields.index(attr)]
                raw = ncls.__dict__.get(attr)
                if callable(raw):
                    return const(BoundSym(base, raw, ncls))
            raise Unsupported(f'attribute {attr} of tuple value')
        raise Unsupported(f'attribute {attr} of {k}')

    # ------------------------------------------------------------ boolean
    def e_BoolOp(self, e):
        is_and = isinstance(e.op, ast.And)
        if self.term_mode:
            ts = [self.truthy(self.eval(v)) for v in e.values]
            return SV(BOOL, z3.And(*ts) if is_and else z3.Or(*ts))
        v = None
        for i, sub in enumerate(e.values):
            v = self.eval(sub)
            if i == len(e.values) - 1:
                return v
            t = self.truthy(v)
            d = self.p.choose(t)
            if is_and and not d:
                return v if v.kind != BOOL else SV(BOOL, z3.BoolVal(False))
            if (not is_and) and d:
                if v.kind.name == 'opt':
                    v = self.force(v)      # truthy => not None: hand on the payload
                return v if v.kind != BOOL else SV(BOOL, z3.BoolVal(True))
        return v

    def e_UnaryOp(self, e):
        if isinstance(e.op, ast.Not) and self.term_mode:
            self.polarity = -self.polarity
            try:
                v = self.eval(e.operand)
                return SV(BOOL, z3.Not(self.truthy(v)))
            finally:
                self.polarity = -self.polarity
        v = self.eval(e.operand)
        if isinstance(e.op, ast.Not):
            return SV(BOOL, z3.Not(self.truthy(v)))
        v = self.force(v)
        if isinstance(e.op, ast.USub):
            if v.kind in (INT, BOOL):
                return SV(INT, -self.as_int(v))
            if v.kind == FLOAT:
                return SV(FLOAT, -v.t)
            if v.kind.is_obj:
                return self.call_method(v, '__neg__', [])
        if isinstance(e.op, ast.UAdd) and v.kind in (INT, FLOAT):
            return v
        raise Unsupported(f'unary {type(e.op).__name__} on {v.kind}')

    def e_IfExp(self, e):
        saved = self.polarity
        self.polarity = 0
        try:
            c = self.truthy(self.eval(e.test))
        finally:
            self.polarity = saved
        if self.term_mode:
            a, b = self.eval(e.body), self.eval(e.orelse)
            if a.kind == b.kind and a.kind != CONST:
                return SV(a.kind, z3.If(c, a.t, b.t))
            k = self.join_kinds([a.kind, b.kind])
            return SV(k, z3.If(c, self.coerce(a, k), self.coerce(b, k)))
        if self.p.choose(c):
            return self.eval(e.body)
        return self.eval(e.orelse)

    def e_NamedExpr(self, e):
        v = self.eval(e.value)
        self.frame.locals[e.target.id] = v
        return v

    def e_Lambda(self, e):
        from .engine import Closure
        return const(Closure(e, self.frame))

    # ------------------------------------------------------------ arithmetic
    def e_BinOp(self, e):
        a = self.eval(e.left)
        b = self.eval(e.right)
        return self.binop(type(e.op).__name__, a, b)

    def mul_terms(self, x, y):
        """x*y.  symbolic*symbolic is linearised: the multiplier b is kept, the
        other factor is decomposed into a linear combination of atoms, and only
        PYMUL(b, atom) symbols remain (so distributivity holds by construction)."""
        p = self.p
        xz, yz = z3.simplify(x), z3.simplify(y)
        if z3.is_int_value(xz) or z3.is_int_value(yz):
            return xz * yz
        if self.binders and _mentions(xz, yz, [v for b_ in self.binders for v in b_['vars']]):
            return xz * yz
        mult = p.__dict__.setdefault('multipliers', {})
        # prefer as multiplier an operand that already is one (e.g. the step)
        if yz.get_id() in mult and xz.get_id() not in mult:
            xz, yz = yz, xz
        return self.product(xz, yz)

    def product(self, b, d):
        """Linear expression for b*d over the atoms PYMUL(b, atom)."""
        p = self.p
        dec = lin_decompose(d)
        if dec is None:
            dec = (0, {d.get_id(): (1, d)})
        c0, atoms = dec
        mult = p.__dict__.setdefault('multipliers', {})
        reg = mult.setdefault(b.get_id(), (b, {}))[1]
        expr = c0 * b if c0 else z3.IntVal(0)
        for aid, (coef, atom) in atoms.items():
            if aid not in reg:
                m = PYMUL(b, atom)
                reg[aid] = (atom, m)
                for fact in _mul_facts(b, atom):
                    p.assume(fact)
            expr = expr + coef * reg[aid][1]
        return z3.simplify(expr)

    def divmod_terms(self, a, b):
        """q, r with a == b*q + r and Python's floor semantics."""
        p = self.p
        az, bz = z3.simplify(a), z3.simplify(b)
        if z3.is_int_value(az) and z3.is_int_value(bz) and bz.as_long() != 0:
            q, r = divmod(az.as_long(), bz.as_long())
            return z3.IntVal(q), z3.IntVal(r)
        key = ('divmod', az.get_id(), bz.get_id())
        cache = p.__dict__.setdefault('_divmod', {})
        q, r = PYDIV(az, bz), PYMOD(az, bz)
        numeral = z3.is_int_value(bz)
        under = self.binders and _mentions(az, bz, [v for b_ in self.binders for v in b_['vars']])
        if under:
            # under a quantifier: the (exact) definition travels with the quantified body
            defs = z3.And(az == bz * q + r,
                          z3.Implies(bz > 0, z3.And(0 <= r, r < bz)),
                          z3.Implies(bz < 0, z3.And(bz < r, r <= 0)))
            self.binders[-1]['defs'].append(defs)
            return q, r
        if key in cache:
            return cache[key]
        prod = bz * q if numeral else self.product(bz, q)
        p.assume(z3.And(az == prod + r,
                        z3.Implies(bz > 0, z3.And(0 <= r, r < bz)),
                        z3.Implies(bz < 0, z3.And(bz < r, r <= 0))))
        cache[key] = (q, r)
        return q, r

    def binop(self, op, a: SV, b: SV) -> SV:
        a, b = self.force(a), self.force(b)
        ka, kb = a.kind, b.kind
        num = (INT, BOOL)
        if ka in num and kb in num:
            x, y = self.as_int(a), self.as_int(b)
            if op == 'Add':
                return SV(INT, x + y)
            if op == 'Sub':
                return SV(INT, x - y)
            if op == 'Mult':
                return SV(INT, self.mul_terms(x, y))
            if op in ('Mod', 'FloorDiv'):
                if not self.term_mode and self.p.choose(y == 0):
                    self.raise_(ZeroDivisionError)
                q, r = self.divmod_terms(x, y)
                return SV(INT, r if op == 'Mod' else q)
            if op == 'Div':
                if not self.term_mode and self.p.choose(y == 0):
                    self.raise_(ZeroDivisionError)
                return SV(FLOAT, z3.ToReal(x) / z3.ToReal(y))
            if op == 'Pow':
                yz = z3.simplify(y)
                if z3.is_int_value(yz) and 0 <= yz.as_long() <= 4:
                    r = z3.IntVal(1)
                    for _ in range(yz.as_long()):
                        r = r * x
                    return SV(INT, r)
            raise Unsupported(f'int op {op}')
        if (ka in num or ka == FLOAT) and (kb in num or kb == FLOAT):
            x = a.t if ka == FLOAT else z3.ToReal(self.as_int(a))
            y = b.t if kb == FLOAT else z3.ToReal(self.as_int(b))
            if op == 'Add':
                return SV(FLOAT, x + y)
            if op == 'Sub':
                return SV(FLOAT, x - y)
            if op == 'Mult':
                return SV(FLOAT, x * y)
            if op == 'Div':
                if not self.term_mode and self.p.choose(y == 0):
                    self.raise_(ZeroDivisionError)
                return SV(FLOAT, x / y)
            raise Unsupported(f'float op {op}')
        if ka == STR and kb == STR and op == 'Add':
            return SV(STR, z3.Concat(a.t, b.t))
        if ka == STR and op == 'Mod':
            # %-formatting: only used for messages; opaque string
            return SV(STR, self.p.fresh('fmt', z3.StringSort()))
        if ka == STR and kb in num and op == 'Mult':
            return SV(STR, self.p.fresh('strmul', z3.StringSort()))
        if ka.is_obj:
            name = {'Add': '__add__', 'Sub': '__sub__', 'Mult': '__mul__',
                    'Mod': '__mod__', 'FloorDiv': '__floordiv__', 'Div': '__truediv__',
                    'BitOr': '__or__', 'BitAnd': '__and__'}.get(op)
            if name:
                return self.call_method(a, name, [b])
        if ka.is_list and kb.is_list and op == 'Add':
            return self.list_concat(a, b)
        if ka.is_set and kb.is_set and op in ('BitOr', 'BitAnd', 'Sub'):
            return self.set_binop(op, a, b)
        if ka == PYTUPLE and kb == PYTUPLE and op == 'Add':
            return self.make_tuple(list(a.py) + list(b.py))
        if (ka == NONE or kb == NONE) and not self.term_mode:
            self.raise_(TypeError, f'unsupported operand type(s) for {op}: {ka} and {kb}')
        if ka == CONST and kb == CONST:
            import operator
            fn = {'Add': operator.add, 'Sub': operator.sub, 'Mult': operator.mul,
                  'BitOr': operator.or_, 'BitAnd': operator.and_, 'Mod': operator.mod}.get(op)
            if fn and not any(isinstance(x.py, (types.FunctionType,)) for x in (a, b)):
                return self.lift(fn(a.py, b.py))
        raise Unsupported(f'binop {op} on {ka},{kb}')

    def list_concat(self, a, b):
        ek = a.kind.elem
        na, nb = self.list_len(a), self.list_len(b)
        r = self.new_ref(Kind('list', (ek,)))
        arr = self.p.fresh('cat', z3.ArraySort(I, sort_of(ek)))
        self.p.bounds[str(arr)] = self.p.next
        j = z3.Int('j!cat')
        ea, eb = self.list_elems(a), self.list_elems(b)
        self.p.assume(z3.ForAll([j], z3.Select(arr, j) == z3.If(j < na, z3.Select(ea, j),
                                                                  z3.Select(eb, j - na)),
                                patterns=[z3.Select(arr, j)]))
        self.list_set_content(r, na + nb, arr)
        return r

    def set_binop(self, op, a, b):
        ek = a.kind.elem
        s = sort_of(ek)
        r = self.new_ref(Kind('set', (ek,)))
        ma, mb = self.set_mem(a), self.set_mem(b)
        m = self.p.fresh('setop', z3.ArraySort(s, z3.BoolSort()))
        y = z3.Const('y!so', s)
        body = {'BitOr': z3.Or(z3.Select(ma, y), z3.Select(mb, y)),
                'BitAnd': z3.And(z3.Select(ma, y), z3.Select(mb, y)),
                'Sub': z3.And(z3.Select(ma, y), z3.Not(z3.Select(mb, y)))}[op]
        self.p.assume(z3.ForAll([y], z3.Select(m, y) == body, patterns=[z3.Select(m, y)]))
        self.set_store(r, m)
        return r

    # ------------------------------------------------------------ comparison
    def e_Compare(self, e):
        if self.term_mode and self.polarity:
            saved = self.polarity
            self.polarity = 0
            try:
                return self.e_Compare(e)
            finally:
                self.polarity = saved
        left = self.eval(e.left)
        result = None
        for i, (op, rhs) in enumerate(zip(e.ops, e.comparators)):
            if isinstance(op, (ast.In, ast.NotIn, ast.Eq, ast.NotEq)) \
                    and isinstance(rhs, (ast.List, ast.Tuple, ast.Set)) \
                    and (isinstance(op, (ast.In, ast.NotIn)) or isinstance(rhs, ast.List)) \
                    and not any(isinstance(x, ast.Starred) for x in rhs.elts):
                # membership in a literal: no heap object needed
                right = self.make_tuple([self.eval(x) for x in rhs.elts])
            else:
                right = self.eval(rhs)
            t = self.compare(type(op).__name__, left, right)
            if self.term_mode:
                result = t if result is None else z3.And(result, t)
            else:
                if i < len(e.ops) - 1:
                    if not self.p.choose(t):
                        return SV(BOOL, z3.BoolVal(False))
                else:
                    result = t
            left = right
        return SV(BOOL, result)

    def compare(self, op, a: SV, b: SV):
        """z3 Bool for  a <op> b."""
        if op in ('Is', 'IsNot'):
            t = self.identical(a, b)
            return t if op == 'Is' else z3.Not(t)
        if op in ('In', 'NotIn'):
            t = self.contains(b, a)
            return t if op == 'In' else z3.Not(t)
        if op in ('Eq', 'NotEq'):
            t = self.equal(a, b)
            return t if op == 'Eq' else z3.Not(t)
        a, b = self.force(a), self.force(b)
        ka, kb = a.kind, b.kind
        num = (INT, BOOL, FLOAT)
        if ka in num and kb in num:
            if FLOAT in (ka, kb):
                x = a.t if ka == FLOAT else z3.ToReal(self.as_int(a))
                y = b.t if kb == FLOAT else z3.ToReal(self.as_int(b))
            else:
                x, y = self.as_int(a), self.as_int(b)
            return {'Lt': x < y, 'LtE': x <= y, 'Gt': x > y, 'GtE': x >= y}[op]
        if ka == STR and kb == STR:
            return {'Lt': a.t < b.t, 'LtE': a.t <= b.t, 'Gt': b.t < a.t, 'GtE': b.t <= a.t}[op]
        if ka.is_obj:
            name = {'Lt': '__lt__', 'LtE': '__le__', 'Gt': '__gt__', 'GtE': '__ge__'}[op]
            r = self.call_method(a, name, [b])
            return self.truthy(r)
        if ka == NONE or kb == NONE:
            if self.term_mode:
                raise Unsupported('ordering comparison with None in spec')
            self.raise_(TypeError, f'{ka} {op} {kb}')
        if ka == CONST and kb == CONST:
            import operator
            return z3.BoolVal({'Lt': operator.lt, 'LtE': operator.le, 'Gt': operator.gt,
                               'GtE': operator.ge}[op](a.py, b.py))
        raise Unsupported(f'compare {op} on {ka},{kb}')

    def identical(self, a: SV, b: SV):
        ka, kb = a.kind, b.kind
        if ka.name == 'opt' and kb == NONE:
            return sort_of(ka).is_none(a.t)
        if kb.name == 'opt' and ka == NONE:
            return sort_of(kb).is_none(b.t)
        if ka == NONE and kb == NONE:
            return z3.BoolVal(True)
        if ka == NONE or kb == NONE:
            return z3.BoolVal(False)
        if ka.name == 'opt' or kb.name == 'opt':
            if ka == kb:
                return a.t == b.t
            a2, b2 = self.force(a), self.force(b)
            return self.identical(a2, b2)
        if ka == CONST and kb == CONST:
            return z3.BoolVal(a.py is b.py)
        if ka == CONST or kb == CONST:
            ev = self.enum_text(a, b)
            if ev is not None:
                return ev
            return z3.BoolVal(False)
        if ka.is_ref and kb.is_ref:
            return a.t == b.t
        if ka == kb and ka in (INT, BOOL, STR):
            return a.t == b.t
        if ka == BOOL and kb == BOOL:
            return a.t == b.t
        return z3.BoolVal(False)

    def equal(self, a: SV, b: SV):
        ka, kb = a.kind, b.kind
        if ka.name == 'opt' or kb.name == 'opt':
            if ka == kb and not (ka.args[0].is_obj):
                return a.t == b.t
            if kb == NONE or ka == NONE:
                return self.identical(a, b)
            if self.term_mode and ka == kb:
                return a.t == b.t
            if self.term_mode:
                # opt[T] == T' : equal iff not None and payloads equal; both opt: both None or both equal
                def parts(v):
                    if v.kind.name == 'opt':
                        os_ = sort_of(v.kind)
                        return os_.is_some(v.t), SV(v.kind.args[0], os_.val(v.t))
                    return z3.BoolVal(True), v
                sa, pa = parts(a)
                sb, pb = parts(b)
                both = z3.And(sa, sb, self.equal(pa, pb))
                if ka.name == 'opt' and kb.name == 'opt':
                    return z3.Or(z3.And(z3.Not(sa), z3.Not(sb)), both)
                return both
            a, b = self.force(a), self.force(b)
            ka, kb = a.kind, b.kind
        if ka == NONE or kb == NONE:
            if ka.is_obj and not self.term_mode:
                # obj.__eq__(None)
                return self.obj_eq(a, b)
            return z3.BoolVal(ka == kb)
        num = (INT, BOOL)
        if ka in num and kb in num:
            return self.as_int(a) == self.as_int(b)
        if (ka in num or ka == FLOAT) and (kb in num or kb == FLOAT):
            x = a.t if ka == FLOAT else z3.ToReal(self.as_int(a))
            y = b.t if kb == FLOAT else z3.ToReal(self.as_int(b))
            return x == y
        if ka == STR and kb == STR:
            return a.t == b.t
        if ka == CONST and kb == CONST:
            return z3.BoolVal(a.py == b.py)
        ev = self.enum_text(a, b)
        if ev is not None:
            return ev
        if (ka.is_list and kb == PYTUPLE) or (kb.is_list and ka == PYTUPLE):
            # list == [literal, ...]
            lv, tv = (a, b) if ka.is_list else (b, a)
            items = list(tv.py)
            conj = [self.list_len(lv) == len(items)]
            for i_, it in enumerate(items):
                conj.append(self.equal(SV(lv.kind.elem, z3.Select(self.list_elems(lv), i_)), it))
            return z3.And(*conj)
        if ka == PYTUPLE and kb == PYTUPLE:
            if len(a.py) != len(b.py):
                return z3.BoolVal(False)
            return z3.And(*[self.equal(x, y) for x, y in zip(a.py, b.py)]) if a.py else z3.BoolVal(True)
        if ka.name == 'tuple' or kb.name == 'tuple':
            ia, ib = self.tuple_items(a), self.tuple_items(b)
            if len(ia) != len(ib):
                return z3.BoolVal(False)
            return z3.And(*[self.equal(x, y) for x, y in zip(ia, ib)])
        if ka.is_obj:
            if self.term_mode:
                return a.t == b.t if kb.is_obj else z3.BoolVal(False)
            return self.obj_eq(a, b)
        if kb.is_obj:
            return self.obj_eq(b, a)
        if ka.is_dict and kb.name == 'emptydict' or kb.is_dict and ka.name == 'emptydict':
            d = a if ka.is_dict else b
            y = z3.Const('y!ed', sort_of(d.kind.key))
            return z3.ForAll([y], z3.Not(z3.Select(self.dict_has(d), y)))
        if ka.is_ref and kb.is_ref:
            if self.term_mode:
                return a.t == b.t
            if ka.is_set and kb.is_set:
                return self.set_mem(a) == self.set_mem(b)
            raise Unsupported(f'== on containers {ka},{kb}')
        if ka != kb and ka in (INT, BOOL, STR, FLOAT) and kb in (INT, BOOL, STR, FLOAT):
            return z3.BoolVal(False)
        if ka == CONST or kb == CONST:
            return z3.BoolVal(False)
        raise Unsupported(f'== on {ka},{kb}')

    def enum_text(self, a, b):
        """An Enum member compared with a field that is modelled by the member's value text
        (schema kind `str` for an Enum-valued attribute: distinct members have distinct values)."""
        import enum
        for x, y in ((a, b), (b, a)):
            if x.kind == CONST and isinstance(x.py, enum.Enum) and isinstance(x.py.value, str) and y.kind == STR:
                vals = [m.value for m in type(x.py)]
                if len(set(vals)) != len(vals):
                    raise Unsupported('enum with aliased values')
                return y.t == z3.StringVal(x.py.value)
        return None

    def obj_eq(self, a, b):
        cls = self.reg.real_class(a.kind.name)
        f = self.static_lookup(cls, '__eq__') if cls else None
        if f is None:
            return self.identical(a, b)
        if b.kind == NONE:
            # x == None: the contracts of __eq__ are stated for operands of the class; the real
            # (small) body is executed instead - it returns NotImplemented or False for None
            try:
                r = self.inline(inspect.unwrap(f), [a, b], {}, owner=cls)
            except Unsupported:
                r = self.call_function(f, [a, b], {}, owner=cls)
        else:
            r = self.call_function(f, [a, b], {}, owner=cls)
        if r.kind == CONST and r.py is NotImplemented:
            # reflected: other.__eq__(self) else identity
            if b.kind.is_obj:
                cb = self.reg.real_class(b.kind.name)
                fb = self.static_lookup(cb, '__eq__') if cb else None
                if fb is not None:
                    r2 = self.call_function(fb, [b, a], {}, owner=cb)
                    if not (r2.kind == CONST and r2.py is NotImplemented):
                        return self.truthy(r2)
            return self.identical(a, b)
        return self.truthy(r)

    def contains(self, cont: SV, item: SV):
        cont = self.force(cont)
        k = cont.kind
        if k.name in ('emptylist', 'emptydict', 'emptyset'):
            return z3.BoolVal(False)
        if k.is_set:
            return z3.Select(self.set_mem(cont), self.coerce(self.force(item), k.elem))
        if k.is_dict:
            return z3.Select(self.dict_has(cont), self.coerce(self.force(item), k.key))
        if k.is_list:
            return self.list_contains(cont, item)
        if k == STR:
            item = self.force(item)
            if item.kind != STR:
                self.raise_(TypeError)
            return z3.Contains(cont.t, item.t)
        if k == PYTUPLE or (k == CONST and isinstance(cont.py, (tuple, list, set, frozenset, dict))):
            items = self.tuple_items(cont) if k == PYTUPLE else [self.lift(x) for x in cont.py]
            if not items:
                return z3.BoolVal(False)
            ts = [self.equal(item, x) for x in items]
            return z3.Or(*ts)
        if k.is_obj:
            r = self.call_method(cont, '__contains__', [item])
            return self.truthy(r)
        raise Unsupported(f'in on {k}')

    def list_contains(self, lv, item):
        """x in list: element equality may be user defined (__eq__)."""
        ek = lv.kind.elem
        n = self.list_len(lv)
        item = self.force(item)
        if not ek.is_obj:
            it = self.coerce(item, ek)
            j = z3.Int('j!in')
            el = self.list_elems(lv)
            r = z3.Bool(self.p.fresh_name('inlist'))
            w = self.p.fresh('wi', I)
            self.p.assume(z3.Implies(r, z3.And(0 <= w, w < n, z3.Select(el, w) == it)))
            self.p.assume(z3.Implies(z3.Not(r), z3.ForAll([j], z3.Implies(
                z3.And(0 <= j, j < n), z3.Select(el, j) != it), patterns=[z3.Select(el, j)])))
            return r
        # objects: go through the element-equality spec hook of the schema
        eqf = self.elem_eq_term(ek)
        if eqf is None:
            rc = self.reg.real_class(ek.name)
            if rc is not None and self.static_lookup(rc, '__eq__') is None:
                eqf = (lambda v: v.t)      # no __eq__: objects compare by identity
            else:
                raise Unsupported(f'`in` on list of {ek} without eq_view')
        it = eqf(item)
        el = self.list_elems(lv)
        j = z3.Int('j!in')
        r = z3.Bool(self.p.fresh_name('inlist'))
        w = self.p.fresh('wi', I)
        self.p.assume(z3.Implies(r, z3.And(0 <= w, w < n, eqf(SV(ek, z3.Select(el, w))) == it)))
        self.p.assume(z3.Implies(z3.Not(r), z3.ForAll([j], z3.Implies(
            z3.And(0 <= j, j < n), eqf(SV(ek, z3.Select(el, j))) != it),
            patterns=[z3.Select(el, j)])))
        return r

    def elem_eq_term(self, ek):
        s = self.reg.schemas.get(ek.name)
        view = getattr(s, 'eq_view', None) if s else None
        if view is None:
            return None

        def f(v):
            self.term_mode += 1
            try:
                return self.call_function(view, [v], {}).t
            finally:
                self.term_mode -= 1
        return f

    # ------------------------------------------------------------ subscripts
    def e_Subscript(self, e):
        base = self.force(self.eval(e.value))
        if isinstance(e.slice, ast.Slice):
            return self.slice(base, e.slice)
        idx = self.eval(e.slice)
        return self.getitem(base, idx)

    def getitem(self, base: SV, idx: SV) -> SV:
        k = base.kind
        idx = self.force(idx)
        if k.is_list:
            i = self.as_int(idx)
            n = self.list_len(base)
            if self.term_mode:
                return self.list_get(base, i)
            if self.p.choose(i >= 0):
                if not self.p.choose(i < n):
                    self.raise_(IndexError)
                return self.list_get(base, i)
            if not self.p.choose(i >= -n):
                self.raise_(IndexError)
            return self.list_get(base, n + i)
        if k.is_dict:
            kt = self.coerce(idx, k.key)
            has = z3.Select(self.dict_has(base), kt)
            if k.name in ('counter',):
                if self.term_mode:
                    return SV(INT, z3.If(has, z3.Select(self.dict_vals(base), kt), 0))
                if self.p.choose(has):
                    return self.dict_get(base, idx)
                return SV(INT, z3.IntVal(0))
            if not self.term_mode and not self.p.choose(has):
                if k.name == 'defaultdict':
                    raise Unsupported('defaultdict missing key')
                self.raise_(KeyError)
            return self.dict_get(base, idx)
        if k == PYTUPLE or (k == CONST and isinstance(base.py, (tuple, list))):
            items = self.tuple_items(base)
            i = z3.simplify(self.as_int(idx))
            if not z3.is_int_value(i):
                raise Unsupported('symbolic index into tuple')
            try:
                return items[i.as_long()]
            except IndexError:
                self.raise_(IndexError)
        if k.name == 'tuple':
            items = self.tuple_items(base)
            i = z3.simplify(self.as_int(idx))
            if not z3.is_int_value(i):
                raise Unsupported('symbolic index into tuple')
            return items[i.as_long()]
        if k == CONST and isinstance(base.py, dict):
            if idx.kind == STR and z3.is_string_value(z3.simplify(idx.t)):
                key = z3.simplify(idx.t).as_string()
                if key not in base.py:
                    self.raise_(KeyError)
                return self.lift(base.py[key])
            if idx.kind == CONST:
                return self.lift(base.py[idx.py])
            if idx.kind == STR and not self.term_mode and len(base.py) <= 8 \
                    and all(isinstance(k_, str) for k_ in base.py):
                # symbolic key into a small constant table: one path per key
                for k_, v_ in base.py.items():
                    if self.p.choose(idx.t == z3.StringVal(k_)):
                        return self.lift(v_)
                self.raise_(KeyError)
            raise Unsupported('symbolic key into constant dict')
        if k == STR:
            i = self.as_int(idx)
            n = z3.Length(base.t)
            if not self.term_mode:
                if self.p.choose(i >= 0):
                    if not self.p.choose(i < n):
                        self.raise_(IndexError)
                else:
                    if not self.p.choose(i >= -n):
                        self.raise_(IndexError)
                    i = n + i
            return SV(STR, z3.SubString(base.t, i, 1))
        if k.is_obj and k.name.startswith('Rec'):
            # record dictionary (a config dict with fixed string keys): keys are fields
            kt = z3.simplify(idx.t) if idx.kind == STR else None
            if kt is None or not z3.is_string_value(kt):
                raise Unsupported('record dictionary indexed by a non-literal key')
            if self.field_kind(k.name, kt.as_string()) is None:
                self.raise_(KeyError, kt.as_string())
            return self.read_field(base, kt.as_string())
        if k.is_obj:
            return self.call_method(base, '__getitem__', [idx])
        raise Unsupported(f'subscript on {k}')

    def slice(self, base, sl):
        if base.kind == PYTUPLE or (base.kind == CONST and isinstance(base.py, (tuple, list))):
            items = self.tuple_items(base)

            def c(x):
                if x is None:
                    return None
                v = z3.simplify(self.as_int(self.eval(x)))
                if not z3.is_int_value(v):
                    raise Unsupported('symbolic slice bound')
                return v.as_long()
            return self.make_tuple(items[c(sl.lower):c(sl.upper):c(sl.step)])
        raise Unsupported(f'slice of {base.kind}')

    # ------------------------------------------------------------ strings
    def e_JoinedStr(self, e):
        parts = []
        for v in e.values:
            if isinstance(v, ast.Constant):
                parts.append(z3.StringVal(v.value))
            else:
                parts.append(self.format_value(v))
        if not parts:
            return SV(STR, z3.StringVal(''))
        return SV(STR, parts[0] if len(parts) == 1 else z3.Concat(*parts))

    def format_value(self, fv):
        # f"{x}" : str(x) for str/int; everything else is an opaque string.
        # (A-LOG: formatting has no side effect on verified state.)
        if fv.conversion == -1 and fv.format_spec is None and not self.in_message:
            try:
                v = self.eval(fv.value)
                v = self.force(v) if v.kind.name != 'opt' else v
                if v.kind == STR:
                    return v.t
                if v.kind == INT:
                    return pm.str_of_int(self.p, v.t)
                if v.kind.is_obj:
                    s = self.b_str([v], {})
                    if s.kind == STR:
                        return s.t
            except Unsupported:
                pass
        return self.p.fresh('fstr', z3.StringSort())
