"""Verify one function of /repo against its contract: explore all paths of the
real body, generate and discharge the obligations."""
from __future__ import annotations

import inspect
import time
import traceback
import z3

from .kinds import (Kind, INT, BOOL, STR, FLOAT, NONE, ANY, CONST, sort_of, parse_kind, opt)
from .core import (SV, NONEV, const, PathCtx, Infeasible, Unsupported, PyRaise,
                   ReturnEx, BreakEx, ContinueEx, Obligation)
from .engine import Engine, Frame
from .source import resolve

I = z3.IntSort()


class FunctionResult:
    def __init__(self, contract):
        self.contract = contract
        self.obligations = {}      # name -> aggregated dict
        self.paths = 0
        self.unsupported = []      # messages
        self.error = None
        self.time = 0.0
        self.notes = {}
        self.vacuity = {}
        self.stmts = 0
        self.file = ''
        self.line = 0

    @property
    def status(self):
        if self.error:
            return 'error'
        if any(o['verdict'] == 'refuted' for o in self.obligations.values()):
            return 'refuted'
        if self.unsupported or any(o['verdict'] == 'unknown' for o in self.obligations.values()):
            return 'undecided'
        return 'proved'


def aggregate(obls):
    out = {}
    for ob in obls:
        a = out.setdefault(ob.name, dict(name=ob.name, verdict='proved', paths=0, time=0.0,
                                         model=None, line=ob.line, backend='z3', detail='',
                                         details=[]))
        a['paths'] += 1
        a['time'] += ob.time
        if ob.verdict == 'refuted':
            if a['verdict'] != 'refuted':
                a['model'] = ob.model
                a['line'] = ob.line
            a['verdict'] = 'refuted'
        elif ob.verdict == 'unknown':
            # one query per path the solver left open: a second opinion has to close ALL of them
            a['details'].append(ob.detail)
            a.setdefault('reasons', []).append(ob.reason)
            if a['verdict'] == 'proved':
                a['verdict'] = 'unknown'
                a['detail'] = ob.detail
                a['line'] = ob.line
                a['candidate'] = ob.model
    return out


def verify_contract(reg, c, timeout_ms=10000, feas_timeout_ms=2000, canary=True, strict=False):
    """strict=True: verify without the contract's `domain` clauses (the part of
    the input space where the code is known to deviate is then included)."""
    res = FunctionResult(c)
    c.vname = c.short + ('::strict' if strict else '')
    t0 = time.time()
    try:
        mod, owner, raw, func = resolve(c.target)
    except Exception as ex:
        res.error = f'cannot resolve {c.target}: {ex!r}'
        return res
    feas_timeout_ms = c.options.get('feas_timeout_ms', feas_timeout_ms)
    eng = Engine(reg, timeout_ms=timeout_ms, feas_timeout_ms=feas_timeout_ms)
    eng.options = dict(c.options)
    node = eng.src.get(func)
    if node is None:
        res.error = f'no source for {c.target}'
        return res
    res.file = eng.src.path_of(func)
    res.line = node.lineno
    res.stmts = sum(1 for x in __import__('ast').walk(node) if isinstance(x, __import__('ast').stmt)) - 1
    body = node.body
    frag = c.options.get('fragment_from')
    frag_after = c.options.get('fragment_after')
    frag_before = c.options.get('fragment_before')
    if frag_before:
        # Fragment = the top-level statements BEFORE the first one whose source text contains the
        # marker (the prefix of the real body; falling off its end is "return None")
        import ast as _a
        idxs = [i for i, st in enumerate(node.body) if frag_before in _a.unparse(st)]
        if not idxs or idxs[0] == 0:
            res.error = (f'fragment marker {frag_before!r} not found (or nothing before it) in the top-level '
                         f'statements of {c.target}')
            return res
        body = node.body[:idxs[0]]
        if body and isinstance(body[0], _a.Expr) and isinstance(getattr(body[0], 'value', None), _a.Constant) \
                and isinstance(body[0].value.value, str):
            body = body[1:]       # docstring
        frag = None
    elif frag_after:
        # Fragment = everything after the LAST top-level statement whose source text contains the
        # marker (more robust than naming the first statement of the fragment, which a change of
        # the fragment itself may remove)
        import ast as _a
        idxs = [i for i, st in enumerate(node.body) if frag_after in _a.unparse(st)]
        if not idxs or idxs[-1] + 1 >= len(node.body):
            res.error = (f'fragment marker {frag_after!r} not found (or nothing after it) in the top-level '
                         f'statements of {c.target}')
            return res
        body = node.body[idxs[-1] + 1:]
        res.line = body[0].lineno
        frag = frag_after
    elif frag:
        # Fragment contract: the suffix of the REAL body that starts at the first top-level
        # statement whose source text starts with the marker; the locals listed as
        # fragment_inputs are arbitrary values of their declared sorts at that point.
        import ast as _a
        idxs = [i for i, st in enumerate(node.body) if _a.unparse(st).strip().startswith(frag)]
        if len(idxs) != 1:
            res.error = (f'fragment marker {frag!r} matches {len(idxs)} top-level statements of '
                         f'{c.target} (exactly one expected)')
            return res
        body = node.body[idxs[0]:]
        res.line = body[0].lineno
    sig = inspect.signature(func)
    params = list(sig.parameters)
    is_method = owner is not None and not isinstance(raw, staticmethod)
    stack = [[]]
    seen_canary = [False]
    reach = {}

    def run_path(prefix):
        p = PathCtx(prefix, timeout_ms, feas_timeout_ms)
        eng.p = p
        eng.frames = []
        eng.term_mode = 0
        eng.old = None
        eng.model_vars = {}
        env = {}
        for name in params:
            prm = sig.parameters[name]
            ks = c.sorts.get(name)
            if ks is None:
                if prm.default is not inspect._empty and prm.default is None:
                    env[name] = NONEV
                    continue
                raise Unsupported(f'parameter {name} of {c.short} has no sort')
            if ks.startswith('='):
                env[name] = eng.lift(eval(ks[1:], vars(mod)))
                continue
            k = parse_kind(ks)
            if k.name == 'pytuple':
                # *args of a fixed arity: a tuple of symbolic items
                env[name] = eng.make_tuple([eng.sym(f'{name}{j}', a) for j, a in enumerate(k.args)])
                continue
            if isinstance(raw, classmethod) and name == params[0]:
                env[name] = const(owner)
                continue
            v = eng.sym(name, k)
            env[name] = v
            if k in (INT, BOOL, STR, FLOAT) or k.is_ref or k.name == 'opt':
                eng.watch(name, v.t)
        if isinstance(raw, classmethod) and params and params[0] not in env:
            env[params[0]] = const(owner)
        for name in (c.options.get('fragment_inputs') or []) if frag else []:
            env[name] = eng.sym(name, parse_kind(c.sorts[name]))
        fr = Frame(func, func.__globals__, env, qualname=c.vname, contract=c, cls=owner)
        fr.self_name = params[0] if is_method and params else None
        fr.param_names = tuple(params)
        eng.frames.append(fr)
        penv = dict(env)
        # requires
        eng.old = ({}, penv)
        for rq in c.requires + ([] if strict else c.domain):
            p.assume(eng.eval_clause(rq, env=penv, contract=c))
        if p.check() == z3.unsat:
            raise Infeasible()
        reach['requires_sat'] = True
        watch_fields(eng, env)
        import ast as _ast
        for w in c.watch:
            try:
                wv = eng.eval_expr_clause(_ast.parse(w, mode='eval').body, penv, c)
                if wv.kind.name == 'opt':
                    os_ = sort_of(wv.kind)
                    eng.watch(w + ' is None', os_.is_none(wv.t))
                    eng.watch(w, os_.val(wv.t))
                elif wv.t is not None:
                    eng.watch(w, wv.t)
            except Unsupported:
                pass
        old_heap = p.heap_snapshot()
        eng.old = (old_heap, penv)
        eng.loop_old_env = penv
        outcome = None
        import ast as _ast2
        for gsrc in c.ghost_init:
            for gs in _ast2.parse(gsrc).body:
                eng.check_ghost_stmt(gs, c)
                eng.exec(gs)
        try:
            eng.exec_block(body)
            result = NONEV
            outcome = 'return'
        except ReturnEx as r:
            result = r.value
            outcome = 'return'
        except PyRaise as ex:
            outcome = ex
        line = eng.cur_line
        if outcome == 'return':
            eng.frames[:] = [fr]
            # vacuity guard per return statement: is this exit reachable under everything that was
            # assumed on the way (callee contracts, invariants)?  A return line that NO path reaches
            # with a satisfiable path condition is reported as a checker error below.
            rr = z3.sat if p.tainted else p.check(None, timeout=min(3000, timeout_ms))
            stat = reach.setdefault('returns', {}).setdefault(line, [0, 0])
            if rr == z3.unsat:
                stat[1] += 1
                raise Infeasible()
            stat[0] += 1
            # declared exceptional conditions must not hold on a normal return
            for exc, cond in c.raises.items():
                t = eng.spec_old_clause(cond, penv, c)
                eng.prove(f'{c.vname}::raises[{exc}](not raised)', z3.Not(t), line=line)
            env2 = dict(penv)
            rk = c.sorts.get('result')
            if rk is not None and rk != 'none':
                want = parse_kind(rk)
                if result.kind != want:
                    try:
                        result = SV(want, eng.coerce(result, want))
                    except Unsupported:
                        eng.prove(f'{c.vname}::result-kind', z3.BoolVal(False), line=line)
                        raise Unsupported(f'result kind {result.kind} is not {want}')
            env2['result'] = result
            for gname in c.ghost_vars:
                if fr.locals.get(gname) is not None:
                    env2[gname] = fr.locals[gname]
            for name, en in c.ensures.items():
                eng.skolems = []
                t = eng.eval_clause(en, env=env2, contract=c, polarity=1)
                for sn, sx in eng.skolems:
                    eng.watch('skolem:' + sn, sx)
                eng.prove(f'{c.vname}::ensures[{name}]', t, line=line)
                eng.skolems = None
                reach.setdefault('ensures', set()).add(name)
            check_frame(eng, c, old_heap, penv, line)
            if canary and not seen_canary[0]:
                # vacuity canary: `False` must be refutable on a normally-returning path
                # (the return guard above may already have found a model; otherwise one more attempt with
                # a small budget per path - a satisfiability answer under quantifiers is rare and a
                # full query budget per path was most of the exploration time of branchy functions)
                if p.tainted:
                    # a failed goal was assumed on this path: its path condition says nothing about vacuity
                    r = z3.unknown
                else:
                    r = z3.sat if rr == z3.sat else p.check(None, timeout=min(5000, timeout_ms))
                if r == z3.sat:
                    seen_canary[0] = True
                elif r == z3.unknown:
                    reach['canary_unknown'] = True
        else:
            ex = outcome
            eng.frames[:] = [fr]
            name = ex.cls.__name__
            if c.returns_when:
                ts = [eng.spec_old_clause(w, penv, c) for w in c.returns_when]
                eng.prove(f'{c.vname}::returns-normally-when-supported[{name}]',
                          z3.Not(z3.And(*ts)), line=line)
            declared = None
            for exc in c.raises:
                if issubclass(ex.cls, eng.exc_class(exc, c)):
                    declared = exc
                    break
            if declared is not None:
                t = eng.spec_old_clause(c.raises[declared], penv, c, polarity=1)
                eng.prove(f'{c.vname}::raises[{declared}](only when)', t, line=line)
            elif any(issubclass(ex.cls, eng.exc_class(x, c)) for x in c.may_raise):
                pass
            else:
                eng.prove(f'{c.vname}::no-unexpected-exception[{name}]', z3.BoolVal(False), line=line)
            # exceptional exits still respect the frame unless stated otherwise
        return p

    def spec_old_clause(cond, penv, cc, polarity=-1):
        saved = eng.p.heap
        eng.p.heap = dict(eng.old[0])
        try:
            return eng.eval_clause(cond, env=penv, contract=cc, polarity=polarity)
        finally:
            eng.p.heap = saved
    eng.spec_old_clause = spec_old_clause

    npaths = 0
    import os as _os
    budget_s = int(_os.environ.get('VERIF_FUNCTION_BUDGET_S') or c.options.get(
        'budget_s', 600 if _os.environ.get('VERIF_TIER', 'quick') == 'quick' else 3600))
    while stack:
        prefix = stack.pop()
        npaths += 1
        if npaths > c.max_paths:
            res.unsupported.append(f'path limit {c.max_paths} exceeded')
            break
        if time.time() - t0 > budget_s:
            res.unsupported.append(f'time budget of {budget_s}s for one function exceeded after '
                                   f'{npaths - 1} paths')
            break
        eng.path_id = npaths
        p = None
        try:
            p = run_path(prefix)
        except Infeasible:
            p = eng.p
        except Unsupported as ex:
            p = eng.p
            msg = f'{ex} [line {eng.cur_line}]'
            if msg not in res.unsupported:
                res.unsupported.append(msg)
        except (ReturnEx, BreakEx, ContinueEx) as ex:
            p = eng.p
            res.unsupported.append(f'stray control flow {type(ex).__name__}')
        except z3.Z3Exception as ex:
            p = eng.p
            res.error = f'z3 error: {ex} [line {eng.cur_line}]\n' + traceback.format_exc()
            break
        except RecursionError:
            p = eng.p
            res.unsupported.append('recursion limit')
        except Exception as ex:
            res.error = f'engine error: {ex!r} [line {eng.cur_line}]\n' + traceback.format_exc()
            break
        if p is not None:
            stack.extend(p.alts)
    res.paths = npaths
    res.obligations = aggregate(eng.obligations)
    res.notes = {k: sorted(v) for k, v in eng.notes.items()}
    res.vacuity = dict(requires_sat=bool(reach.get('requires_sat')),
                       canary_refuted=seen_canary[0],
                       ensures_reached=sorted(reach.get('ensures', ())))
    if not res.error:
        if not reach.get('requires_sat'):
            res.error = 'vacuity: requires is unsatisfiable'
        elif c.ensures and not seen_canary[0] and not res.unsupported \
                and not reach.get('canary_unknown') and reach.get('ensures'):
            res.error = 'vacuity: no satisfiable normally-returning path (canary proved)'
        dead = sorted(s for s, (alive, killed) in eng.site_stats.items() if alive == 0 and killed > 0)
        if dead and not res.error and not res.unsupported:
            res.error = ('vacuity: no path survives the contract assumed at call site(s) ' + ', '.join(dead)
                         + ' (the callee contract contradicts what is known there)')
        res.vacuity['call_sites_alive'] = {s: v[0] for s, v in eng.site_stats.items()}
        unreach = sorted(str(ln) for ln, (alive, deadn) in reach.get('returns', {}).items()
                         if alive == 0 and deadn > 0)
        res.vacuity['returns_reached'] = {str(ln): v[0] for ln, v in reach.get('returns', {}).items()}
        if unreach and not res.error and not res.unsupported and not c.options.get('dead_returns_ok'):
            res.error = ('vacuity: every path to the return at line(s) ' + ', '.join(unreach) + ' has an '
                         'unsatisfiable path condition (an assumed contract or invariant on the way is '
                         'contradictory, or the return is dead code: option dead_returns_ok)')
        missing = [n for n in c.ensures if n not in reach.get('ensures', ())]
        if missing and not res.unsupported and not res.error and not c.raises and not c.may_raise:
            res.error = f'vacuity: ensures never reached: {missing}'
    res.time = time.time() - t0
    return res


def watch_fields(eng, env, depth=2):
    """Make the pre-state fields of object parameters visible in counter-models."""
    from . import pymodel as pm

    def visit(prefix, v, d):
        k = v.kind
        if k.name == 'opt':
            os_ = sort_of(k)
            eng.watch(prefix + ' is None', os_.is_none(v.t))
            v = SV(k.args[0], os_.val(v.t))
            k = v.kind
        if k == STR:
            eng.watch(prefix, v.t)
            eng.watch(f'int({prefix})', pm.pyint_str(v.t))
            eng.watch(f"int({prefix}.replace('P',''))",
                      pm.pyint_str(pm.str_replace(eng.p, v.t, z3.StringVal('P'), z3.StringVal(''))))
        elif k in (INT, BOOL, FLOAT):
            eng.watch(prefix, v.t)
        elif k.is_obj and d > 0:
            seen, todo, fields = set(), [k.name], {}
            while todo:
                cn = todo.pop()
                if cn in seen or cn not in eng.reg.schemas:
                    continue
                seen.add(cn)
                for a, ks in eng.reg.schemas[cn].fields.items():
                    fields.setdefault(a, ks)
                todo.extend(eng.reg.schemas[cn].bases)
            for a in fields:
                try:
                    fk = eng.field_kind(k.name, a)
                    arr = eng.field_arr(a, fk)
                    visit(f'{prefix}.{a}', SV(fk, z3.Select(arr, v.t)), d - 1)
                except Unsupported:
                    pass
        elif k.is_list:
            eng.watch(f'len({prefix})', z3.Select(eng.len_arr(), v.t))
    for n, v in env.items():
        if v.kind == CONST or v.kind.name == 'pytuple' or v.t is None:
            continue
        visit(n, v, depth)


def check_frame(eng, c, old_heap, penv, line):
    """Every heap location below the initial allocation frontier that differs
    from the pre-state must be covered by the contract's modifies clause."""
    p = eng.p
    for key, arr in list(p.heap.items()):
        if key == '@dtype':
            continue
        old = old_heap.get(key)
        if old is None:
            old = z3.Const('H0_' + key, arr.sort())
        if arr.eq(old):
            continue
        allowed = eng.allowed_refs(c.modifies, key, env=penv, contract=c)
        if allowed is True:
            continue
        r = z3.Int('r!fr')
        cond = [r >= 1, r < p.next0] + eng.frame_conds(allowed, r)
        same = z3.Select(arr, r) == z3.Select(old, r)
        if key.startswith('@val:'):
            # the observable content of a dict is its key set and the values AT its keys: the
            # value array is compared only where the (current) key set has the key
            hkey = '@has:' + key.split(':')[1]
            has = p.heap.get(hkey)
            if has is not None:
                kd = z3.Const('k!fr', has.sort().range().domain())
                same = z3.ForAll([kd], z3.Implies(z3.Select(z3.Select(has, r), kd),
                                                  z3.Select(z3.Select(arr, r), kd)
                                                  == z3.Select(z3.Select(old, r), kd)))
        goal = z3.ForAll([r], z3.Implies(z3.And(*cond), same))
        eng.prove(f'{c.vname}::frame[{key}]', goal, line=line)
