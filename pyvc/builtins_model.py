"""Models of Python built-in functions and of list/set/dict/str methods."""
from __future__ import annotations

import ast
import re as _re
import z3

from .kinds import (Kind, INT, BOOL, STR, FLOAT, NONE, ANY, CONST, PYTUPLE, sort_of,
                    sort_name, parse_kind, opt)
from .core import SV, NONEV, const, Unsupported, PyRaise, Infeasible
from . import pymodel as pm

I = z3.IntSort()
B = z3.BoolSort()


class BuiltinMixin:
    # ------------------------------------------------------------ functions
    def b_len(self, args, kw):
        v = self.force(args[0])
        k = v.kind
        if k.is_list:
            return SV(INT, self.list_len(v))
        if k == STR:
            return SV(INT, z3.Length(v.t))
        if k == PYTUPLE:
            return SV(INT, z3.IntVal(len(v.py)))
        if k == CONST:
            return SV(INT, z3.IntVal(len(v.py)))
        if k.name in ('emptylist', 'emptydict'):
            return SV(INT, z3.IntVal(0))
        if k.is_set or k.is_dict:
            ctx = self.order_of(v)
            return SV(INT, ctx[2])
        if k.is_obj:
            return self.call_method(v, '__len__', [])
        raise Unsupported(f'len of {k}')

    def b_int(self, args, kw):
        if not args:
            return SV(INT, z3.IntVal(0))
        v = self.force(args[0])
        k = v.kind
        if k == INT:
            return v
        if k == BOOL:
            return SV(INT, self.as_int(v))
        if k == STR:
            ok, val = pm.int_of_str(self.p, v.t)
            if not self.term_mode:
                if not self.p.choose(ok):
                    self.raise_(ValueError, 'int()')
            return SV(INT, val)
        if k == FLOAT:
            return SV(INT, z3.ToInt(v.t))   # NB: truncation toward zero differs for negatives
        if k == NONE:
            self.raise_(TypeError, 'int(None)')
        if k.is_obj:
            return self.call_method(v, '__int__', [])
        raise Unsupported(f'int of {k}')

    def b_float(self, args, kw):
        v = self.force(args[0])
        if v.kind == FLOAT:
            return v
        if v.kind in (INT, BOOL):
            return SV(FLOAT, z3.ToReal(self.as_int(v)))
        if v.kind == STR:
            return SV(FLOAT, self.p.fresh('float_of_str', z3.RealSort()))
        raise Unsupported(f'float of {v.kind}')

    def b_str(self, args, kw):
        if not args:
            return SV(STR, z3.StringVal(''))
        v = self.force(args[0])
        k = v.kind
        if k == STR:
            return v
        if k == INT:
            return SV(STR, pm.str_of_int(self.p, v.t))
        if k == BOOL:
            return SV(STR, z3.If(v.t, z3.StringVal('True'), z3.StringVal('False')))
        if k == FLOAT:
            return SV(STR, pm.str_of_float(self.p, v.t))
        if k == NONE:
            return SV(STR, z3.StringVal('None'))
        if k.is_obj:
            cls = self.reg.real_class(k.name)
            f = self.static_lookup(cls, '__str__') if cls else None
            if f is not None:
                return self.call_function(f, [v], {}, owner=cls)
            return SV(STR, pm.pystr_any(v.t))
        if k == CONST:
            try:
                return SV(STR, z3.StringVal(str(v.py)))
            except Exception:
                pass
        return SV(STR, self.p.fresh('str', z3.StringSort()))

    def b_all(self, args, kw):
        return self._anyall(args, True)

    def b_any(self, args, kw):
        return self._anyall(args, False)

    def _anyall(self, args, is_all):
        from .calls import SymIter
        v = self.force(args[0])
        items = self.concrete_items(v)
        if items is not None:
            ts = [self.truthy(x) for x in items]
            return SV(BOOL, (z3.And(*ts) if is_all else z3.Or(*ts)) if ts else z3.BoolVal(is_all))
        if v.kind == CONST and isinstance(v.py, SymIter) and v.py.kind == 'values':
            d = v.py.base
            y = z3.Const('y!aa', sort_of(d.kind.key))
            has, vals = self.dict_has(d), self.dict_vals(d)
            tv = self.truthy(SV(d.kind.val, z3.Select(vals, y)))
            if is_all:
                return SV(BOOL, z3.ForAll([y], z3.Implies(z3.Select(has, y), tv)))
            return SV(BOOL, z3.Exists([y], z3.And(z3.Select(has, y), tv)))
        if v.kind.is_list:
            j = z3.Int('j!aa')
            n, el = self.list_len(v), self.list_elems(v)
            tv = self.truthy(SV(v.kind.elem, z3.Select(el, j)))
            g = z3.And(0 <= j, j < n)
            return SV(BOOL, z3.ForAll([j], z3.Implies(g, tv)) if is_all else z3.Exists([j], z3.And(g, tv)))
        raise Unsupported(f'all/any over {v.kind}')

    def b_repr(self, args, kw):
        return SV(STR, self.p.fresh('repr', z3.StringSort()))

    def b_bool(self, args, kw):
        if not args:
            return SV(BOOL, z3.BoolVal(False))
        return SV(BOOL, self.truthy(args[0]))

    def b_abs(self, args, kw):
        v = self.force(args[0])
        if v.kind in (INT, BOOL):
            x = self.as_int(v)
            return SV(INT, z3.If(x >= 0, x, -x))
        if v.kind == FLOAT:
            return SV(FLOAT, z3.If(v.t >= 0, v.t, -v.t))
        if v.kind.is_obj:
            return self.call_method(v, '__abs__', [])
        raise Unsupported(f'abs of {v.kind}')

    def b_isinstance(self, args, kw):
        v, c = args
        if v.kind.name == 'opt':
            v = self.force(v)
        hook = self.reg.externals.get(('isinstance', v.kind.name))
        if hook is not None:
            return hook(self, v, c)
        classes = c.py if c.kind == CONST else tuple(x.py for x in c.py)
        if not isinstance(classes, tuple):
            classes = (classes,)
        k = v.kind
        pyt = {INT: int, BOOL: bool, STR: str, FLOAT: float, NONE: type(None)}.get(k)
        if pyt is not None:
            return SV(BOOL, z3.BoolVal(issubclass(pyt, classes)))
        if k.is_list:
            return SV(BOOL, z3.BoolVal(any(issubclass(list, x) for x in classes)))
        if k.is_set:
            return SV(BOOL, z3.BoolVal(any(issubclass(set, x) for x in classes)))
        if k.is_dict:
            return SV(BOOL, z3.BoolVal(any(issubclass(dict, x) for x in classes)))
        if k == PYTUPLE:
            return SV(BOOL, z3.BoolVal(any(issubclass(tuple, x) for x in classes)))
        if k.is_obj:
            rc = self.reg.real_class(k.name)
            if rc is None:
                raise Unsupported(f'isinstance on {k} (no class)')
            return SV(BOOL, z3.BoolVal(issubclass(rc, classes)))
        if k == CONST:
            return SV(BOOL, z3.BoolVal(isinstance(v.py, classes)))
        raise Unsupported(f'isinstance on {k}')

    def b_type(self, args, kw):
        v = self.force(args[0])
        if v.kind.is_obj:
            rc = self.reg.real_class(v.kind.name)
            if rc is not None:
                return const(rc)
        pyt = {INT: int, BOOL: bool, STR: str, FLOAT: float, NONE: type(None)}.get(v.kind)
        if pyt:
            return const(pyt)
        raise Unsupported(f'type() of {v.kind}')

    def b_hash(self, args, kw):
        v = self.force(args[0])
        if v.kind == STR:
            return SV(INT, pm.pyhash_str(v.t))
        if v.kind == INT:
            return SV(INT, v.t)
        if v.kind.is_obj:
            return self.call_method(v, '__hash__', [])
        raise Unsupported(f'hash of {v.kind}')

    def b_print(self, args, kw):
        return NONEV

    def b_id(self, args, kw):
        v = self.force(args[0])
        if v.kind.is_ref:
            return SV(INT, v.t)
        raise Unsupported('id()')

    def b_min(self, args, kw):
        return self._minmax(args, kw, True)

    def b_max(self, args, kw):
        return self._minmax(args, kw, False)

    def _minmax(self, args, kw, is_min):
        if len(args) >= 2 and not kw:
            vs = [self.force(a) for a in args]
            if all(v.kind in (INT, BOOL) for v in vs):
                r = self.as_int(vs[0])
                for v in vs[1:]:
                    x = self.as_int(v)
                    r = z3.If(x < r, x, r) if is_min else z3.If(x > r, x, r)
                return SV(INT, r)
            if all(v.kind.is_obj for v in vs) and len(vs) == 2 and not self.term_mode:
                a, b = vs
                # min(a, b): b if b < a else a ; max(a, b): b if b > a else a
                t = self.compare('Lt' if is_min else 'Gt', b, a)
                return b if self.p.choose(t) else a
        raise Unsupported('min/max form')

    def b_range(self, args, kw):
        vals = []
        for a in args:
            t = z3.simplify(self.as_int(self.force(a)))
            if not z3.is_int_value(t):
                raise Unsupported('symbolic range')
            vals.append(t.as_long())
        return const(range(*vals))

    def b_list(self, args, kw):
        if not args:
            return SV(Kind('emptylist'), None, [])
        v = self.force(args[0])
        items = self.concrete_items(v)
        if items is not None:
            if not items:
                return SV(Kind('emptylist'), None, [])
            return self.new_list(self.join_kinds([i.kind for i in items]), items)
        if v.kind.is_list:
            r = self.new_ref(Kind('list', (v.kind.elem,)))
            self.list_set_content(r, self.list_len(v), self.list_elems(v))
            return r
        if v.kind.is_set or v.kind.is_dict:
            ctx = self.order_of(v)
            ek = ctx[4]
            ordf, mem = ctx[3]
            r = self.new_ref(Kind('list', (ek,)))
            arr = self.p.fresh('aslist', z3.ArraySort(I, sort_of(ek)))
            self.p.bounds[str(arr)] = self.p.next
            j = z3.Int('j!al')
            self.p.assume(z3.ForAll([j], z3.Select(arr, j) == ordf(mem, j),
                                    patterns=[z3.Select(arr, j)]))
            self.list_set_content(r, ctx[2], arr)
            return r
        raise Unsupported(f'list() of {v.kind}')

    def b_tuple(self, args, kw):
        if not args:
            return self.make_tuple([])
        v = self.force(args[0])
        items = self.concrete_items(v)
        if items is not None:
            return self.make_tuple(items)
        return self.b_list(args, kw)

    def b_set(self, args, kw):
        if not args:
            return SV(Kind('emptyset'), None, set())
        v = self.force(args[0])
        items = self.concrete_items(v)
        if items is not None and items:
            return self.new_set(self.join_kinds([i.kind for i in items]), items)
        if v.kind.is_set:
            r = self.new_ref(Kind('set', (v.kind.elem,)))
            self.set_store(r, self.set_mem(v))
            return r
        if v.kind.is_list:
            ek = v.kind.elem
            s = sort_of(ek)
            r = self.new_ref(Kind('set', (ek,)))
            m = self.p.fresh('setof', z3.ArraySort(s, B))
            n, el = self.list_len(v), self.list_elems(v)
            j = z3.Int('j!so')
            y = z3.Const('y!so', s)
            wf = z3.Function('wit_' + str(m), s, I)
            self.p.assume(z3.ForAll([j], z3.Implies(z3.And(0 <= j, j < n), z3.Select(m, z3.Select(el, j))),
                                    patterns=[z3.Select(el, j)]))
            self.p.assume(z3.ForAll([y], z3.Implies(z3.Select(m, y), z3.And(
                0 <= wf(y), wf(y) < n, z3.Select(el, wf(y)) == y)), patterns=[z3.Select(m, y)]))
            self.set_store(r, m)
            return r
        if v.kind.is_dict:
            r = self.new_ref(Kind('set', (v.kind.key,)))
            self.set_store(r, self.dict_has(v))
            return r
        raise Unsupported(f'set() of {v.kind}')

    b_frozenset = b_set

    def b_dict(self, args, kw):
        if not args and not kw:
            return SV(Kind('emptydict'), None, {})
        raise Unsupported('dict(...)')

    def b_sorted(self, args, kw):
        raise Unsupported('sorted()')

    def b_getattr(self, args, kw):
        o, n = args[0], self.force(args[1])
        nt = z3.simplify(n.t) if n.kind == STR else None
        if nt is None or not z3.is_string_value(nt):
            raise Unsupported('getattr with symbolic name')
        try:
            return self.getattr(o, nt.as_string())
        except (PyRaise, Unsupported):
            if len(args) == 3:
                return args[2]
            raise

    def b_callable(self, args, kw):
        return SV(BOOL, z3.BoolVal(args[0].kind == CONST and callable(args[0].py)))

    # ------------------------------------------------------------ methods of builtin kinds
    def builtin_method(self, base: SV, name, args, kw):
        base = self.force(base)
        k = base.kind
        if k.name == 'emptylist' or k.name == 'emptydict' or k.name == 'emptyset':
            raise Unsupported(f'method {name} on untyped empty literal (add a sort hint)')
        if k.name in ('ReMatch', 'ReGroupDict'):
            return self.rematch_method(base, name, args, kw)
        if k.name == 'PyDateTime':
            # wall-clock values are opaque: any text
            return SV(STR, self.p.fresh('timestr', z3.StringSort()))
        if k.is_list:
            return self.list_method(base, name, args, kw)
        if k.is_set:
            return self.set_method(base, name, args, kw)
        if k.is_dict:
            return self.dict_method(base, name, args, kw)
        if k == STR:
            return self.str_method(base, name, args, kw)
        if k == PYTUPLE and name in ('index', 'count'):
            raise Unsupported('tuple method')
        raise Unsupported(f'method {name} on {k}')

    # ---- list / deque
    def list_method(self, lv, name, args, kw):
        p = self.p
        ek = lv.kind.elem
        n = self.list_len(lv)
        el = self.list_elems(lv)
        if name == 'append':
            # (an empty literal appended to a list of containers becomes a fresh empty container)
            self.list_append(lv, self.force_for(self.materialise(args[0], ek), ek))
            return NONEV
        if name == 'appendleft' or (name == 'insert' and self._is_zero(args[0])):
            v = args[0] if name == 'appendleft' else args[1]
            sh = self.shifted(el, 1, ek)
            self.list_set_content(lv, n + 1, z3.Store(sh, 0, self.coerce(self.force_for(v, ek), ek)))
            return NONEV
        if name == 'pop' and not args:
            if not p.choose(n > 0):
                self.raise_(IndexError, 'pop from empty')
            v = self.wf_value(SV(ek, z3.Select(el, n - 1)))
            self.list_set_content(lv, n - 1, el)
            return v
        if name == 'popleft' or (name == 'pop' and self._is_zero(args[0])):
            if not p.choose(n > 0):
                self.raise_(IndexError, 'pop from empty')
            v = self.wf_value(SV(ek, z3.Select(el, 0)))
            self.list_set_content(lv, n - 1, self.shifted(el, -1, ek))
            return v
        if name == 'extend':
            self.list_extend(lv, args[0])
            return NONEV
        if name == 'clear':
            self.list_set_content(lv, z3.IntVal(0), el)
            return NONEV
        if name == 'copy':
            r = self.new_ref(Kind('list', (ek,)))
            self.list_set_content(r, n, el)
            return r
        if name == 'remove':
            # removes the first element equal to x; ValueError if absent
            it = self.force(args[0])
            if ek.is_obj and self.elem_eq_term(ek) is None:
                # identity-free equality unknown: objects without __eq__ compare by identity
                rc = self.reg.real_class(ek.name)
                if rc is not None and self.static_lookup(rc, '__eq__') is not None:
                    raise Unsupported(f'list.remove on {ek} with __eq__ and no eq_view')
            present = self.list_contains(lv, it)
            if not p.choose(present):
                self.raise_(ValueError, 'list.remove(x): x not in list')
            idx = p.fresh('ri', I)
            it_t = self.coerce(it, ek)
            eqv = self.elem_eq_term(ek) if ek.is_obj else None
            same = (lambda t: t == it_t) if eqv is None else (lambda t: eqv(SV(ek, t)) == eqv(it))
            j = z3.Int('j!rm')
            p.assume(z3.And(0 <= idx, idx < n, same(z3.Select(el, idx))))
            p.assume(z3.ForAll([j], z3.Implies(z3.And(0 <= j, j < idx), z3.Not(same(z3.Select(el, j)))),
                               patterns=[z3.Select(el, j)]))
            new = p.fresh('removed', z3.ArraySort(I, sort_of(ek)))
            p.bounds[str(new)] = p.next
            p.assume(z3.ForAll([j], z3.Select(new, j) == z3.If(j < idx, z3.Select(el, j),
                                                                z3.Select(el, j + 1)),
                               patterns=[z3.Select(new, j)]))
            self.list_set_content(lv, n - 1, new)
            return NONEV
        raise Unsupported(f'list method {name}')

    def force_for(self, v, ek):
        if ek.name == 'opt':
            return v
        return self.force(v)

    def _is_zero(self, v):
        v = self.force(v)
        return v.kind == INT and z3.is_int_value(z3.simplify(v.t)) and z3.simplify(v.t).as_long() == 0

    def list_extend(self, lv, other):
        other = self.force(other)
        items = self.concrete_items(other)
        if items is not None:
            for it in items:
                self.list_append(lv, it)
            return
        if other.kind.is_list:
            cat = self.list_concat(lv, other)
            self.list_set_content(lv, self.list_len(cat), self.list_elems(cat))
            return
        raise Unsupported(f'extend with {other.kind}')

    # ---- set
    def set_method(self, sv, name, args, kw):
        p = self.p
        ek = sv.kind.elem
        mem = self.set_mem(sv)
        if name == 'add':
            self.set_store(sv, z3.Store(mem, self.coerce(self.force(args[0]), ek), z3.BoolVal(True)))
            return NONEV
        if name in ('remove', 'discard'):
            t = self.coerce(self.force(args[0]), ek)
            if name == 'remove' and not p.choose(z3.Select(mem, t)):
                self.raise_(KeyError, 'set.remove')
            self.set_store(sv, z3.Store(mem, t, z3.BoolVal(False)))
            return NONEV
        if name == 'copy':
            r = self.new_ref(Kind('set', (ek,)))
            self.set_store(r, mem)
            return r
        if name == 'clear':
            self.set_store(sv, z3.K(sort_of(ek), z3.BoolVal(False)))
            return NONEV
        if name in ('update', 'union', 'difference', 'intersection', 'difference_update',
                    'intersection_update'):
            o = self.force(args[0])
            items = self.concrete_items(o)
            if items is not None:
                if items:
                    o = self.new_set(ek, items)
                else:
                    o = self.new_set(ek, [])
            elif o.kind.is_list:
                o = self.b_set([o], {})
            elif o.kind.is_dict:
                o = self.b_set([o], {})
            if not o.kind.is_set:
                raise Unsupported(f'set.{name} with {o.kind}')
            op = {'update': 'BitOr', 'union': 'BitOr', 'difference': 'Sub', 'intersection': 'BitAnd',
                  'difference_update': 'Sub', 'intersection_update': 'BitAnd'}[name]
            r = self.set_binop(op, sv, o)
            if name in ('update', 'difference_update', 'intersection_update'):
                self.set_store(sv, self.set_mem(r))
                return NONEV
            return r
        if name == 'issuperset' and self.force(args[0]).kind.is_list:
            o = self.force(args[0])
            j = z3.Int('j!sup')
            el, n_ = self.list_elems(o), self.list_len(o)
            return SV(BOOL, z3.ForAll([j], z3.Implies(z3.And(0 <= j, j < n_),
                                                      z3.Select(mem, z3.Select(el, j))),
                                      patterns=[z3.Select(el, j)]))
        if name in ('issubset', 'issuperset', 'isdisjoint'):
            o = self.force(args[0])
            if not o.kind.is_set:
                raise Unsupported(f'set.{name} with {o.kind}')
            y = z3.Const('y!ss', sort_of(ek))
            a, b = mem, self.set_mem(o)
            if name == 'issuperset':
                a, b = b, a
            if name == 'isdisjoint':
                body = z3.Not(z3.And(z3.Select(a, y), z3.Select(b, y)))
            else:
                body = z3.Implies(z3.Select(a, y), z3.Select(b, y))
            return SV(BOOL, z3.ForAll([y], body))
        raise Unsupported(f'set method {name}')

    # ---- dict
    def dict_method(self, dv, name, args, kw):
        from .calls import SymIter
        p = self.p
        kk, vk = dv.kind.key, dv.kind.val
        has, vals = self.dict_has(dv), self.dict_vals(dv)
        if name == 'get':
            kt = self.coerce(self.force(args[0]), kk)
            dflt = args[1] if len(args) > 1 else NONEV
            if self.term_mode:
                rk = opt(vk) if dflt.kind == NONE else vk
                return SV(rk, z3.If(z3.Select(has, kt), self.coerce(SV(vk, z3.Select(vals, kt)), rk),
                                    self.coerce(dflt, rk)))
            if p.choose(z3.Select(has, kt)):
                return self.wf_value(SV(vk, z3.Select(vals, kt)))
            return dflt
        if name == 'setdefault':
            kt = self.coerce(self.force(args[0]), kk)
            if p.choose(z3.Select(has, kt)):
                return self.wf_value(SV(vk, z3.Select(vals, kt)))
            v = args[1] if len(args) > 1 else NONEV
            if v.kind.name in ('emptylist', 'emptydict'):
                v = self.materialise(v, vk)
            self.dict_store(dv, z3.Store(has, kt, z3.BoolVal(True)), z3.Store(vals, kt, self.coerce(v, vk)))
            return v
        if name == 'pop':
            kt = self.coerce(self.force(args[0]), kk)
            if p.choose(z3.Select(has, kt)):
                v = self.wf_value(SV(vk, z3.Select(vals, kt)))
                self.dict_store(dv, z3.Store(has, kt, z3.BoolVal(False)), vals)
                return v
            if len(args) > 1:
                return args[1]
            self.raise_(KeyError, 'dict.pop')
        if name in ('keys', 'values', 'items'):
            return const(SymIter(name, dv))
        if name == 'clear':
            self.dict_store(dv, z3.K(sort_of(kk), z3.BoolVal(False)), vals)
            return NONEV
        if name == 'copy':
            r = self.new_ref(dv.kind)
            self.dict_store(r, has, vals)
            return r
        if name == 'update':
            o = self.force(args[0])
            if o.kind.is_dict:
                # single-literal update {k: v} is the common case
                raise Unsupported('dict.update(dict)')
            raise Unsupported(f'dict.update with {o.kind}')
        raise Unsupported(f'dict method {name}')

    # ---- str
    def str_method(self, sv, name, args, kw):
        p = self.p
        s = sv.t
        a = [self.force(x) for x in args]
        if name == 'startswith' and a and a[0].kind == STR:
            return SV(BOOL, z3.PrefixOf(a[0].t, s))
        if name == 'endswith' and a and a[0].kind == STR:
            return SV(BOOL, z3.SuffixOf(a[0].t, s))
        if name in ('startswith', 'endswith') and a and a[0].kind == PYTUPLE:
            f = z3.PrefixOf if name == 'startswith' else z3.SuffixOf
            return SV(BOOL, z3.Or(*[f(x.t, s) for x in a[0].py]))
        if name == 'replace' and len(a) == 2:
            return SV(STR, pm.str_replace(p, s, a[0].t, a[1].t))
        if name == 'strip' and not a:
            sz = z3.simplify(s)
            if z3.is_string_value(sz):
                return SV(STR, z3.StringVal(sz.as_string().strip()))
            return SV(STR, pm.pystrip(s))
        if name in ('lower', 'upper', 'lstrip', 'rstrip', 'title', 'format', 'join', 'strip',
                    'translate', 'ljust', 'rjust', 'zfill', 'capitalize'):
            sz = z3.simplify(s)
            if z3.is_string_value(sz) and all(x.kind == STR and z3.is_string_value(z3.simplify(x.t)) for x in a):
                return SV(STR, z3.StringVal(getattr(sz.as_string(), name)(
                    *[z3.simplify(x.t).as_string() for x in a])))
            f = z3.Function('pystr_' + name, *([z3.StringSort()] * (1 + sum(1 for x in a if x.kind == STR))),
                            z3.StringSort())
            return SV(STR, f(s, *[x.t for x in a if x.kind == STR]))
        if name == 'count' and a and a[0].kind == STR:
            f = z3.Function('pystr_count', z3.StringSort(), z3.StringSort(), I)
            r = f(s, a[0].t)
            p.assume(r >= 0)
            p.assume((r == 0) == z3.Not(z3.Contains(s, a[0].t)))
            return SV(INT, r)
        if name in ('isdigit', 'isalpha', 'isalnum', 'isspace', 'isidentifier'):
            f = z3.Function('pystr_' + name, z3.StringSort(), B)
            return SV(BOOL, f(s))
        if name == 'find' and a and a[0].kind == STR:
            return SV(INT, z3.IndexOf(s, a[0].t, 0))
        if name == 'split' and len(a) == 1 and a[0].kind == STR and not kw:
            # s.split(sep): over-approximated by SOME non-empty list of substrings of s none of which
            # contains sep (what the parts are exactly - their order, that they rebuild s - is not modelled:
            # sound for proving facts that hold for every list of such parts)
            lv = self.new_list(STR)
            n = p.fresh('split_len', I)
            arr = p.fresh('split_parts', z3.ArraySort(I, z3.StringSort()))
            p.assume(n >= 1)
            self.list_set_content(lv, n, arr)
            j = z3.Int('j!split')
            p.assume(z3.ForAll([j], z3.Implies(z3.And(j >= 0, j < n), z3.And(
                z3.Contains(s, z3.Select(arr, j)),
                z3.Or(z3.Length(a[0].t) == 0, z3.Not(z3.Contains(z3.Select(arr, j), a[0].t)))))))
            return lv
        raise Unsupported(f'str method {name}')

    # ------------------------------------------------------------ regex
    def regex_method(self, pat, name, args, kw):
        s = self.force(args[0])
        if name not in ('search', 'match', 'fullmatch'):
            raise Unsupported(f'regex method {name}')
        if s.kind == NONE:
            self.raise_(TypeError, 'regex on None')
        if s.kind != STR:
            raise Unsupported(f'regex on {s.kind}')
        hook = self.reg.externals.get(('match', pat.pattern))
        matched = hook(self, 'matched', s, pat, name) if hook is not None else None
        if matched is None:
            try:
                if self.options.get('regex') == 'uninterp' and not z3.is_string_value(z3.simplify(s.t)):
                    raise pm.RegexUnsupported('option')
                r = pm.regex_to_z3(pat.pattern, pat.flags & ~_re.UNICODE, name)
                matched = z3.InRe(s.t, r)
            except pm.RegexUnsupported:
                import zlib
                f = z3.Function(f're_{name}_{zlib.crc32(pat.pattern.encode())}', z3.StringSort(), B)
                matched = f(s.t)
                self.notes['havoc'].add(f'regex {pat.pattern!r} treated as uninterpreted predicate')
        mk = Kind('ReMatch')
        os_ = sort_of(opt(mk))
        mt = self.p.fresh('match', os_)
        self.p.assume(os_.is_some(mt) == matched)
        v = SV(opt(mk), mt)
        self.wf_value(v)
        self.p.__dict__.setdefault('match_patterns', {})[str(os_.val(mt))] = pat
        if hook is not None and pat.groupindex:
            # group values of a successful match (ghost fields g_<name> of the match)
            obj = SV(mk, os_.val(mt))
            self.p.solver.push()
            self.p.solver.pop()
            hook(self, 'groups', s, pat, name, obj, os_.is_some(mt))
        return v

    def rematch_method(self, m: SV, name, args, kw):
        pat = self.p.__dict__.get('match_patterns', {}).get(str(m.t))
        if pat is None:
            raise Unsupported('match object of unknown pattern')
        if name == 'groupdict' and not args:
            return SV(Kind('ReGroupDict'), m.t)
        if name in ('group', 'get'):
            a = self.force(args[0])
            at = z3.simplify(a.t) if a.kind == STR else None
            if at is None or not z3.is_string_value(at):
                raise Unsupported('match group with non-literal name')
            gname = at.as_string()
            if gname not in pat.groupindex:
                if name == 'get':
                    return args[1] if len(args) > 1 else NONEV
                self.raise_(IndexError, 'no such group')
            return self.read_field(SV(Kind('ReMatch'), m.t), 'g_' + gname)
        raise Unsupported(f'match method {name}')

    # ------------------------------------------------------------ comprehensions
    def e_ListComp(self, e):
        if len(e.generators) == 2:
            return self.flatten_comp(e)
        return self.comprehension_call(list, e, e)

    def e_SetComp(self, e):
        return self.comprehension_call(set, e, e)

    def flatten_comp(self, e):
        """[v for m in D.values() for v in m.values()] over a dict of dicts:
        the result is a list in bijection with the entries (k1, k2) of D."""
        g1, g2 = e.generators
        ok = (not g1.ifs and not g2.ifs and isinstance(g1.target, ast.Name)
              and isinstance(g2.target, ast.Name) and isinstance(e.elt, ast.Name)
              and e.elt.id == g2.target.id
              and isinstance(g1.iter, ast.Call) and isinstance(g1.iter.func, ast.Attribute)
              and g1.iter.func.attr == 'values' and not g1.iter.args
              and isinstance(g2.iter, ast.Call) and isinstance(g2.iter.func, ast.Attribute)
              and g2.iter.func.attr == 'values' and not g2.iter.args
              and isinstance(g2.iter.func.value, ast.Name) and g2.iter.func.value.id == g1.target.id)
        if not ok:
            raise Unsupported('nested comprehension (only the dict-of-dicts flattening is modelled)')
        D = self.force(self.eval(g1.iter.func.value))
        if not (D.kind.is_dict and D.kind.val.is_dict):
            raise Unsupported(f'flattening comprehension over {D.kind}')
        p = self.p
        k1, inner = D.kind.key, D.kind.val
        k2, vk = inner.key, inner.val
        s1, s2, sv = sort_of(k1), sort_of(k2), sort_of(vk)
        L = self.new_ref(Kind('list', (vk,)))
        n = p.fresh('nflat', I)
        arr = p.fresh('flat', z3.ArraySort(I, sv))
        p.bounds[str(arr)] = p.next
        p.assume(n >= 0)
        self.list_set_content(L, n, arr)
        tag = p.fresh_name('')
        idx = z3.Function('flat_idx' + tag, s1, s2, I)
        kp = z3.Function('flat_k1' + tag, I, s1)
        kid = z3.Function('flat_k2' + tag, I, s2)
        has1, vals1 = self.dict_has(D), self.dict_vals(D)
        hasarr = self.has_arr(k2)
        valarr = self.val_arr(k2, vk)
        x, y, j = z3.Const('x!fl', s1), z3.Const('y!fl', s2), z3.Int('j!fl')

        def inner_has(xx, yy):
            return z3.Select(z3.Select(hasarr, z3.Select(vals1, xx)), yy)

        def inner_val(xx, yy):
            return z3.Select(z3.Select(valarr, z3.Select(vals1, xx)), yy)
        p.assume(z3.ForAll([x, y], z3.Implies(
            z3.And(z3.Select(has1, x), inner_has(x, y)),
            z3.And(0 <= idx(x, y), idx(x, y) < n, z3.Select(arr, idx(x, y)) == inner_val(x, y),
                   kp(idx(x, y)) == x, kid(idx(x, y)) == y)), patterns=[inner_has(x, y)]))
        p.assume(z3.ForAll([j], z3.Implies(
            z3.And(0 <= j, j < n),
            z3.And(z3.Select(has1, kp(j)), inner_has(kp(j), kid(j)),
                   z3.Select(arr, j) == inner_val(kp(j), kid(j)), idx(kp(j), kid(j)) == j)),
            patterns=[z3.Select(arr, j)]))
        return L

    def comprehension_call(self, fn, comp, node):
        """any/all/sum/set/list(... for x in <symbolic or concrete iterable> [if c])."""
        if len(comp.generators) != 1:
            raise Unsupported('nested comprehension')
        gen = comp.generators[0]
        it = self.force(self.eval(gen.iter))
        items = self.concrete_items(it)
        fr = self.frame
        if fn is sum and it.kind.is_set and not gen.ifs and isinstance(gen.target, ast.Name) \
                and isinstance(comp.elt, ast.Subscript) and isinstance(comp.elt.slice, ast.Name) \
                and comp.elt.slice.id == gen.target.id:
            cv = self.force(self.eval(comp.elt.value))
            if cv.kind.name == 'counter':
                # sum(counter[m] for m in set): the canonical set-sum (same term as sumover)
                call = ast.Call(func=ast.Name(id='sumover', ctx=ast.Load()),
                                args=[gen.iter, comp.elt.value], keywords=[])
                return self.spec_call('sumover', ast.copy_location(call, node))
        if items is not None:
            vals = []
            saved = dict(fr.locals)
            for item in items:
                self.assign(gen.target, item)
                ok = True
                for cnd in gen.ifs:
                    t = self.truthy(self.eval(cnd))
                    if not self.p.choose(t):
                        ok = False
                        break
                if ok:
                    vals.append(self.eval(comp.elt))
            fr.locals = saved
            return self.reduce_concrete(fn, vals)
        return self.reduce_symbolic(fn, comp, gen, it)

    def reduce_concrete(self, fn, vals):
        if fn is any:
            return SV(BOOL, z3.Or(*[self.truthy(v) for v in vals]) if vals else z3.BoolVal(False))
        if fn is all:
            return SV(BOOL, z3.And(*[self.truthy(v) for v in vals]) if vals else z3.BoolVal(True))
        if fn is sum:
            r = z3.IntVal(0)
            for v in vals:
                r = r + self.as_int(self.force(v))
            return SV(INT, r)
        if fn in (list, sorted, tuple) and fn is not sorted:
            if fn is tuple:
                return self.make_tuple(vals)
            if not vals:
                return SV(Kind('emptylist'), None, [])
            return self.new_list(self.join_kinds([v.kind for v in vals]), vals)
        if fn in (set, frozenset):
            if not vals:
                return SV(Kind('emptyset'), None, set())
            return self.new_set(self.join_kinds([v.kind for v in vals]), vals)
        raise Unsupported(f'{fn.__name__}(comprehension)')

    def reduce_symbolic(self, fn, comp, gen, it):
        """Evaluate the element expression once for an arbitrary index i, then
        generalise: the per-element results are a function F(i)."""
        p = self.p
        fr = self.frame
        ctx = self.iter_begin(it)
        n = ctx[2]
        i = z3.Int(p.fresh_name('ci'))
        saved_locals = dict(fr.locals)
        mark = len(p.pc)
        heap_before = dict(p.heap)
        nobl = len(self.obligations)
        # guard: facts derived under 0 <= i < n
        p.solver.push()
        p.qf.push()
        guard = z3.And(0 <= i, i < n)
        p.pc.append(guard)
        p.solver.add(guard)
        p.qf.add(guard)
        p.qf_ver += 1
        pos_before = p.pos
        p._counter_at_comp = p.counter
        saved_caches = (set(p.__dict__.get('_facts', set())), dict(p.__dict__.get('_divmod', {})))
        saved_more = (set(p.fact_ids), dict(p.str_defs),
                      {k: (b, dict(reg)) for k, (b, reg) in p.__dict__.get('multipliers', {}).items()})
        try:
            item = self.iter_item(ctx, i)
            self.assign(gen.target, item)
            # and/or chains in the filter / element are evaluated without forking where possible
            conds = [self.cond(c, force=True) for c in gen.ifs]
            if fn in (any, all) and isinstance(comp.elt, (ast.BoolOp, ast.UnaryOp)):
                val = SV(BOOL, self.cond(comp.elt, force=True))
            else:
                val = self.eval(comp.elt)
            val = self.force(val) if val.kind.name == 'opt' and fn in (any, all) else val
            tv = self.truthy(val) if fn in (any, all) else None
        finally:
            fr.locals = saved_locals
        if p.pos != pos_before:
            raise Unsupported('comprehension element forks the path')
        for k_, a in p.heap.items():
            if k_ in heap_before and not a.eq(heap_before[k_]):
                raise Unsupported('comprehension element has a heap effect')
        facts = p.pc[mark + 1:]
        del p.pc[mark:]
        p.solver.pop()
        p.qf.pop()
        p.qf_ver += 1
        p._facts, p._divmod = saved_caches
        p.fact_ids, p.str_defs, p.multipliers = saved_more
        # generalise over i: every fresh constant introduced while evaluating the
        # element becomes a function of i
        body_terms = facts + conds + ([tv] if tv is not None else []) + \
            ([val.t] if val.kind not in (CONST, PYTUPLE, NONE) and val.t is not None else [])
        fresh_consts = _fresh_consts_after(body_terms, p, getattr(self, '_comp_floor', None), i)
        subs = []
        for cst in fresh_consts:
            F = z3.Function('F_' + str(cst), I, cst.sort())
            subs.append((cst, F(i)))

        def gen_(t):
            return z3.substitute(t, *subs) if subs else t
        if facts:
            p.assume(z3.ForAll([i], z3.Implies(guard, z3.And(*[gen_(f) for f in facts]))))
        cond = z3.And(*[gen_(c) for c in conds]) if conds else z3.BoolVal(True)
        if fn is any:
            return SV(BOOL, z3.Exists([i], z3.And(guard, cond, gen_(tv))))
        if fn is all:
            return SV(BOOL, z3.ForAll([i], z3.Implies(z3.And(guard, cond), gen_(tv))))
        if fn is sum:
            vt = gen_(self.as_int(val))
            S = z3.Function(p.fresh_name('psum'), I, I)
            p.assume(S(0) == 0)
            term = z3.If(cond, vt, 0)
            p.assume(z3.ForAll([i], z3.Implies(guard, S(i + 1) == S(i) + term), patterns=[S(i + 1)]))
            hook = getattr(self, 'sum_hook', None)
            if hook:
                hook(S, n, i, term, ctx)
            return SV(INT, S(n))
        if fn in (max, min) and not conds and val.kind in (INT, BOOL):
            # max(elt(x) for x in xs): ValueError on an empty iterable, else the bound that is attained
            if not self.term_mode and not p.choose(n > 0):
                self.raise_(ValueError, f'{fn.__name__}() of an empty iterable')
            vt = gen_(self.as_int(val))
            m = p.fresh('ext', I)
            w = p.fresh('extat', I)
            p.assume(z3.ForAll([i], z3.Implies(guard, (vt <= m) if fn is max else (vt >= m))))
            p.assume(z3.And(0 <= w, w < n, z3.substitute(vt, (i, w)) == m))
            return SV(INT, m)
        if fn is list and it.kind.is_list and val.kind not in (CONST, PYTUPLE, NONE) and val.t is not None:
            # [elt(x) for x in xs if cond(x)]: an order-preserving selection of xs.
            # f : result index -> source index (strictly increasing, onto the selected ones)
            ek = val.kind
            elt = gen_(val.t)
            tag = p.fresh_name('')
            f = z3.Function('sel_src' + tag, I, I)
            g = z3.Function('sel_dst' + tag, I, I)
            m = p.fresh('nsel', I)
            L = self.new_ref(Kind('list', (ek,)))
            arr = p.fresh('sel', z3.ArraySort(I, sort_of(ek)))
            p.bounds[str(arr)] = p.next
            self.list_set_content(L, m, arr)
            j, j2 = z3.Int('j!sel'), z3.Int('k!sel')
            p.assume(z3.And(m >= 0, m <= n))
            p.assume(z3.ForAll([j], z3.Implies(
                z3.And(0 <= j, j < m),
                z3.And(0 <= f(j), f(j) < n, z3.substitute(cond, (i, f(j))),
                       z3.Select(arr, j) == z3.substitute(elt, (i, f(j))), g(f(j)) == j)),
                patterns=[z3.Select(arr, j)]))
            p.assume(z3.ForAll([i], z3.Implies(
                z3.And(guard, cond), z3.And(0 <= g(i), g(i) < m, f(g(i)) == i)),
                patterns=[g(i), z3.Select(ctx[3], i)] if ctx[0] == 'list' else [g(i)]))
            p.assume(z3.ForAll([j, j2], z3.Implies(z3.And(0 <= j, j < j2, j2 < m), f(j) < f(j2)),
                               patterns=[z3.MultiPattern(f(j), f(j2))]))
            # handle for specs / hooks: which source index each result element came from
            p.__dict__.setdefault('selections', []).append((L, f, g, m))
            return L
        raise Unsupported(f'{fn.__name__}(comprehension over symbolic iterable)')


def _fresh_consts_after(terms, p, floor, bound_var):
    """Uninterpreted constants with a '!<n>' suffix created during the element
    evaluation (they depend on the element)."""
    seen = {}
    start = p.__dict__.get('_comp_mark', 0)

    def walk(t):
        if t is None or not z3.is_expr(t):
            return
        if z3.is_quantifier(t):
            walk(t.body())
            return
        if z3.is_const(t) and t.decl().kind() == z3.Z3_OP_UNINTERPRETED:
            nm = str(t)
            if '!' in nm and not t.eq(bound_var):
                seen[nm] = t
            return
        for ch in t.children():
            walk(ch)
    for t in terms:
        walk(t)
    out = []
    for nm, t in seen.items():
        try:
            num = int(nm.rsplit('!', 1)[1])
        except ValueError:
            continue
        if num > p.__dict__.get('_counter_at_comp', -1):
            out.append(t)
    return out
