"""Heap access layer (mixin for Engine): object fields, lists, sets, dicts.

Boogie-style: one SMT array per field name (Ref -> Sort); container contents
are fields whose range is again an array.  References are positive integers;
``next`` is the allocation frontier; every reference stored in an *initial* or
*havocked* array is below the frontier that was current when the array was
created (instantiated at each read instead of being stated as a quantified
axiom).
"""
from __future__ import annotations

import z3

from .kinds import (Kind, INT, BOOL, STR, FLOAT, NONE, ANY, CONST, sort_of,
                    sort_name, opt_sort, opt, parse_kind)
from .core import SV, NONEV, Unsupported, PyRaise, const

I = z3.IntSort()
B = z3.BoolSort()


def strip_stores(t):
    """Return the term with every Store peeled off (the value the location had
    in the underlying base array), or None if the shape is not understood."""
    if z3.is_const(t) and t.decl().kind() == z3.Z3_OP_UNINTERPRETED:
        return t
    k = t.decl().kind() if z3.is_app(t) else None
    if k == z3.Z3_OP_STORE:
        return strip_stores(t.arg(0))
    if k == z3.Z3_OP_SELECT:
        a = strip_stores(t.arg(0))
        if a is None:
            return None
        return z3.Select(a, t.arg(1))
    if k == z3.Z3_OP_DT_ACCESSOR:
        a = strip_stores(t.arg(0))
        if a is None:
            return None
        return t.decl()(a)
    return None


def _owner_index(t):
    """index applied directly to the base array constant of a select chain: the address of the
    object / container whose cell is read"""
    owner = None
    while z3.is_app(t) and t.num_args() > 0:
        k = t.decl().kind()
        if k == z3.Z3_OP_SELECT:
            owner = t.arg(1)
            t = t.arg(0)
        elif k in (z3.Z3_OP_DT_ACCESSOR, z3.Z3_OP_STORE):
            t = t.arg(0)
        else:
            return None
    return owner


def base_const(t):
    while z3.is_app(t) and t.num_args() > 0:
        k = t.decl().kind()
        if k in (z3.Z3_OP_SELECT, z3.Z3_OP_DT_ACCESSOR, z3.Z3_OP_STORE):
            t = t.arg(0)
        else:
            return None
    return t


class HeapMixin:
    # ------------------------------------------------------------ class ids
    def class_id(self, name):
        ids = self._class_ids
        if name not in ids:
            ids[name] = len(ids) + 10
        return ids[name]

    def dtype_arr(self):
        return self.p.heap_get('@dtype', lambda: z3.ArraySort(I, I))

    def kind_tag(self, kind):
        # containers of different element kinds are different objects (a dict of
        # dicts never is one of its own values): the tag includes the element kinds
        if kind.is_list:
            # (a deque is not a list: `all:deque[T][*]` must not give new content to lists of T)
            return self.class_id(f'{kind.name}[{kind.elem!r}]')
        if kind.is_set:
            return self.class_id(f'set[{kind.elem!r}]')
        if kind.is_dict:
            return self.class_id(f'dict[{kind.key!r},{kind.val!r}]')
        return self.class_id(kind.name)

    # ------------------------------------------------------------ wellformed
    def wf_value(self, v: SV, guard=None):
        """Assume typing/allocation facts about a value just read from the heap
        (or received as a parameter / call result)."""
        k = v.kind
        g = z3.BoolVal(True) if guard is None else guard
        if k.is_ref:
            self._wf_ref(v.t, k, g)
        elif k.name == 'opt' and k.args[0].is_ref:
            os_ = sort_of(k)
            self._wf_ref(os_.val(v.t), k.args[0],
                         os_.is_some(v.t) if guard is None else z3.And(g, os_.is_some(v.t)))
        return v

    def _wf_ref(self, t, kind, guard):
        p = self.p
        facts = [t >= 1, t < p.next,
                 z3.Select(self.dtype_arr(), t) == self.kind_tag(kind)]
        b = strip_stores(t)
        if b is not None:
            c = base_const(b)
            bound = p.bounds.get(str(c)) if c is not None else None
            if bound is not None:
                # "every reference stored in this (initial / havocked) array is below the frontier
                # that was current when the array came into being" - true of the cells of objects
                # that existed then; a cell of an object allocated LATER (by a callee: address at
                # or above that frontier) holds whatever the allocator stored
                owner = _owner_index(b)
                fact = z3.And(b < bound, b >= 1)
                if owner is not None and owner.sort() == z3.IntSort():
                    fact = z3.Implies(owner < bound, fact)
                facts.append(fact)
        f = z3.And(*facts)
        p.assume(f if z3.is_true(guard) else z3.Implies(guard, f))

    # ------------------------------------------------------------ fields
    def field_key(self, attr, kind):
        return f'{attr}:{sort_name(sort_of(kind))}'

    def field_kind(self, cls, attr):
        ks = self.reg.field_kind(cls, attr)
        if ks is None:
            return None
        return parse_kind(ks)

    def field_arr(self, attr, kind):
        return self.p.heap_get(self.field_key(attr, kind),
                               lambda: z3.ArraySort(I, sort_of(kind)))

    def read_field(self, obj: SV, attr):
        kind = self.field_kind(obj.kind.name, attr)
        if kind is None:
            raise Unsupported(f'no schema for {obj.kind.name}.{attr}')
        arr = self.field_arr(attr, kind)
        v = self.wf_value(SV(kind, z3.Select(arr, obj.t)))
        inv = self.reg.field_invariant(obj.kind.name, attr)
        if inv is not None and not getattr(self, '_in_field_inv', False):
            self._in_field_inv = True
            try:
                self.p.assume(self.eval_clause(inv[1], env={'v': v}, contract=inv[2], polarity=-1))
            finally:
                self._in_field_inv = False
        return v

    def write_field(self, obj: SV, attr, val: SV):
        kind = self.field_kind(obj.kind.name, attr)
        if kind is None:
            raise Unsupported(f'no schema for {obj.kind.name}.{attr}')
        t = self.coerce(val, kind)
        key = self.field_key(attr, kind)
        arr = self.field_arr(attr, kind)
        self.p.heap[key] = z3.Store(arr, obj.t, t)

    # ------------------------------------------------------------ coercion
    def coerce(self, v: SV, kind: Kind):
        """z3 term of sort_of(kind) representing v, or Unsupported."""
        if v.kind.is_ref and v.t is not None:
            # a reference that is stored / passed somewhere may be reached by later callees
            self.p.escaped.add(str(v.t))
        if v.kind == kind:
            return v.t
        if v.kind.name == 'opt' and kind.name != 'opt' and kind != ANY:
            # optional value where a plain one is needed: fork (None is an error of the code
            # that the engine cannot represent in this field)
            fv = self.force(v)
            if fv.kind == NONE:
                raise Unsupported(f'None where {kind} is required')
            return self.coerce(fv, kind)
        if kind.name == 'opt':
            os_ = sort_of(kind)
            if v.kind == NONE:
                return os_.none
            if v.kind.name == 'opt':
                raise Unsupported(f'cannot coerce {v.kind} to {kind}')
            return os_.some(self.coerce(v, kind.args[0]))
        if v.kind.is_obj and not kind.is_ref and kind != ANY:
            # object used as a dict key / set element whose declared kind is a value:
            # the schema's key_view says which field carries its hash/equality
            sch = self.reg.schemas.get(v.kind.name)
            kv = getattr(sch, 'key_view', None) if sch else None
            if kv is not None:
                return self.coerce(self.read_field(v, kv), kind)
        if kind == STR and v.kind == BOOL and self.options.get('false_as_empty_str'):
            # a "str | bool" slot: False is the empty (falsy) text, True a truthy sentinel
            return z3.If(v.t, z3.StringVal('<True>'), z3.StringVal(''))
        if kind == FLOAT and v.kind == INT:
            return z3.ToReal(v.t)
        if kind == INT and v.kind == BOOL:
            return z3.If(v.t, 1, 0)
        if kind.is_ref and v.kind.is_ref:
            if kind.name == v.kind.name or (kind.is_list and v.kind.is_list) \
                    or (kind.is_set and v.kind.is_set) or (kind.is_dict and v.kind.is_dict):
                return v.t
            # subclass?
            if kind.is_obj and v.kind.is_obj and self.is_subkind(v.kind, kind):
                return v.t
        if kind.name == 'tuple' and v.kind.name in ('tuple', 'pytuple'):
            items = self.tuple_items(v)
            from .kinds import tuple_sort
            ts, mk, accs = tuple_sort([sort_of(a) for a in kind.args])
            return mk(*[self.coerce(it, ka) for it, ka in zip(items, kind.args)])
        if kind == ANY:
            return self.p.fresh('any', sort_of(ANY))
        raise Unsupported(f'cannot coerce {v.kind} to {kind}')

    def is_subkind(self, k, base):
        rc, rb = self.reg.real_class(k.name), self.reg.real_class(base.name)
        return rc is not None and rb is not None and issubclass(rc, rb)

    # ------------------------------------------------------------ allocation
    def new_ref(self, kind):
        r = self.p.alloc()
        key = '@dtype'
        self.p.heap[key] = z3.Store(self.dtype_arr(), r, self.kind_tag(kind))
        if not kind.is_obj:
            # a container allocated by the function under verification: until its reference is
            # stored or passed on (coerce) no callee can reach it
            self.p.local_fresh[str(r)] = r
        return SV(kind, r)

    # ------------------------------------------------------------ lists
    def len_arr(self):
        return self.p.heap_get('@len', lambda: z3.ArraySort(I, I))

    def elems_arr(self, ek):
        s = sort_of(ek)
        return self.p.heap_get('@elems:' + sort_name(s),
                               lambda: z3.ArraySort(I, z3.ArraySort(I, s)))

    def list_len(self, lv):
        n = z3.Select(self.len_arr(), lv.t)
        self.p.assume(n >= 0)
        return n

    def list_elems(self, lv):
        return z3.Select(self.elems_arr(lv.kind.elem), lv.t)

    def list_get(self, lv, i):
        ek = lv.kind.elem
        v = SV(ek, z3.Select(self.list_elems(lv), i))
        # typing/allocation facts hold for positions inside the list only
        return self.wf_value(v, guard=z3.And(i >= 0, i < self.list_len(lv)))

    def list_set_content(self, lv, n, elems):
        ek = lv.kind.elem
        s = sort_of(ek)
        self.p.heap['@len'] = z3.Store(self.len_arr(), lv.t, n)
        self.p.heap['@elems:' + sort_name(s)] = z3.Store(self.elems_arr(ek), lv.t, elems)

    def new_list(self, ek, items=()):
        lv = self.new_ref(Kind('list', (ek,)))
        s = sort_of(ek)
        arr = z3.K(I, self.default_term(ek))
        for i, it in enumerate(items):
            arr = z3.Store(arr, i, self.coerce(it, ek))
        self.list_set_content(lv, z3.IntVal(len(items)), arr)
        return lv

    def default_term(self, k):
        s = sort_of(k)
        if k == INT or k.is_ref:
            return z3.IntVal(0)
        if k == BOOL or k == NONE:
            return z3.BoolVal(False)
        if k == STR:
            return z3.StringVal('')
        if k == FLOAT:
            return z3.RealVal(0)
        return z3.Const('dflt_' + sort_name(s), s)

    def list_append(self, lv, v):
        n = self.list_len(lv)
        el = z3.Store(self.list_elems(lv), n, self.coerce(v, lv.kind.elem))
        self.list_set_content(lv, n + 1, el)

    def shifted(self, arr, by, ek):
        """Array a' with a'[i] = arr[i - by] (fresh array + quantified link)."""
        s = sort_of(ek)
        new = self.p.fresh('shift', z3.ArraySort(I, s))
        self.p.bounds[str(new)] = self.p.next
        j = z3.Int('j!sh')
        self.p.assume(z3.ForAll([j], z3.Select(new, j) == z3.Select(arr, j - by),
                                patterns=[z3.Select(new, j)]))
        return new

    # ------------------------------------------------------------ sets
    def mem_arr(self, ek):
        s = sort_of(ek)
        return self.p.heap_get('@mem:' + sort_name(s),
                               lambda: z3.ArraySort(I, z3.ArraySort(s, B)))

    def set_mem(self, sv):
        return z3.Select(self.mem_arr(sv.kind.elem), sv.t)

    def set_store(self, sv, mem):
        s = sort_of(sv.kind.elem)
        self.p.heap['@mem:' + sort_name(s)] = z3.Store(self.mem_arr(sv.kind.elem), sv.t, mem)

    def new_set(self, ek, items=()):
        sv = self.new_ref(Kind('set', (ek,)))
        mem = z3.K(sort_of(ek), z3.BoolVal(False))
        for it in items:
            mem = z3.Store(mem, self.coerce(it, ek), z3.BoolVal(True))
        self.set_store(sv, mem)
        return sv

    # ------------------------------------------------------------ dicts
    def has_arr(self, kk):
        s = sort_of(kk)
        return self.p.heap_get('@has:' + sort_name(s),
                               lambda: z3.ArraySort(I, z3.ArraySort(s, B)))

    def val_arr(self, kk, vk):
        ks, vs = sort_of(kk), sort_of(vk)
        return self.p.heap_get(f'@val:{sort_name(ks)}:{sort_name(vs)}',
                               lambda: z3.ArraySort(I, z3.ArraySort(ks, vs)))

    def dict_has(self, dv):
        return z3.Select(self.has_arr(dv.kind.key), dv.t)

    def dict_vals(self, dv):
        return z3.Select(self.val_arr(dv.kind.key, dv.kind.val), dv.t)

    def dict_store(self, dv, has, vals):
        kk, vk = dv.kind.key, dv.kind.val
        ks, vs = sort_of(kk), sort_of(vk)
        self.p.heap['@has:' + sort_name(ks)] = z3.Store(self.has_arr(kk), dv.t, has)
        self.p.heap[f'@val:{sort_name(ks)}:{sort_name(vs)}'] = \
            z3.Store(self.val_arr(kk, vk), dv.t, vals)

    def new_dict(self, kk, vk, items=(), name='dict'):
        dv = self.new_ref(Kind(name, (kk, vk)) if name != 'counter' else Kind('counter', (kk,)))
        has = z3.K(sort_of(kk), z3.BoolVal(False))
        vals = z3.K(sort_of(kk), self.default_term(vk))
        for k_, v_ in items:
            kt = self.coerce(k_, kk)
            has = z3.Store(has, kt, z3.BoolVal(True))
            vals = z3.Store(vals, kt, self.coerce(v_, vk))
        self.dict_store(dv, has, vals)
        return dv

    def dict_get(self, dv, key):
        kt = self.coerce(key, dv.kind.key)
        return self.wf_value(SV(dv.kind.val, z3.Select(self.dict_vals(dv), kt)),
                             guard=z3.Select(self.dict_has(dv), kt))

    # ------------------------------------------------------------ tuples
    def tuple_items(self, tv):
        if tv.kind.name == 'pytuple':
            return list(tv.py)
        if tv.kind == CONST and isinstance(tv.py, (tuple, list)):
            return [self.lift(x) for x in tv.py]
        from .kinds import tuple_sort
        ts, mk, accs = tuple_sort([sort_of(a) for a in tv.kind.args])
        return [self.wf_value(SV(k, z3.simplify(acc(tv.t)))) for k, acc in zip(tv.kind.args, accs)]

    def make_tuple(self, items):
        from .kinds import PYTUPLE
        return SV(PYTUPLE, None, list(items))
