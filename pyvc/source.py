"""Locate the FunctionDef of a real function object in the real source file.

The file is re-read and re-parsed on every run; nothing is cached on disk.
"""
from __future__ import annotations

import ast
import importlib
import inspect
import sys


class SourceIndex:
    def __init__(self):
        self.files = {}     # path -> {qualname: FunctionDef}
        self.texts = {}

    def _index(self, path):
        if path in self.files:
            return self.files[path]
        text = open(path).read()
        self.texts[path] = text
        tree = ast.parse(text, path)
        idx = {}

        def walk(node, prefix):
            for ch in ast.iter_child_nodes(node):
                if isinstance(ch, (ast.FunctionDef, ast.AsyncFunctionDef)):
                    idx[prefix + ch.name] = ch
                    walk(ch, prefix + ch.name + '.<locals>.')
                elif isinstance(ch, ast.ClassDef):
                    walk(ch, prefix + ch.name + '.')
                elif isinstance(ch, (ast.If, ast.Try, ast.With)):
                    walk(ch, prefix)
        walk(tree, '')
        self.files[path] = idx
        return idx

    def get(self, func):
        """FunctionDef for a python function object (unwrapping decorators)."""
        f = inspect.unwrap(func)
        if isinstance(f, (staticmethod, classmethod)):
            f = f.__func__
        path = inspect.getsourcefile(f)
        if path is None:
            return None
        idx = self._index(path)
        if f.__name__ == '<lambda>':
            # a lambda object: the ast.Lambda on its line, wrapped as a one-return function
            tree = ast.parse(self.texts[path], path)
            want = f.__code__.co_varnames[:f.__code__.co_argcount]
            for n in ast.walk(tree):
                if isinstance(n, ast.Lambda) and n.lineno == f.__code__.co_firstlineno \
                        and tuple(a.arg for a in n.args.args) == tuple(want):
                    fd = ast.FunctionDef(name='<lambda>', args=n.args,
                                         body=[ast.Return(value=n.body, lineno=n.lineno, col_offset=0)],
                                         decorator_list=[], lineno=n.lineno, col_offset=0)
                    return ast.fix_missing_locations(fd)
            return None
        node = idx.get(f.__qualname__)
        if node is None:
            # fall back on line number
            for n in idx.values():
                if n.lineno == f.__code__.co_firstlineno or any(
                        d.lineno == f.__code__.co_firstlineno for d in n.decorator_list):
                    if n.name == f.__name__:
                        return n
        return node

    def path_of(self, func):
        return inspect.getsourcefile(inspect.unwrap(func))


def resolve(target):
    """'pkg.mod:Class.method' -> (module, owner class or None, raw attribute, function)."""
    modname, qn = target.split(':')
    mod = importlib.import_module(modname)
    obj = mod
    owner = None
    parts = qn.split('.')
    for i, part in enumerate(parts):
        if inspect.isclass(obj):
            owner = obj
            raw = inspect.getattr_static(obj, part)
        else:
            raw = getattr(obj, part)
        obj = raw
        if isinstance(raw, (staticmethod, classmethod)):
            obj = raw.__func__
        elif isinstance(raw, property):
            obj = raw.fget
    func = inspect.unwrap(obj) if callable(obj) else obj
    return mod, owner, raw, func
