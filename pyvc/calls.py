"""Calls: resolution, contracts at call sites, inlining, built-ins, clauses."""
from __future__ import annotations

import ast
import builtins as _builtins
import inspect
import re as _re
import types
import z3

from .kinds import (Kind, INT, BOOL, STR, FLOAT, NONE, ANY, CONST, PYTUPLE, sort_of,
                    sort_name, parse_kind, opt)
from .core import (SV, NONEV, const, Unsupported, PyRaise, Infeasible, ReturnEx,
                   BreakEx, ContinueEx)
from . import pymodel as pm

I = z3.IntSort()
B = z3.BoolSort()


class ConcreteIter:
    def __init__(self, items):
        self.items = items


class SymIter:
    """Symbolic iterable produced by dict.items()/values()/keys()/enumerate..."""

    def __init__(self, kind, base):
        self.kind = kind
        self.base = base

    def begin(self, eng):
        ctx = eng.order_of(self.base)
        return ('symiter', self, ctx[2], ctx)


class SpecFn:
    def __init__(self, name):
        self.name = name


SPEC_NAMES = {n: SpecFn(n) for n in ('implies', 'iff', 'forall', 'exists', 'old', 'fresh_obj',
                                     'unchanged', 'typeis', 'int_text', 'str_of',
                                     'sumover', 'sumupto', 'oldget', 'keyat', 'indexof')}
_clause_cache = {}


def parse_clause(src):
    if src not in _clause_cache:
        _clause_cache[src] = ast.parse(src.strip(), mode='eval').body
    return _clause_cache[src]


class CallMixin:
    spec_names = SPEC_NAMES
    sk_idx = {}
    in_message = 0

    # ================================================================ call expression
    def e_Call(self, e):
        if self.is_log_call(e):
            return NONEV
        # super().__init__(...) / super(C, self).__init__(...)
        if isinstance(e.func, ast.Attribute) and isinstance(e.func.value, ast.Call) \
                and isinstance(e.func.value.func, ast.Name) and e.func.value.func.id == 'super':
            return self.super_call(e)
        if isinstance(e.func, ast.Name) and e.func.id in SPEC_NAMES \
                and e.func.id not in self.frame.locals:
            return self.spec_call(e.func.id, e)
        if isinstance(e.func, ast.Name) and e.func.id in ('eval', 'exec') \
                and e.func.id not in self.frame.locals:
            qn0 = self.frame.qualname.split('::')[0].split('#')[0]
            sink = self.reg.externals.get(('sink', e.func.id, qn0)) \
                or self.reg.externals.get(('sink', e.func.id))
            if sink is None:
                raise Unsupported(f'{e.func.id}() is not a declared sink')
            return sink(self, e)
        if isinstance(e.func, ast.Attribute) and e.func.attr == 'update' and len(e.args) == 1 \
                and not e.keywords and isinstance(e.args[0], (ast.Dict, ast.List, ast.Tuple, ast.Set)):
            r = self.update_with_literal(e)
            if r is not None:
                return r
        fv = self.eval(e.func)
        # generator-consuming builtins get the AST
        if fv.kind == CONST and fv.py in (any, all, sum, set, list, sorted, tuple, min, max,
                                          frozenset, dict) \
                and len(e.args) >= 1 and isinstance(e.args[0], (ast.GeneratorExp, ast.ListComp,
                                                                ast.SetComp)):
            return self.comprehension_call(fv.py, e.args[0], e)
        args = []
        for a in e.args:
            if isinstance(a, ast.Starred):
                sv = self.force(self.eval(a.value))
                items = self.concrete_items(sv)
                if items is None:
                    raise Unsupported('star-args of a symbolic sequence')
                args.extend(items)
            elif isinstance(a, (ast.ListComp, ast.GeneratorExp, ast.SetComp)) and not self.term_mode:
                try:
                    args.append(self.eval(a))
                except Unsupported as ex:
                    # a comprehension the engine cannot model, built only to be handed to a callee:
                    # passed on as an opaque value (usable only by a contract that does not look at
                    # it); evaluating its elements is assumed to have no effect on verified state
                    from .exprs import OpaqueLiteral
                    self.notes['havoc'].add(f'{self.frame.qualname}: comprehension argument at line '
                                            f'{self.cur_line} not modelled ({ex}); passed as opaque')
                    args.append(const(OpaqueLiteral([])))
            else:
                args.append(self.eval(a))
        kwargs = {}
        for kw in e.keywords:
            if kw.arg is None:
                raise Unsupported('**kwargs call')
            kwargs[kw.arg] = self.eval(kw.value)
        return self.call_value(fv, args, kwargs, e)

    def update_with_literal(self, e):
        """d.update({k: v, ...}) / counter.update({k: n}) / counter.update([k, ...]) /
        set.update([x, ...]) with a literal argument: applied element by element."""
        base = self.force(self.eval(e.func.value))
        lit = e.args[0]
        k = base.kind
        if k.is_dict:
            if isinstance(lit, ast.Dict):
                if any(x is None for x in lit.keys):
                    raise Unsupported('dict unpacking in update literal')
                pairs = [(self.eval(a), self.eval(b)) for a, b in zip(lit.keys, lit.values)]
            elif k.name == 'counter':
                pairs = [(self.eval(a), SV(INT, z3.IntVal(1))) for a in lit.elts]
            else:
                return None
            for kv, vv in pairs:
                kt = self.coerce(self.force(kv), k.key)
                has, vals = self.dict_has(base), self.dict_vals(base)
                if k.name == 'counter':
                    cur = z3.If(z3.Select(has, kt), z3.Select(vals, kt), 0)
                    nv = cur + self.as_int(self.force(vv))
                else:
                    nv = self.coerce(vv, k.val)
                self.dict_store(base, z3.Store(has, kt, z3.BoolVal(True)), z3.Store(vals, kt, nv))
            return NONEV
        if k.is_set and not isinstance(lit, ast.Dict):
            for a in lit.elts:
                t = self.coerce(self.force(self.eval(a)), k.elem)
                self.set_store(base, z3.Store(self.set_mem(base), t, z3.BoolVal(True)))
            return NONEV
        return None

    def super_call(self, e):
        fr = self.frame
        if fr.cls is None:
            raise Unsupported('super() outside a method')
        selfv = fr.locals.get(fr.self_name) if getattr(fr, 'self_name', None) else None
        if selfv is None:
            raise Unsupported('super() without self')
        attr = e.func.attr
        rc = self.reg.real_class(selfv.kind.name) if selfv.kind.is_obj else None
        mro = list((rc or fr.cls).__mro__)
        start = mro.index(fr.cls) + 1 if fr.cls in mro else 1
        target = owner = None
        for c in mro[start:]:
            if attr in c.__dict__:
                target, owner = c.__dict__[attr], c
                break
        if target is None or owner is object:
            return NONEV
        args = [self.eval(a) for a in e.args]
        kwargs = {kw.arg: self.eval(kw.value) for kw in e.keywords}
        if isinstance(target, (staticmethod, classmethod)):
            raise Unsupported('super() static/class method')
        return self.call_function(target, [selfv] + args, kwargs, owner=owner)

    # ================================================================ dispatch
    def call_value(self, fv: SV, args, kwargs, node=None) -> SV:
        from .engine import BoundSym, Closure
        fv = self.force(fv)
        if fv.kind != CONST:
            if fv.kind.name == 'callable':
                # an attribute holding a callback (schema kind `callable`): assumed to have no
                # effect on the state under verification; recorded in the evidence
                self.notes['havoc'].add(f'{self.frame.qualname}: opaque callback called at line '
                                        f'{self.cur_line} (assumed effect-free on verified state)')
                return NONEV
            if fv.kind.is_obj:
                return self.call_method(fv, '__call__', args, kwargs)
            raise Unsupported(f'call of {fv.kind}')
        py = fv.py
        if isinstance(py, BoundSym):
            if isinstance(py.func, tuple):
                return self.builtin_method(py.selfv, py.func[1], args, kwargs)
            return self.call_function(py.func, [py.selfv] + list(args), kwargs, owner=py.cls)
        if isinstance(py, Closure):
            return self.call_closure(py, args, kwargs)
        if isinstance(py, SpecFn):
            raise Unsupported(f'spec builtin {py.name} used as a value')
        if inspect.isclass(py):
            return self.construct(py, args, kwargs)
        ext0 = self.reg.externals.get(py) if _hashable(py) else None
        if ext0 is not None:
            return ext0(self, args, kwargs)
        if isinstance(py, types.FunctionType) or hasattr(py, '__wrapped__'):
            return self.call_function(py, args, kwargs)
        if isinstance(py, types.MethodType):
            # bound method of a real object (e.g. classmethod via class)
            slf = py.__self__
            return self.call_function(py.__func__, [self.lift(slf)] + list(args), kwargs,
                                      owner=slf if inspect.isclass(slf) else type(slf))
        ext = self.reg.externals.get(py) if _hashable(py) else None
        if ext is not None:
            return ext(self, args, kwargs)
        name = getattr(py, '__name__', None)
        if name and getattr(_builtins, name, None) is py:
            h = getattr(self, 'b_' + name, None)
            if h is not None:
                return h(args, kwargs)
        if isinstance(py, types.MethodDescriptorType) \
                and py.__objclass__ in (set, frozenset, dict, list, str) and args:
            # unbound form  set.intersection(a, b)  ==  a.intersection(b)
            return self.builtin_method(self.force(args[0]), py.__name__, list(args[1:]), kwargs)
        # methods of real constant objects (regex patterns ...)
        if isinstance(py, types.BuiltinMethodType) and isinstance(py.__self__, _re.Pattern):
            return self.regex_method(py.__self__, py.__name__, args, kwargs)
        if isinstance(py, types.BuiltinMethodType) and isinstance(py.__self__, (dict, list, tuple, str, set, frozenset)):
            return self.const_method(py, args, kwargs)
        raise Unsupported(f'call of {py!r}')

    def const_lookup(self, py, args):
        """CONST_DICT.get(sym[, default]) / CONST_LIST.index(sym) with a symbolic str/int key:
        an if-then-else chain over the entries of the real module constant."""
        obj, name = py.__self__, py.__name__
        key = self.force(args[0])
        if key.kind not in (STR, INT):
            return None
        if name == 'get' and isinstance(obj, dict) and len(args) in (1, 2):
            default = self.force(args[1]) if len(args) == 2 else NONEV
            items = [(k, self.lift(v)) for k, v in obj.items()
                     if isinstance(k, str if key.kind == STR else int)]
            kinds = {v.kind for _, v in items} | {default.kind}
            if len(kinds) != 1 or default.kind not in (INT, STR, BOOL):
                return None
            t = default.t
            for k, v in reversed(items):
                t = z3.If(key.t == self.lift(k).t, v.t, t)
            return SV(default.kind, t)
        if name == 'index' and isinstance(obj, (list, tuple)) and len(args) == 1:
            items = [(i, x) for i, x in enumerate(obj) if isinstance(x, str if key.kind == STR else int)]
            found = z3.Or(*[key.t == self.lift(x).t for _, x in items]) if items else z3.BoolVal(False)
            if self.term_mode:
                t = z3.IntVal(-1)
            elif not self.p.choose(found):
                self.raise_(ValueError, 'not in list')
            else:
                t = z3.IntVal(-1)
            for i, x in reversed(items):
                t = z3.If(key.t == self.lift(x).t, i, t)
            return SV(INT, t)
        return None

    def const_method(self, py, args, kwargs):
        if py.__name__ in ('get', 'index') and args and not kwargs:
            a0 = self.force(args[0])
            args = [a0] + list(args[1:])
            if a0.kind in (STR, INT) and not z3.is_string_value(z3.simplify(a0.t)) \
                    and not z3.is_int_value(z3.simplify(a0.t)):
                r = self.const_lookup(py, args)
                if r is not None:
                    return r
        vals = []
        for a in args:
            a = self.force(a)
            if a.kind == CONST:
                vals.append(a.py)
            elif a.kind == STR and z3.is_string_value(z3.simplify(a.t)):
                vals.append(z3.simplify(a.t).as_string())
            elif a.kind == INT and z3.is_int_value(z3.simplify(a.t)):
                vals.append(z3.simplify(a.t).as_long())
            elif a.kind == NONE:
                vals.append(None)
            else:
                raise Unsupported(f'method {py.__name__} of constant with symbolic argument')
        if py.__name__ in ('items', 'keys', 'values', 'get', 'index', 'count', 'copy',
                           'startswith', 'endswith', 'join', 'format', 'split', 'strip',
                           'lower', 'upper', 'replace'):
            r = py(*vals)
            if isinstance(r, (type({}.items()), type({}.keys()), type({}.values()))):
                r = list(r)
            return self.lift(r)
        raise Unsupported(f'mutating/unknown method {py.__name__} on module constant')

    def call_method(self, obj: SV, name, args, kwargs=None):
        obj = self.force(obj)
        if not obj.kind.is_obj:
            return self.builtin_method(obj, name, args, kwargs or {})
        cls = self.reg.real_class(obj.kind.name)
        if cls is None:
            raise Unsupported(f'no class for {obj.kind.name}')
        raw = self.static_lookup(cls, name)
        if raw is None:
            raise Unsupported(f'{obj.kind.name} has no method {name}')
        if isinstance(raw, staticmethod):
            return self.call_function(raw.__func__, list(args), kwargs or {}, owner=cls)
        if isinstance(raw, classmethod):
            return self.call_function(raw.__func__, [const(cls)] + list(args), kwargs or {}, owner=cls)
        return self.call_function(raw, [obj] + list(args), kwargs or {}, owner=cls)

    # ================================================================ python functions
    def target_of(self, func, owner=None):
        f = inspect.unwrap(func)
        return f'{f.__module__}:{f.__qualname__}'

    def bind(self, func, args, kwargs):
        f = inspect.unwrap(func)
        sig = inspect.signature(f)
        try:
            ba = sig.bind(*args, **kwargs)
        except TypeError as ex:
            raise Unsupported(f'cannot bind call of {f.__qualname__}: {ex}')
        env = {}
        for name, prm in sig.parameters.items():
            if name in ba.arguments:
                v = ba.arguments[name]
                if prm.kind == prm.VAR_POSITIONAL:
                    v = self.make_tuple(list(v))
                elif prm.kind == prm.VAR_KEYWORD:
                    # carried as a constant dict of symbolic values: usable by a callee contract
                    # that does not look at it; a body that is inlined will not get far with it
                    v = const(dict(v))
                env[name] = v
            elif prm.kind == prm.VAR_POSITIONAL:
                env[name] = self.make_tuple([])
            elif prm.kind == prm.VAR_KEYWORD:
                env[name] = const({})
            else:
                env[name] = self.lift(prm.default)
        return env

    def call_function(self, func, args, kwargs, owner=None) -> SV:
        f = inspect.unwrap(func)
        if getattr(f, '__pyvc_spec__', False):
            return self.inline(getattr(f, '__wrapped_spec__', f), args, kwargs, owner, spec=True)
        un = getattr(f, '__pyvc_uninterp__', None)
        if un is not None:
            sorts, result = un
            ks = [parse_kind(s) for s in sorts]
            rk = parse_kind(result)
            F = z3.Function('U_' + f.__name__, *[sort_of(k) for k in ks], sort_of(rk))
            ts = []
            for a, k in zip(args, ks):
                a = self.force(a) if k.name != 'opt' else a
                ts.append(self.coerce(a, k))
            return self.wf_value(SV(rk, F(*ts)))
        tgt = self.target_of(f)
        if not self.term_mode and len(self.frames) == 1 and self.frame.contract is not None \
                and self.frame.contract.callsite:
            self.callsite_obligations(tgt, f, args, kwargs)
        c = self.select_contract(tgt, f, args, kwargs)
        if c is not None and not self.term_mode:
            return self.apply_contract(c, f, args, kwargs)
        if c is not None and self.term_mode and c.pure:
            return self.apply_contract(c, f, args, kwargs)
        if self.term_mode:
            # spec code calling real pure helpers: inline in term mode
            return self.inline(f, args, kwargs, owner, spec=True)
        return self.inline(f, args, kwargs, owner)

    def callsite_obligations(self, tgt, f, args, kwargs):
        """`callsite={'Callee.name': [clauses]}` of the function under verification: each clause is an
        assertion placed before EVERY call of that callee in the body (also calls added later), over
        the caller's locals and the bound arguments of the call (as a_<parameter>)."""
        fr = self.frame
        cc = fr.contract
        qn = tgt.split(':')[1]
        clauses = cc.callsite.get(qn) or cc.callsite.get(qn.split('.')[-1])
        if not clauses:
            return
        env = dict(fr.locals)
        for k, v in self.bind(f, args, kwargs).items():
            env['a_' + k] = v
        key = 'cs:' + qn
        ordk = fr.call_ordinals.get(key, 0)
        fr.call_ordinals[key] = ordk + 1
        saved_old = self.old
        try:
            for i, src in enumerate(clauses):
                t = self.eval_clause(src, env=env, contract=cc, polarity=1)
                self.prove(f'{fr.qualname}::callsite({qn}#{ordk})[{i}]', t)
        finally:
            self.old = saved_old

    def select_contract(self, tgt, f, args, kwargs):
        cands = [c for c in self.reg.by_target.get(tgt, ()) if not c.verify_only]
        if not cands:
            return None
        if len(cands) == 1:
            return cands[0]
        try:
            env = self.bind(f, args, kwargs)
        except Unsupported:
            return cands[0]
        for c in cands:
            ok = True
            for n, ks in c.sorts.items():
                if n == 'result' or n not in env:
                    continue
                want = parse_kind(ks)
                if want.name == 'pytuple':
                    if not (env[n].kind.name == 'pytuple' and len(env[n].py) == len(want.args)):
                        ok = False
                        break
                    continue
                if not self.kind_accepts(want, env[n].kind):
                    ok = False
                    break
            if ok:
                return c
        raise Unsupported(f'no contract variant of {tgt} accepts '
                          f'{[str(a.kind) for a in args]}')

    def kind_accepts(self, want, have):
        if want == have or have == CONST:
            return True
        if want.name == 'opt':
            return have == NONE or self.kind_accepts(want.args[0], have) or \
                (have.name == 'opt' and self.kind_accepts(want.args[0], have.args[0]))
        if have.name == 'opt':
            return False
        if want == FLOAT and have in (INT, BOOL):
            return True
        if want == INT and have == BOOL:
            return True
        if want.is_obj and have.is_obj:
            return want.name == have.name or self.is_subkind(have, want)
        if want.is_list and (have.is_list or have.name == 'emptylist'):
            return True
        if want.is_set and (have.is_set or have.name == 'emptyset'):
            return True
        if want.is_dict and (have.is_dict or have.name == 'emptydict'):
            return True
        if want.name == 'tuple' and have.name in ('tuple', 'pytuple'):
            return True
        return False

    def inline(self, f, args, kwargs, owner=None, spec=False):
        from .engine import Frame
        node = self.src.get(f)
        if node is None:
            raise Unsupported(f'no source for {f!r}')
        if len(self.frames) > self.max_depth + (8 if spec else 0):
            raise Unsupported(f'inline depth exceeded at {f.__qualname__}')
        if _has_yield(node):
            raise Unsupported(f'generator function {f.__qualname__} has no contract')
        env = self.bind(f, args, kwargs)
        if not spec:
            self.notes['inlined'].add(self.target_of(f))
        if owner is None and '.' in f.__qualname__:
            owner = _owner_class(f)
        fr = Frame(f, f.__globals__, env, qualname=f.__qualname__, contract=None, cls=owner)
        params = list(inspect.signature(f).parameters)
        fr.self_name = params[0] if params and owner is not None else None
        fr.param_names = tuple(params)
        self.frames.append(fr)
        if spec:
            self.term_mode += 1
        try:
            if spec:
                return self.exec_spec_body(node.body)
            try:
                self.exec_block(node.body)
            except ReturnEx as r:
                return r.value
            return NONEV
        finally:
            if spec:
                self.term_mode -= 1
            self.frames.pop()

    def exec_spec_body(self, body):
        """Spec functions: straight-line assignments, if/else with returns, one
        return expression.  Evaluated without forking (If-terms)."""
        for i, s in enumerate(body):
            if isinstance(s, ast.Expr) and isinstance(s.value, ast.Constant):
                continue
            if isinstance(s, ast.Assign) and len(s.targets) == 1 and isinstance(s.targets[0], ast.Name):
                self.frame.locals[s.targets[0].id] = self.eval(s.value)
                continue
            if isinstance(s, ast.Return):
                return self.eval(s.value)
            if isinstance(s, ast.If):
                c = self.truthy(self.eval(s.test))
                saved = dict(self.frame.locals)
                a = self.exec_spec_body(s.body + body[i + 1:])
                self.frame.locals = dict(saved)
                b = self.exec_spec_body(s.orelse + body[i + 1:])
                cz = z3.simplify(c)
                if z3.is_true(cz):
                    return a
                if z3.is_false(cz):
                    return b
                if a.kind == b.kind and a.kind not in (CONST, PYTUPLE):
                    return SV(a.kind, z3.If(c, a.t, b.t))
                k = self.join_kinds([a.kind, b.kind])
                return SV(k, z3.If(c, self.coerce(a, k), self.coerce(b, k)))
            raise Unsupported(f'spec function statement {type(s).__name__} (line {s.lineno})')
        return NONEV

    def call_closure(self, clo, args, kwargs):
        from .engine import Frame
        node = clo.node
        a = node.args
        names = [x.arg for x in a.args]
        env = dict(clo.frame.locals)
        defaults = [None] * (len(names) - len(a.defaults)) + list(a.defaults)
        for i, n in enumerate(names):
            if i < len(args):
                env[n] = args[i]
            elif n in kwargs:
                env[n] = kwargs[n]
            elif defaults[i] is not None:
                self.frames.append(clo.frame)
                try:
                    env[n] = self.eval(defaults[i])
                finally:
                    self.frames.pop()
            else:
                raise Unsupported('closure call arity')
        fr = Frame(clo.frame.func, clo.frame.globals, env, qualname=clo.frame.qualname + '.<lambda>',
                   contract=None, cls=clo.frame.cls)
        fr.self_name = getattr(clo.frame, 'self_name', None)
        self.frames.append(fr)
        try:
            if isinstance(node, ast.Lambda):
                return self.eval(node.body)
            try:
                self.exec_block(node.body)
            except ReturnEx as r:
                return r.value
            return NONEV
        finally:
            self.frames.pop()

    # ================================================================ construction
    def construct(self, cls, args, kwargs):
        if issubclass(cls, BaseException):
            return const(cls(*[None for _ in args]) if False else cls)
        if cls in (int, str, bool, list, set, dict, tuple, frozenset, float):
            return getattr(self, 'b_' + cls.__name__)(args, kwargs)
        import collections
        if cls is collections.Counter and not args and not kwargs:
            return SV(Kind('emptydict'), None, {})
        if cls is collections.deque and not args and not kwargs:
            return SV(Kind('emptylist'), None, [])
        ext = self.reg.externals.get(cls)
        if ext is not None:
            return ext(self, args, kwargs)
        name = self.reg.schema_for_class(cls)
        if name is None:
            raise Unsupported(f'construction of {cls.__qualname__} (no schema)')
        init = self.static_lookup(cls, '__init__')
        tgt = f'{cls.__module__}:{cls.__qualname__}.__new__'
        cnew = self.reg.contracts.get(f'{cls.__module__}:{cls.__qualname__}')
        if cnew is not None:
            # a contract on the class itself summarises construction
            return self.apply_contract(cnew, init, [None] + list(args), kwargs, constructing=name)
        obj = self.new_ref(Kind(name))
        if init is not None:
            self.call_function(init, [obj] + list(args), kwargs, owner=_defining_class(cls, '__init__'))
        return obj

    # ================================================================ contracts at call sites
    def apply_contract(self, c, f, args, kwargs, constructing=None):
        p = self.p
        fr = self.frame
        if constructing:
            selfv = None
            env = self.bind(f, [NONEV] + list(args[1:]), kwargs)
            selfname = next(iter(inspect.signature(inspect.unwrap(f)).parameters))
        else:
            env = self.bind(f, args, kwargs)
        # coerce arguments to declared sorts (opt wrapping etc.)
        for n, ks in c.sorts.items():
            if n in env and n != 'result' and not (constructing and n == selfname):
                want = parse_kind(ks)
                v = env[n]
                if want.name == 'pytuple':
                    continue
                if v.kind.name in ('emptylist', 'emptydict', 'emptyset'):
                    v = self.materialise(v, want.args[0] if want.name == 'opt' else want)
                if v.kind.name == 'opt' and want.name != 'opt' and not self.term_mode:
                    v = self.force(v)
                if v.kind == NONE and want.name not in ('opt', 'none', 'any'):
                    self.prove(f'{fr.qualname}::pre({c.short}#{fr.call_ordinals.get(c.short, 0)})'
                               f'[{n} is not None]', z3.BoolVal(False))
                    raise Infeasible()
                if v.kind != want and v.kind != CONST:
                    try:
                        env[n] = SV(want, self.coerce(v, want))
                    except Unsupported:
                        raise Unsupported(f'argument {n} of {c.short}: {v.kind} is not {want}')
        ordk = fr.call_ordinals.get(c.short, 0)
        fr.call_ordinals[c.short] = ordk + 1
        self.notes['assumed' if c.assumed else 'used'] = self.notes.get('assumed' if c.assumed else 'used', set())
        self.notes['assumed' if c.assumed else 'used'].add(c.target)
        old_heap = p.heap_snapshot()
        if constructing:
            obj = self.new_ref(Kind(constructing))
            env[selfname] = obj
        penv = dict(env)
        saved_old = self.old
        self.old = (old_heap, penv)
        try:
            for i, rq in enumerate(c.requires + c.domain):
                t = self.eval_clause(rq, env=penv, contract=c, polarity=1)
                self.prove(f'{fr.qualname}::pre({c.short}#{ordk})[{i}]', t)
            for exc, cond in c.raises.items():
                t = self.eval_clause(cond, env=penv, contract=c)
                if p.choose(t):
                    raise PyRaise(self.exc_class(exc, c), None, f'{c.short} raises {exc}')
            never = None
            if c.may_raise and c.returns_when:
                # pre-state conditions under which the callee is known to return normally
                never = z3.And(*[self.eval_clause(w, env=penv, contract=c) for w in c.returns_when])
            for exc in c.may_raise:
                b = p.fresh('mayraise', B)
                if never is not None:
                    b = z3.And(b, z3.Not(never))
                if p.choose(b):
                    raise PyRaise(self.exc_class(exc, c), None, f'{c.short} may raise {exc}')
            if not c.pure:
                p.bump_next()
                for v in env.values():
                    # whatever is handed to an effectful callee may be reached (and changed) by it
                    if isinstance(v, SV) and v.kind.is_ref and v.t is not None:
                        p.escaped.add(str(v.t))
            self.havoc_locations(c.modifies, 'call', env=penv, contract=c)
            rk = parse_kind(c.sorts.get('result', 'none'))
            skip = None
            if constructing:
                res = env[selfname]
                # the fields of the new object hold what the constructor stored - possibly objects
                # it allocated itself (the frontier was bumped above): unknown values that only the
                # contract's ensures describe, not the initial heap's values at that address
                if c.pure:
                    p.bump_next()
                self.havoc_fresh(res)
                penv['result'] = res
            elif c.fresh:
                inner = rk
                res = self.new_ref(inner)
                # content of the fresh object is unconstrained: havoc its fields lazily
                self.havoc_fresh(res)
                penv['result'] = res
            else:
                res = None
                skip = None
                if rk in (INT, BOOL, STR) and not c.modifies:
                    # `result == <expr>` defines the result: use the expression itself
                    for name, en in c.ensures.items():
                        node = parse_clause(en)
                        if isinstance(node, ast.Compare) and len(node.ops) == 1 \
                                and isinstance(node.ops[0], ast.Eq) \
                                and isinstance(node.left, ast.Name) and node.left.id == 'result' \
                                and not any(isinstance(x, ast.Name) and x.id == 'result'
                                            for x in ast.walk(node.comparators[0])):
                            try:
                                v = self.eval_expr_clause(node.comparators[0], penv, c)
                            except Unsupported:
                                break
                            if v.kind == rk or (rk == INT and v.kind == BOOL):
                                res = v if v.kind == rk else SV(INT, self.as_int(v))
                                skip = name
                            break
                if res is None:
                    res = self.sym('ret_' + c.short.split('.')[-1], rk) if rk != NONE else NONEV
                penv['result'] = res
            for name, en in list(c.ensures.items()) + list(c.trusted_ensures.items()):
                if name == skip:
                    continue
                p.assume(self.eval_clause(en, env=penv, contract=c))
            if not self.term_mode and not p.speculating and (c.ensures or c.trusted_ensures):
                # vacuity guard: a callee contract that contradicts what is known at the call site
                # would make everything after the call provable.  The path is dropped; if NO path
                # survives this call site the function's verification is an error (verify.py).
                site = f'{c.short}#{ordk}'
                stat = self.site_stats.setdefault(site, [0, 0])
                if not p.tainted and p.qf.check() == z3.unsat:
                    stat[1] += 1
                    raise Infeasible()
                stat[0] += 1
        finally:
            self.old = saved_old
        return res

    def havoc_fresh(self, obj: SV):
        """A freshly allocated object returned by a contracted callee: its fields
        hold unknown values (the callee initialised them)."""
        k = obj.kind
        p = self.p
        if k.is_obj:
            seen, todo, fields = set(), [k.name], {}
            while todo:
                cn = todo.pop()
                if cn in seen or cn not in self.reg.schemas:
                    continue
                seen.add(cn)
                s = self.reg.schemas[cn]
                for a, ks in s.fields.items():
                    fields.setdefault(a, ks)
                todo.extend(s.bases)
            for a, ks in fields.items():
                fk = parse_kind(ks)
                v = self.sym('fresh_' + a, fk)
                self.write_field(obj, a, v)
        elif k.is_list:
            n = p.fresh('n', I)
            p.assume(n >= 0)
            arr = p.fresh('elems', z3.ArraySort(I, sort_of(k.elem)))
            p.bounds[str(arr)] = p.next
            self.list_set_content(obj, n, arr)
        elif k.is_set:
            m = p.fresh('mem', z3.ArraySort(sort_of(k.elem), B))
            self.set_store(obj, m)
        elif k.is_dict:
            h = p.fresh('has', z3.ArraySort(sort_of(k.key), B))
            v = p.fresh('vals', z3.ArraySort(sort_of(k.key), sort_of(k.val)))
            p.bounds[str(v)] = p.next
            self.dict_store(obj, h, v)

    def exc_class(self, name, c=None):
        mods = []
        if c is not None:
            if c.module is not None:
                mods.append(vars(c.module))
            try:
                import importlib
                mods.append(vars(importlib.import_module(c.modname)))
            except Exception:
                pass
        for m in mods:
            if name in m and isinstance(m[name], type):
                return m[name]
        if hasattr(_builtins, name):
            return getattr(_builtins, name)
        import cylc.flow.exceptions as ce
        if hasattr(ce, name):
            return getattr(ce, name)
        raise Unsupported(f'unknown exception class {name}')

    # ================================================================ clauses
    def eval_clause(self, src, env=None, contract=None, extra=None, polarity=-1):
        """z3 Bool for a contract clause, evaluated in term mode.
        polarity +1: the clause is a goal; -1: it is assumed."""
        from .engine import Frame
        node = parse_clause(src)
        if env is None:
            env = dict(self.frame.locals)
            contract = contract or self.frame.contract
            globs = dict(self.frame.globals)
        else:
            globs = {}
        if contract is not None:
            try:
                import importlib
                globs.update(vars(importlib.import_module(contract.modname)))
            except Exception:
                pass
            if contract.module is not None:
                globs.update(vars(contract.module))
        env = dict(env)
        if extra:
            env.update(extra)
        fr = Frame(None, globs, env, qualname=self.frame.qualname if self.frames else '?',
                   contract=None, cls=None)
        self.frames.append(fr)
        self.term_mode += 1
        saved_pol, saved_b = self.polarity, self.binders
        self.polarity, self.binders = polarity, ()
        if self.term_mode == 1:
            self.sk_idx = {}
        try:
            v = self.eval(node)
            return self.truthy(v)
        finally:
            self.polarity, self.binders = saved_pol, saved_b
            self.term_mode -= 1
            self.frames.pop()

    def eval_expr_clause(self, node, env, contract):
        """Value (not truth) of a spec expression, in term mode."""
        from .engine import Frame
        globs = {}
        try:
            import importlib
            globs.update(vars(importlib.import_module(contract.modname)))
        except Exception:
            pass
        if contract.module is not None:
            globs.update(vars(contract.module))
        fr = Frame(None, globs, dict(env), qualname=self.frame.qualname)
        self.frames.append(fr)
        self.term_mode += 1
        saved_pol, saved_b = self.polarity, self.binders
        self.polarity, self.binders = 0, ()
        try:
            return self.eval(node)
        finally:
            self.polarity, self.binders = saved_pol, saved_b
            self.term_mode -= 1
            self.frames.pop()

    def spec_call(self, name, e):
        p = self.p
        if name == 'old':
            if self.old is None:
                raise Unsupported('old() outside a contract')
            old_heap, old_env = self.old
            cur_heap = p.heap
            fr = self.frame
            cur_locals = fr.locals
            p.heap = dict(old_heap)
            merged = dict(cur_locals)
            merged.update(old_env)
            fr.locals = merged
            self.term_mode += 1
            try:
                return self.eval(e.args[0])
            finally:
                self.term_mode -= 1
                # keys lazily created while evaluating in the old heap are initial arrays
                for k, a in p.heap.items():
                    if k not in old_heap and k not in cur_heap:
                        cur_heap[k] = a
                        old_heap[k] = a
                    elif k not in old_heap:
                        old_heap[k] = a
                p.heap = cur_heap
                fr.locals = cur_locals
        if name == 'implies':
            self.polarity = -self.polarity
            try:
                a = self.truthy(self.eval(e.args[0]))
            finally:
                self.polarity = -self.polarity
            b = self.truthy(self.eval(e.args[1]))
            return SV(BOOL, z3.Implies(a, b))
        if name == 'iff':
            saved = self.polarity
            self.polarity = 0
            try:
                a = self.truthy(self.eval(e.args[0]))
                b = self.truthy(self.eval(e.args[1]))
            finally:
                self.polarity = saved
            return SV(BOOL, a == b)
        if name in ('forall', 'exists'):
            lam = e.args[0]
            if not isinstance(lam, ast.Lambda):
                raise Unsupported('forall needs a lambda')
            kinds = {}
            for kw in e.keywords:
                if isinstance(kw.value, ast.Constant):
                    kinds[kw.arg] = parse_kind(kw.value.value)
                else:
                    kv = self.eval(kw.value)
                    kt = z3.simplify(kv.t) if kv.kind == STR else None
                    if kt is None or not z3.is_string_value(kt):
                        raise Unsupported('quantifier kind must be a constant string')
                    kinds[kw.arg] = parse_kind(kt.as_string())
            names = [a.arg for a in lam.args.args]
            vars_ = []
            saved = dict(self.frame.locals)
            # forall in a goal / exists in an assumption: skolemise (fresh constants)
            skolem = (name == 'forall' and self.polarity > 0) or \
                     (name == 'exists' and self.polarity < 0)
            binder = dict(vars=[], defs=[])
            self.term_mode += 1
            try:
                pool_goal = name == 'forall' and skolem
                for n in names:
                    k = kinds.get(n, INT)
                    if pool_goal:
                        idx = self.sk_idx.get(str(sort_of(k)), 0)
                        self.sk_idx[str(sort_of(k))] = idx + 1
                        x = z3.Const(f'sk!{sort_name(sort_of(k))}!{idx}', sort_of(k))
                    else:
                        x = z3.Const(f'{n}!{"sk" if skolem else "q"}{p.fresh_name("")}', sort_of(k))
                    vars_.append(x)
                    self.frame.locals[n] = SV(k, x)
                if not skolem:
                    binder['vars'] = vars_
                    self.binders = list(self.binders) + [binder]
                try:
                    body = self.truthy(self.eval(lam.body))
                finally:
                    if not skolem:
                        self.binders = list(self.binders)[:-1]
            finally:
                self.term_mode -= 1
                self.frame.locals = saved
            if skolem:
                if getattr(self, 'skolems', None) is not None:
                    for n, x in zip(names, vars_):
                        self.skolems.append((n, x))
                return SV(BOOL, body)
            if binder['defs'] and self.polarity == 0:
                raise Unsupported('div/mod of a bound variable under a quantifier of unknown polarity')
            if name == 'forall' and self.polarity < 0:
                # assumed universal: instantiate at the goal skolem constants (sound);
                # keep the quantifier itself only when it is free of div/mod definitions
                import itertools
                pools = [[z3.Const(f'sk!{sort_name(v.sort())}!{i}', v.sort()) for i in range(2)]
                         for v in vars_]
                insts = []
                saved2 = dict(self.frame.locals)
                saved_b = self.binders
                self.binders = ()
                self.term_mode += 1
                try:
                    for combo in itertools.product(*pools):
                        for n, c_ in zip(names, combo):
                            self.frame.locals[n] = SV(kinds.get(n, INT), c_)
                        insts.append(self.truthy(self.eval(lam.body)))
                finally:
                    self.term_mode -= 1
                    self.binders = saved_b
                    self.frame.locals = saved2
                if not binder['defs']:
                    insts.append(z3.ForAll(vars_, body))
                return SV(BOOL, z3.And(*insts))
            if binder['defs'] and name == 'exists' and self.polarity > 0:
                body = z3.And(*(binder['defs'] + [body]))
            elif binder['defs']:
                raise Unsupported('div/mod of a bound variable under this quantifier')
            q = z3.ForAll(vars_, body) if name == 'forall' else z3.Exists(vars_, body)
            return SV(BOOL, q)
        if name == 'keyat':
            # k-th key (member) in the ghost enumeration of a dict (set)
            cv = self.force(self.eval(e.args[0]))
            kk = self.as_int(self.force(self.eval(e.args[1])))
            ctx = self.order_of(cv)
            ordf, mem = ctx[3]
            return self.wf_value(SV(ctx[4], ordf(mem, kk)))
        if name == 'fresh_obj':
            # the object was allocated after the function under verification was entered
            v = self.force(self.eval(e.args[0]))
            if not v.kind.is_ref:
                raise Unsupported('fresh_obj() of a non-reference')
            return SV(BOOL, v.t >= p.next0)
        if name == 'indexof':
            # position of a key (member) in the ghost enumeration of a dict (set); inverse of keyat
            cv = self.force(self.eval(e.args[0]))
            ctx = self.order_of(cv)
            ordf, mem = ctx[3]
            s = sort_of(ctx[4])
            idx = z3.Function('index_' + sort_name(s), z3.ArraySort(s, z3.BoolSort()), s, z3.IntSort())
            kt = self.coerce(self.force(self.eval(e.args[1])), ctx[4])
            return SV(INT, idx(mem, kt))
        if name == 'oldget':
            # element i (a value of the CURRENT state) of container c as it was in the OLD state
            if self.old is None:
                raise Unsupported('oldget() outside a contract')
            idx = self.eval(e.args[1])
            old_heap, old_env = self.old
            cur_heap = p.heap
            fr = self.frame
            cur_locals = fr.locals
            p.heap = dict(old_heap)
            merged = dict(cur_locals)
            merged.update(old_env)
            fr.locals = merged
            self.term_mode += 1
            try:
                cont = self.force(self.eval(e.args[0]))
                return self.getitem(cont, idx)
            finally:
                self.term_mode -= 1
                for k_, a in p.heap.items():
                    if k_ not in old_heap and k_ not in cur_heap:
                        cur_heap[k_] = a
                        old_heap[k_] = a
                    elif k_ not in old_heap:
                        old_heap[k_] = a
                p.heap = cur_heap
                fr.locals = cur_locals
        if name in ('sumover', 'sumupto'):
            # sum of counter[c][m] over the members m of a set, in the set's ghost
            # enumeration order; sumupto(.., k) is the partial sum of the first k members
            sv = self.force(self.eval(e.args[0]))
            cv = self.force(self.eval(e.args[1]))
            if not (sv.kind.is_set and cv.kind.is_dict):
                raise Unsupported(f'{name} on {sv.kind},{cv.kind}')
            ctx = self.order_of(sv)
            ordf, mem = ctx[3]
            n = ctx[2]
            s = sort_of(sv.kind.elem)
            has, vals = self.dict_has(cv), self.dict_vals(cv)
            P = z3.Function('psum_' + sort_name(s), z3.ArraySort(s, B), z3.ArraySort(s, B),
                            z3.ArraySort(s, I), I, I)
            k = n if name == 'sumover' else self.as_int(self.force(self.eval(e.args[2])))

            def f(j):
                x = ordf(mem, j)
                return z3.If(z3.Select(has, x), z3.Select(vals, x), 0)
            p.assume(P(mem, has, vals, 0) == 0)
            p.assume(z3.Implies(z3.And(k >= 1, k <= n),
                                P(mem, has, vals, k) == P(mem, has, vals, k - 1) + f(k - 1)))
            p.assume(z3.Implies(z3.And(k >= 0, k < n),
                                P(mem, has, vals, k + 1) == P(mem, has, vals, k) + f(k)))
            return SV(INT, P(mem, has, vals, k))
        if name == 'int_text':
            v = self.force(self.eval(e.args[0]))
            if v.kind != STR:
                return SV(BOOL, z3.BoolVal(v.kind in (INT, BOOL)))
            return SV(BOOL, pm.int_of_str(p, v.t)[0])
        if name == 'typeis':
            v = self.eval(e.args[0])
            want = e.args[1].value
            return SV(BOOL, z3.BoolVal(repr(v.kind) == want or v.kind.name == want))
        raise Unsupported(f'spec builtin {name}')

    # ================================================================ frames / modifies
    def parse_location(self, loc, env, contract):
        """'expr.attr' | 'expr[*]' | 'all:Cls.attr' | 'all:[*]' -> descriptor."""
        loc = loc.strip()
        if loc.startswith('all:'):
            rest = loc[4:]
            if rest == '[*]':
                return ('allcontent',)
            if rest == 'heap[*]':
                # every container except those allocated here and not yet stored / passed on
                return ('heapcontent',)
            if rest == 'fresh[*]':
                # the content of every container allocated since the function was entered
                return ('freshcontent',)
            if rest.endswith('[*]'):
                # all:list[str][*] - the content of every container of that kind
                return ('kindcontent', parse_kind(rest[:-3]))
            cls, attr = rest.split('.')
            return ('allfield', cls, attr)
        if loc.endswith('[*]'):
            v = self.eval_loc_expr(loc[:-3], env, contract)
            return ('content', v)
        base, attr = loc.rsplit('.', 1)
        v = self.eval_loc_expr(base, env, contract)
        return ('field', v, attr)

    def eval_loc_expr(self, src, env, contract):
        from .engine import Frame
        node = parse_clause(src)
        in_loop = env is None
        if env is None:
            env = dict(self.frame.locals)
            globs = self.frame.globals
        else:
            globs = {}
        fr = Frame(None, globs, dict(env), qualname=self.frame.qualname)
        self.frames.append(fr)
        self.term_mode += 1
        saved_heap = None
        if self.old is not None and not in_loop:
            saved_heap = self.p.heap
            self.p.heap = dict(self.old[0])
        try:
            return self.force(self.eval(node))
        finally:
            if saved_heap is not None:
                for k, a in self.p.heap.items():
                    if k not in saved_heap:
                        saved_heap[k] = a
                self.p.heap = saved_heap
            self.term_mode -= 1
            self.frames.pop()

    CONTENT_PREFIXES = ('@len', '@elems:', '@mem:', '@has:', '@val:')

    def havoc_locations(self, locs, why, env=None, contract=None):
        p = self.p
        kinds = []
        for loc in locs:
            d = self.parse_location(loc, env, contract)
            if d[0] == 'field':
                _, v, attr = d
                if v.kind == NONE:
                    continue
                fk = self.field_kind(v.kind.name, attr)
                if fk is None:
                    raise Unsupported(f'modifies {loc}: no schema field')
                nv = self.sym('hv_' + attr, fk)
                self.write_field(v, attr, nv)
            elif d[0] == 'content':
                v = d[1]
                if v.kind == NONE:
                    continue
                self.havoc_fresh_content(v)
            elif d[0] == 'allfield':
                _, cls, attr = d
                fk = self.field_kind(cls, attr)
                key = self.field_key(attr, fk)
                self.field_arr(attr, fk)
                arr = p.fresh('HV_' + key, z3.ArraySort(I, sort_of(fk)))
                p.bounds[str(arr)] = p.next
                p.heap[key] = arr
            elif d[0] in ('allcontent', 'heapcontent'):
                # A callee (or, with all:heap[*], a loop body) cannot reach a container that this
                # function allocated and never stored or passed on: those keep their content.
                keep = [r for s, r in p.local_fresh.items() if s not in p.escaped] \
                    if (why == 'call' or d[0] == 'heapcontent') else []
                for key in list(p.heap):
                    if key.startswith(self.CONTENT_PREFIXES):
                        oldarr = p.heap[key]
                        arr = p.fresh('HV_' + key, oldarr.sort())
                        p.bounds[str(arr)] = p.next
                        for r in keep:
                            p.assume(z3.Select(arr, r) == z3.Select(oldarr, r))
                        p.heap[key] = arr
            elif d[0] == 'freshcontent':
                r = z3.Int('r!fc')
                for key in list(p.heap):
                    if key.startswith(self.CONTENT_PREFIXES):
                        oldarr = p.heap[key]
                        arr = p.fresh('HV_' + key, oldarr.sort())
                        p.bounds[str(arr)] = p.next
                        # pointwise: cells of containers that existed at entry keep their content
                        # (an array lambda: no quantified frame axiom for the solver to instantiate)
                        p.heap[key] = z3.Lambda([r], z3.If(r < p.next0, z3.Select(oldarr, r),
                                                           z3.Select(arr, r)))
            elif d[0] == 'kindcontent':
                kinds.append(d[1])
        if kinds:
            # all `all:<kind>[*]` locations of one havoc at once: per content array ONE pointwise
            # update (an array lambda, no quantified frame axiom) that gives new content exactly to
            # the containers whose kind is listed and whose content lives in that array
            dt = self.dtype_arr()
            r = z3.Int('r!kc')
            per_key = {}
            for k in kinds:
                for key in self.content_keys(k):
                    per_key.setdefault(key, []).append(self.kind_tag(k))
            for key, tags in per_key.items():
                oldarr = p.heap[key]
                arr = p.fresh('HV_' + key, oldarr.sort())
                p.bounds[str(arr)] = p.next
                hit = z3.Or(*[z3.Select(dt, r) == t for t in sorted(set(tags))])
                p.heap[key] = z3.Lambda([r], z3.If(hit, z3.Select(arr, r), z3.Select(oldarr, r)))

    def content_keys(self, k):
        """heap arrays that hold the content of containers of kind k (created if not read so far)"""
        if k.is_list:
            self.len_arr()
            self.elems_arr(k.elem)
            return ['@len', '@elems:' + sort_name(sort_of(k.elem))]
        if k.is_set:
            self.mem_arr(k.elem)
            return ['@mem:' + sort_name(sort_of(k.elem))]
        if k.is_dict:
            ks, vs = sort_of(k.key), sort_of(k.val)
            self.has_arr(k.key)
            self.val_arr(k.key, k.val)
            return ['@has:' + sort_name(ks), f'@val:{sort_name(ks)}:{sort_name(vs)}']
        raise Unsupported(f'content of {k}')

    def havoc_fresh_content(self, v):
        if v.kind.is_obj:
            raise Unsupported('[*] on an object')
        self.havoc_fresh(v)

    def allowed_refs(self, locs, key, env=None, contract=None):
        """Refs whose entry in heap array `key` may change under `locs`
        (True = any)."""
        out = []
        for loc in locs:
            d = self.parse_location(loc, env, contract)
            if d[0] == 'field':
                _, v, attr = d
                if v.kind == NONE:
                    continue
                fk = self.field_kind(v.kind.name, attr)
                if fk is not None and self.field_key(attr, fk) == key:
                    out.append(v.t)
            elif d[0] == 'content':
                if key.startswith(self.CONTENT_PREFIXES) and d[1].kind != NONE:
                    out.append(d[1].t)
            elif d[0] == 'allfield':
                fk = self.field_kind(d[1], d[2])
                if fk is not None and self.field_key(d[2], fk) == key:
                    return True
            elif d[0] == 'allcontent':
                if key.startswith(self.CONTENT_PREFIXES):
                    return True
            elif d[0] == 'heapcontent':
                if key.startswith(self.CONTENT_PREFIXES):
                    out.append(('nonlocal', [r for s, r in self.p.local_fresh.items()
                                             if s not in self.p.escaped]))
            elif d[0] == 'kindcontent':
                if key.startswith(self.CONTENT_PREFIXES) and key in self.content_keys(d[1]):
                    out.append(('tag', self.kind_tag(d[1])))
            elif d[0] == 'freshcontent':
                if key.startswith(self.CONTENT_PREFIXES):
                    out.append(('fresh',))
        return out

    def frame_conds(self, allowed, r):
        """r is none of the allowed references (a ('tag', t) entry allows every container of that kind)"""
        cs = []
        for a in allowed:
            if isinstance(a, tuple) and a[0] == 'tag':
                cs.append(z3.Select(self.dtype_arr(), r) != a[1])
            elif isinstance(a, tuple) and a[0] == 'fresh':
                cs.append(r < self.p.next0)
            elif isinstance(a, tuple) and a[0] == 'nonlocal':
                cs.append(z3.Or(*[r == x for x in a[1]]) if a[1] else z3.BoolVal(False))
            else:
                cs.append(r != a)
        return cs


def _hashable(x):
    try:
        hash(x)
        return True
    except TypeError:
        return False


def _has_yield(node):
    for x in ast.walk(node):
        if isinstance(x, (ast.Yield, ast.YieldFrom)):
            return True
    return False


def _owner_class(f):
    mod = inspect.getmodule(f)
    obj = mod
    parts = f.__qualname__.split('.')[:-1]
    try:
        for part in parts:
            obj = getattr(obj, part)
    except AttributeError:
        return None
    return obj if inspect.isclass(obj) else None


def _defining_class(cls, name):
    for c in cls.__mro__:
        if name in c.__dict__:
            return c
    return cls
