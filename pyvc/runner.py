"""Per-property check driver: verify all contracts of a property, replay
refutations natively, apply known findings, write evidence, set exit code.

exit 0 held | 1 violation | 2 undecided | 3 checker error
"""
from __future__ import annotations

import importlib
import json
import multiprocessing as mp
import os
import sys
import time
import traceback

ROOT = os.path.dirname(os.path.dirname(os.path.abspath(__file__)))


def load_contracts():
    from .spec import REG
    idx = importlib.import_module('contracts.index')
    for m in idx.MODULES:
        importlib.import_module(m)
    return REG, idx


def _verify_one(task):
    from .spec import REG
    from .verify import verify_contract
    key, strict = task
    c = REG.contracts[key]
    tier = os.environ.get('VERIF_TIER', 'quick')
    # VERIF_QUERY_TIMEOUT_MS: self-test knob (starve z3 to exercise the second-opinion stage)
    # the same query budget in both tiers: a proof does not get more thorough with a longer time-out, and
    # queries that z3 leaves open for 20 s were observed to stay open for 60 s, only three times as slowly
    # (the thorough tier adds the thorough-only contracts, the strict variants and deeper bounded companions)
    tmo = int(os.environ.get('VERIF_QUERY_TIMEOUT_MS') or 20000)
    try:
        r = verify_contract(REG, c, timeout_ms=tmo, strict=strict)
    except Exception as ex:  # engine crash
        return dict(key=key, strict=strict, status='error', error=f'{ex!r}\n{traceback.format_exc()}',
                    obligations={}, paths=0, unsupported=[], notes={}, vacuity={}, time=0.0,
                    file='', line=0, stmts=0)
    obl = {}
    for n, o in r.obligations.items():
        obl[n] = dict(name=n, verdict=o['verdict'], paths=o['paths'], time=round(o['time'], 4),
                      model=o['model'], line=o['line'], backend=o['backend'],
                      detail=o['detail'] if o['verdict'] == 'unknown' else '',
                      reasons=list(o.get('reasons') or []), candidate=o.get('candidate'),
                      details=list(o.get('details') or []) if o['verdict'] == 'unknown' else [])
    return dict(key=key, strict=strict, status=r.status, error=r.error, obligations=obl, paths=r.paths,
                unsupported=r.unsupported, notes=r.notes, vacuity=r.vacuity,
                time=round(r.time, 3), file=r.file, line=r.line, stmts=r.stmts)


def _ask_again(job):
    """One open path query (SMT-LIB text) -> name of the back end that answered unsat, or ''.
    cvc5 first; then a fresh z3 process with a budget that does not depend on how busy the
    machine was while all functions were being explored in parallel."""
    import shutil
    import subprocess
    import tempfile
    text, timeout_s = job
    with tempfile.NamedTemporaryFile('w', suffix='.smt2', delete=False, dir='/var/tmp') as f:
        f.write('(set-logic ALL)\n' + text + '\n')
        path = f.name
    z3bin = shutil.which('z3-new') or shutil.which('z3')
    cmds = [('cvc5', ['/usr/bin/cvc5', '--strings-exp', f'--tlimit={timeout_s * 1000}', path])]
    if z3bin:
        cmds.append(('z3', [z3bin, f'-T:{3 * timeout_s}', path]))
    said = []
    gave_up = False
    try:
        for name, cmd in cmds:
            t_start = time.time()
            try:
                out = subprocess.run(cmd, capture_output=True, text=True, timeout=3 * timeout_s + 10)
                ans = out.stdout.strip().split('\n')[0] if out.stdout else ''
            except Exception:
                ans = 'timeout'
            took = time.time() - t_start
            said.append(f'{name}: {ans or "no answer"} ({took:.0f}s)')
            if name == 'z3' and ans == 'unknown' and took < 1.5 * timeout_s:
                # z3 stopped by itself well inside its budget (3 x timeout_s): it gave up on the quantifiers
                # of a candidate counter-model, it did not run out of time
                gave_up = True
            if ans == 'unsat':
                return name, said
            if ans == 'sat' and name == 'z3' and 'pymul' not in text:
                # (with pymul the text is the LINEAR abstraction of products: a model may be spurious)
                # a counterexample exists (z3 certifies its models), but a fresh process gives us no
                # way to read it back into the replay: reported as refuted without an input
                return 'SAT', said
        return ('GAVEUP' if gave_up and 'pymul' not in text else ''), said
    finally:
        os.unlink(path)


def cvc5_second_opinion(results, timeout_s=20, jobs=8):
    """Obligations z3 left unknown are re-asked on the same SMT-LIB text, one query per open
    path; the obligation counts as discharged only if EVERY open path is answered unsat."""
    from concurrent.futures import ThreadPoolExecutor
    todo = []
    for r in results:
        for o in r['obligations'].values():
            if o['verdict'] != 'unknown':
                continue
            texts = [t for t in (o.get('details') or ([o['detail']] if o.get('detail') else [])) if t]
            if texts:
                todo.append((o, texts))
    n = 0
    if todo:
        flat = [(t, timeout_s) for _, texts in todo for t in texts]
        with ThreadPoolExecutor(max_workers=max(1, min(jobs, len(flat)))) as ex:
            both = list(ex.map(_ask_again, flat))
        answers = [b[0] for b in both]
        i = 0
        for o, texts in todo:
            got = answers[i:i + len(texts)]
            o['second_opinions'] = [s for b in both[i:i + len(texts)] for s in b[1]]
            i += len(texts)
            if 'SAT' in got:
                o['second_sat'] = True
            elif 'GAVEUP' in got:
                # some open path: neither proved nor refuted, and not for lack of time
                o['second_gave_up'] = True
            elif all(got):
                o['verdict'] = 'proved'
                o['backend'] = 'cvc5' if 'cvc5' in got else 'z3'
                n += 1
    for r in results:
        for o in r['obligations'].values():
            o['detail'] = ''
            o['details'] = []
        if r['status'] == 'undecided' and not r['unsupported'] and \
                all(o['verdict'] == 'proved' for o in r['obligations'].values()):
            r['status'] = 'proved'
    return n


def load_known():
    p = os.path.join(ROOT, 'known_findings.json')
    if not os.path.exists(p):
        return []
    return json.load(open(p)).get('findings', [])


_REPLAY_CACHE = {}


def load_baseline(pid):
    """Names of the obligations that were discharged on the unchanged tree (written by
    tools/runall.sh on a quiet run, committed).  Only used to tell 'was provable, is not any more'
    from 'never was decided'."""
    p = os.path.join(ROOT, 'contracts', 'baseline', f'{pid}.json')
    if not os.path.exists(p):
        return set()
    try:
        return set(json.load(open(p)).get('proved', []))
    except Exception:
        return set()


def write_baseline(pid, tier, names):
    d = os.path.join(ROOT, 'contracts', 'baseline')
    os.makedirs(d, exist_ok=True)
    p = os.path.join(d, f'{pid}.json')
    old = set()
    if tier == 'thorough' and os.path.exists(p):
        old = load_baseline(pid)
    json.dump(dict(property=pid, proved=sorted(set(names) | old)), open(p, 'w'), indent=0)


def _gave_up(reason):
    """The solver stopped by itself (quantifier instantiation / arithmetic incomplete), not on a time limit."""
    r = (reason or '').lower()
    return 'incomplete' in r and 'timeout' not in r and 'cancel' not in r and 'resource' not in r


def _replay_job(job):
    from .spec import REG
    key, strict, oname, model = job
    c = REG.contracts[key]
    try:
        return job[:3], replay_refutation(REG, c, oname, model, None, None, strict=strict)
    except Exception as ex:
        return job[:3], ([('<replay crashed>', dict(status='error', failed=[], detail=repr(ex)))], 0)


def precompute_replays(results, REG, jobs):
    """Run the (bounded, native) replay searches of all undischarged obligations in parallel."""
    todo = []
    for r in results:
        c = REG.contracts[r['key']]
        if c.concretise is None:
            continue
        if r['unsupported'] and not r['strict']:
            todo.append((r['key'], r['strict'], f'{c.short}::unsupported', None))
        for n, o in r['obligations'].items():
            if o['verdict'] != 'proved':
                todo.append((r['key'], r['strict'], n, o['model'] if o['verdict'] == 'refuted' else None))
    if not todo:
        return
    if len(todo) == 1 or jobs <= 1:
        out = [_replay_job(j) for j in todo]
    else:
        with mp.get_context('fork').Pool(min(jobs, len(todo))) as pool:
            out = pool.map(_replay_job, todo, chunksize=1)
    for k, v in out:
        _REPLAY_CACHE[k] = v


def replay_refutation(REG, c, oname, model, pid, known, strict=False):
    """Try to turn a refuted obligation into a failing concrete input of the
    real function.  Returns list of (case_desc, check_result) that violate."""
    from .native import native_check
    ck = (next((k for k, v in REG.contracts.items() if v is c), None), strict, oname)
    if ck in _REPLAY_CACHE:
        return _REPLAY_CACHE[ck]
    hook = c.concretise
    fails, tried = [], 0
    if hook is None:
        return None, 0
    try:
        cases = list(hook(model or {}, oname))
    except Exception as ex:
        return [('<concretise hook failed>', dict(status='error', failed=[], detail=repr(ex)))], 0
    clause = oname.split('::', 1)[1] if '::' in oname else oname
    for desc, mk in cases:
        tried += 1
        try:
            args, kwargs = mk()
            res = native_check(c, args, kwargs, with_domain=not strict)
        except Exception as ex:
            res = dict(status='error', failed=[], detail=f'{ex!r}')
        if res['status'] == 'violated':
            # an `ensures`/`raises` obligation is replayed by the same clause failing natively;
            # call-site (pre) and frame obligations by any clause of the function failing
            cl = clause.replace('strict::', '')
            if cl.startswith(('ensures[', 'raises[', 'returns-', 'no-unexpected')) \
                    and not any(f == cl or (cl.startswith('returns-') and f.startswith('no-unexpected'))
                                for f in res['failed']):
                continue
            fails.append((desc, res))
    return fails, tried


def run_property(pid, tier='quick', seed=0, jobs=16, verbose=False):
    t0 = time.time()
    os.environ['VERIF_TIER'] = tier
    REG, idx = load_contracts()
    allkeys = [k for k, c in REG.contracts.items() if pid in c.props and not c.assumed]
    keys = [k for k in allkeys if tier == 'thorough' or REG.contracts[k].tier != 'thorough']
    skipped_tier = [k for k in allkeys if k not in keys]
    assumed = sorted(k for k, c in REG.contracts.items() if c.assumed)
    try:
        from contracts.claims import CLAIMS as _CL
        claimed_cat = _CL.get(pid, {}).get('category')
    except ImportError:
        claimed_cat = None
    bounded_only = not keys and claimed_cat == 'exploration' and getattr(idx, 'EXTRA_CHECKS', {}).get(pid)
    if not keys and not bounded_only:
        print(f'checker error: no contracts registered for {pid}')
        return 3
    # longest first
    tasks = [(k, False) for k in keys] + [
        (k, True) for k in keys if REG.contracts[k].domain
        and REG.contracts[k].options.get('strict_tier', 'quick') != 'never'
        and (tier == 'thorough' or REG.contracts[k].options.get('strict_tier', 'quick') == 'quick')]
    tasks.sort(key=lambda t: -REG.contracts[t[0]].options.get('weight', 1))
    jobs = min(jobs, len(tasks))
    if not tasks:
        results = []
    elif jobs > 1:
        ctx = mp.get_context('fork')
        with ctx.Pool(jobs) as pool:
            results = pool.map(_verify_one, tasks, chunksize=1)
    else:
        results = [_verify_one(k) for k in tasks]
    ncvc5 = cvc5_second_opinion(results, 20 if tier == 'quick' else 60)
    precompute_replays(results, REG, jobs if jobs > 1 else 1)
    extra = []
    for fn in getattr(idx, 'EXTRA_CHECKS', {}).get(pid, []):
        mod, name = fn.split(':')
        try:
            extra.extend(getattr(importlib.import_module(mod), name)(tier=tier, seed=seed))
        except Exception as ex:
            extra.append(dict(name=f'{fn}', verdict='error', detail=f'{ex!r}\n{traceback.format_exc()}',
                              kind='extra'))
    known = [k for k in load_known() if k.get('property') == pid and k.get('status') == 'known']
    baseline = load_baseline(pid)
    os.makedirs(os.path.join(ROOT, 'replays', pid), exist_ok=True)
    violations, known_lines, undecided, errors = [], [], [], []
    n_obl = n_proved = 0
    by_backend = {'z3': 0, 'cvc5': 0}
    solver_time = 0.0
    samples = []
    funcs = []
    for r in results:
        c = REG.contracts[r['key']]
        funcs.append(dict(function=r['key'] + ('  [strict: without domain clauses]' if r['strict'] else ''), file=os.path.relpath(r['file'] or '', '/') if r['file'] else '',
                          line=r['line'], statements=r['stmts'], paths=r['paths'], status=r['status'],
                          obligations=len(r['obligations']), time_s=r['time']))
        if r['error']:
            errors.append(f"{r['key']}: {r['error']}")
        if r['unsupported'] and not r['strict']:
            # outside the verified subset: decide nothing, but let the bounded native search look
            fails, tried = replay_refutation(REG, c, f'{c.short}::unsupported', None, pid, known,
                                             strict=r['strict'])
            if fails:
                rp = os.path.join(ROOT, 'replays', pid, _safe(c.short + '_unsupported') + '.json')
                json.dump(dict(property=pid, obligation=f'{c.short}::(function outside the verified subset)',
                               function=r['key'], file=r['file'], unsupported=r['unsupported'],
                               note='no obligation could be generated; failing input found by the '
                                    'bounded native search of the replay hook',
                               replay_candidates_tried=tried,
                               failing_inputs=[dict(input=d, failed=rs['failed'], detail=rs.get('detail', ''))
                                               for d, rs in fails[:20]]),
                          open(rp, 'w'), indent=1, default=str)
                violations.append((f'{c.short}::contract (native bounded search)', rp, False))
        for u in r['unsupported']:
            undecided.append(f"{r['key']}: unsupported: {u}")
        for n, o in r['obligations'].items():
            n_obl += 1
            solver_time += o['time']
            if o['verdict'] == 'proved':
                n_proved += 1
                by_backend[o['backend']] = by_backend.get(o['backend'], 0) + 1
                if len(samples) < 5:
                    samples.append(dict(obligation=n, verdict='proved', paths=o['paths'],
                                        backend=o['backend'], time_s=o['time']))
            elif o['verdict'] == 'unknown':
                # the solver could neither prove nor refute (typically: quantified path
                # condition, no model).  Search the small native scope of the replay hook:
                # only a failing input of the REAL code turns this into a violation.
                fails, tried = replay_refutation(REG, c, n, None, pid, known, strict=r['strict'])
                kf = [k for k in known if k.get('obligation') == n]
                if fails and not all(any(_covers(k, d, rs) for k in kf) for d, rs in fails):
                    rp = os.path.join(ROOT, 'replays', pid, _safe(n) + '.json')
                    json.dump(dict(property=pid, obligation=n, function=r['key'], file=r['file'],
                                   line=o['line'], verifier='pyvc/z3', solver_verdict='unknown',
                                   note='obligation not discharged; failing input found by the '
                                        'bounded native search of the replay hook',
                                   replay_candidates_tried=tried,
                                   failing_inputs=[dict(input=d, failed=rs['failed'],
                                                        detail=rs.get('detail', '')) for d, rs in fails[:20]]),
                              open(rp, 'w'), indent=1, default=str)
                    violations.append((n, rp, False))
                elif n in baseline and (o.get('second_sat') or o.get('second_gave_up') or (
                        o.get('reasons') and all(_gave_up(x) for x in o['reasons']))):
                    # The obligation was discharged on the unchanged tree (contracts/baseline/<id>.json)
                    # and now the solver gives up for a reason that is not a time limit (its
                    # quantifier instantiation saturated on a candidate model; the second opinions
                    # did not close it either): a failed obligation.  No failing input is known.
                    rp = os.path.join(ROOT, 'replays', pid, _safe(n) + '.json')
                    json.dump(dict(property=pid, obligation=n, function=r['key'], file=r['file'],
                                   line=o['line'], verifier='pyvc/z3', solver_verdict='unknown',
                                   solver_reasons=o['reasons'], second_opinions=o.get('second_opinions', []),
                                   candidate_model_not_certified=o.get('candidate'),
                                   note=('obligation was discharged on the unchanged tree; now a fresh z3 process '
                                         'given three times the budget answers sat on the negated obligation '
                                         '(a counterexample exists; it could not be read back for replay)'
                                         if o.get('second_sat') else
                                         'obligation was discharged on the unchanged tree and is no longer '
                                         'provable; the solver stopped without a time-out and without a '
                                         'certified counterexample'),
                                   replay_candidates_tried=tried, failing_inputs=[]),
                              open(rp, 'w'), indent=1, default=str)
                    violations.append((n, rp, True))
                else:
                    undecided.append(f"{r['key']}: {n}: solver returned unknown (line {o['line']}; "
                                     f"{'; '.join(sorted(set(o.get('reasons') or [])))[:200]})"
                                     + (f'; bounded native search of {tried} inputs found no failure'
                                        if tried else ''))
            else:
                fails, tried = replay_refutation(REG, c, n, o['model'], pid, known, strict=r['strict'])
                kf = [k for k in known if k.get('obligation') == n]
                rp = os.path.join(ROOT, 'replays', pid, _safe(n) + '.json')
                rec = dict(property=pid, obligation=n, function=r['key'], file=r['file'], line=o['line'],
                           solver_model=o['model'], verifier='pyvc/z3', tier=tier,
                           replay_candidates_tried=tried, failing_inputs=[], note='')
                uncovered = []
                covered = []
                if fails:
                    for desc, res in fails:
                        item = dict(input=desc, failed=res['failed'], detail=res.get('detail', ''))
                        rec['failing_inputs'].append(item)
                        cov = [k for k in kf if _covers(k, desc, res)]
                        (covered if cov else uncovered).append(item)
                if kf and fails and not uncovered:
                    for k in kf:
                        known_lines.append(f"KNOWN-FINDING: property={pid} {k['what']}")
                    rec['note'] = 'all failing inputs are covered by known_findings.json'
                elif kf and not fails and fails is not None and tried:
                    # the obligation is refuted by the solver but no candidate fails natively
                    # any more: the listed finding no longer reproduces -> report honestly
                    rec['note'] = 'refuted, listed as known, but the known witness no longer fails'
                    violations.append((n, rp, True))
                else:
                    rec['note'] = ('counterexample replayed on the real code' if uncovered
                                   else 'refuted obligation; no failing concrete input found')
                    violations.append((n, rp, not uncovered))
                rec['replay_cmd'] = f'bin/vcheck {pid} --replay {os.path.relpath(rp, ROOT)}'
                json.dump(rec, open(rp, 'w'), indent=1, default=str)
    bounded = []
    for e in extra:
        if e.get('kind') == 'bounded':
            # a bounded stand-in is reported, never counted as a discharged obligation
            bounded.append(dict(name=e['name'], verdict='held on everything enumerated'
                                if e['verdict'] == 'proved' else e['verdict'],
                                evaluations=e.get('evaluations'), detail=e.get('detail', ''),
                                distinct=e.get('distinct'), rule=e.get('rule', ''),
                                samples=e.get('samples') or [], exhaustive=bool(e.get('exhaustive'))))
        else:
            n_obl += 1
        if e['verdict'] == 'proved':
            if e.get('kind') != 'bounded':
                n_proved += 1
                by_backend[e.get('backend', 'scan')] = by_backend.get(e.get('backend', 'scan'), 0) + 1
        elif e['verdict'] == 'refuted':
            rp = os.path.join(ROOT, 'replays', pid, _safe(e['name']) + '.json')
            json.dump(dict(property=pid, obligation=e['name'], detail=e.get('detail', ''),
                           failing_inputs=e.get('witness', [])), open(rp, 'w'), indent=1, default=str)
            kf = [k for k in known if k.get('obligation') == e['name']]
            if kf and all(any(_covers(k, w, {}) for k in kf) for w in e.get('witness', [None])):
                for k in kf:
                    known_lines.append(f"KNOWN-FINDING: property={pid} {k['what']}")
            else:
                violations.append((e['name'], rp, not e.get('witness')))
        elif e['verdict'] == 'error':
            errors.append(f"{e['name']}: {e.get('detail', '')}")
        else:
            undecided.append(f"{e['name']}: {e.get('detail', '')}")
    # ---------------------------------------------------------------- vacuity
    vac = dict(requires_sat=sum(1 for r in results if r['vacuity'].get('requires_sat')),
               canaries_refuted=sum(1 for r in results if r['vacuity'].get('canary_refuted')),
               functions=len(results))
    exp = getattr(idx, 'EXPECTED_MIN_OBLIGATIONS', {}).get(pid)
    if bounded_only:
        if not bounded or not sum(b.get('evaluations') or 0 for b in bounded):
            errors.append('vacuity: the bounded check evaluated nothing')
    elif n_obl == 0:
        errors.append('vacuity: zero obligations generated')
    elif exp and n_obl < exp and not violations:
        errors.append(f'vacuity: only {n_obl} obligations generated, expected at least {exp}')
    # ---------------------------------------------------------------- verdict
    wall = time.time() - t0
    if violations:
        # a failed obligation is reported even if another part of the run ended in a checker error
        # (a change of the code often causes both); the errors are printed and recorded as well
        code = 1
    elif errors:
        code = 3
    elif undecided:
        code = 2
    else:
        code = 0
    trusted = sorted(set(getattr(idx, 'TRUSTED_BASE', [])) | set(getattr(idx, 'TRUSTED', {}).get(pid, [])))
    notes = {}
    for r in results:
        for k, v in r['notes'].items():
            notes.setdefault(k, set()).update(v)
    level = 'proof' if (n_obl == n_proved and code == 0) else 'other'
    try:
        from contracts.claims import CLAIMS
        if CLAIMS.get(pid, {}).get('category') == 'other':
            # the claim itself says the property as a whole rests on more than the proved part
            level = 'other'
    except ImportError:
        pass
    cov = dict(
        obligations=n_obl, discharged=n_proved,
        checker_cmd=f'bin/vcheck {pid} --tier {tier}',
        trusted_base=trusted,
        functions_under_contract=funcs,
        by_backend=by_backend, solver_time_s=round(solver_time, 3),
        cvc5_second_opinions=ncvc5,
        inlined=sorted(notes.get('inlined', ())), dropped=sorted(notes.get('dropped', ()))[:40],
        havoc_sites=sorted(notes.get('havoc', ())),
        assumed_contracts=sorted(notes.get('assumed', ())),
        callee_contracts_used=sorted(notes.get('used', ())),
        vacuity=vac, samples=samples or [dict(note='no proved obligation')],
        extra_checks=[dict(name=e['name'], verdict=e['verdict'], kind=e.get('kind', ''),
                           detail=str(e.get('detail', ''))[:300]) for e in extra],
        glue_assumed=getattr(idx, 'GLUE', {}).get(pid, []),
        not_run_in_this_tier=skipped_tier,
        bounded_standins_not_proofs=bounded,
        assumed_contracts_all=[k for k in assumed if pid in REG.contracts[k].props],
        trusted_clauses=sorted(f'{k}: {n}' for k in keys for n in REG.contracts[k].trusted_ensures),
        known_findings=[k['what'] for k in known],
        undecided=undecided[:20], errors=errors[:10],
    )
    if bounded_only:
        # a bounded stand-in (contract checked at run time on the real functions over an enumerated
        # scope): reported as exploration, never as proof
        level = 'exploration'
        cov.update(
            evaluations=int(sum(b.get('evaluations') or 0 for b in bounded)),
            distinct_nontrivial=int(sum(b.get('distinct') or 0 for b in bounded)),
            rule=' || '.join(b.get('rule', '') for b in bounded),
            samples=[s for b in bounded for s in (b.get('samples') or [])][:6] or [dict(note='no sample kept')],
            exhaustive=all(b.get('exhaustive') for b in bounded),
            checker_cmd=f'bin/vcheck {pid} --tier {tier}')
    if level == 'other':
        cov['explanation'] = (f'all {n_obl} obligations discharged, but part of the property is only covered by '
                              'a bounded stand-in (coverage.bounded_standins_not_proofs), see the claim text'
                              ) if (n_obl == n_proved and code == 0) else (
            f'{n_proved} of {n_obl} obligations discharged; the rest are '
            + ('listed known findings (refuted and replayed on the real code); ' if known_lines else '')
            + ('violations; ' if violations else '') + ('undecided; ' if undecided else '')
            + ('checker errors' if errors else '')).strip()
    ev = dict(property_id=pid, tier=tier, seed=int(seed), level=level, coverage=cov,
              assumptions=trusted + [f'glue: {g}' for g in getattr(idx, 'GLUE', {}).get(pid, [])],
              wall_s=round(wall, 2), violations=len(violations))
    # self-tests against seeded defects (tools/seedtest.sh) point VERIF_EVIDENCE_DIR at a scratch
    # directory so that a record of a deliberately broken tree never replaces evidence/<id>.json
    evdir = os.environ.get('VERIF_EVIDENCE_DIR') or os.path.join(ROOT, 'evidence')
    os.makedirs(evdir, exist_ok=True)
    ev = json.loads(json.dumps(ev, default=str))
    bad = _evidence_problems(ev, pid, code)
    if bad:
        errors.extend(bad)
        ev['coverage']['errors'] = errors[:10]
        code = 3
    json.dump(ev, open(os.path.join(evdir, f'{pid}.json'), 'w'), indent=1)
    if code == 0 and os.environ.get('VERIF_WRITE_BASELINE') and not os.environ.get('VERIF_EVIDENCE_DIR'):
        write_baseline(pid, tier, [n for r in results for n, o in r['obligations'].items()
                                   if o['verdict'] == 'proved'])
    # ---------------------------------------------------------------- report
    if bounded_only:
        print(f'{pid}: BOUNDED stand-in (not a proof): {cov.get("evaluations")} cases evaluated, '
              f'{cov.get("distinct_nontrivial")} distinct, in {wall:.1f}s; '
              + '; '.join(f"{b['verdict']}" for b in bounded))
    print(f'{pid}: {n_proved}/{n_obl} obligations discharged over {len(results)} functions '
          f'({sum(r["paths"] for r in results)} paths, z3 {by_backend.get("z3", 0)}, '
          f'cvc5 {by_backend.get("cvc5", 0)}, scan {by_backend.get("scan", 0)}) in {wall:.1f}s')
    if verbose:
        for r in results:
            print(f"  {r['status']:9s} {r['key']}  paths={r['paths']} obl={len(r['obligations'])} t={r['time']}")
    for line in sorted(set(known_lines)):
        print(line)
    for u in undecided[:30]:
        print('UNDECIDED:', u)
    for e in errors[:10]:
        print('CHECKER-ERROR:', e)
    for n, rp, nofail in violations:
        print(f'  failed obligation: {n}')
        print(f'VIOLATION property={pid} replay={rp}' + (' no-failing-input-found' if nofail else ''))
    return code


def _evidence_problems(ev, pid, code):
    """The record must validate against the evidence schema (copy in tools/) and, on a quiet run,
    carry the level MANIFEST.json claims; anything else is a checker error, not a verdict."""
    out = []
    try:
        import jsonschema
        schema = json.load(open(os.path.join(ROOT, 'tools', 'EVIDENCE.schema.json')))
        out += [f'evidence record invalid: {e.message[:200]}'
                for e in jsonschema.Draft202012Validator(schema).iter_errors(ev)]
    except Exception as ex:  # validator missing: the record is still written
        print(f'note: evidence record not schema-checked ({ex!r})', file=sys.stderr)
    cov = ev['coverage']
    if ev['level'] == 'proof' and cov['discharged'] != cov['obligations']:
        out.append('evidence record invalid: level proof with discharged != obligations')
    if ev['level'] == 'other' and not str(cov.get('explanation', '')).strip():
        out.append('evidence record invalid: level other without coverage.explanation')
    if code == 0:
        try:
            man = json.load(open(os.path.join(ROOT, 'MANIFEST.json')))
            cat = next((c['level_claimed']['category'] for c in man['checks'] if c['property_id'] == pid), None)
        except Exception:
            cat = None
        if cat is not None and cat != ev['level']:
            out.append(f"evidence level '{ev['level']}' differs from MANIFEST level_claimed.category '{cat}'")
    return out


def _safe(n):
    import re
    return re.sub(r'[^A-Za-z0-9_.-]+', '_', n)[:150]


def _covers(k, desc, res):
    cov = k.get('covers')
    if not cov:
        return True
    mod, name = cov.split(':')
    try:
        return bool(getattr(importlib.import_module(mod), name)(desc, res))
    except Exception:
        return False


def main(argv=None):
    import argparse
    ap = argparse.ArgumentParser()
    ap.add_argument('pid')
    ap.add_argument('--tier', default=os.environ.get('VERIF_TIER', 'quick'))
    ap.add_argument('--replay')
    ap.add_argument('-v', action='store_true')
    ap.add_argument('-j', type=int, default=16)
    a = ap.parse_args(argv)
    seed = int(os.environ.get('VERIF_SEED', '0') or 0)
    if a.replay:
        rec = json.load(open(os.path.join(ROOT, a.replay) if not os.path.isabs(a.replay) else a.replay))
        print(json.dumps(rec, indent=1))
        return 0
    try:
        return run_property(a.pid, a.tier, seed, a.j, a.v)
    except Exception:
        traceback.print_exc()
        print('CHECKER-ERROR: crash in runner')
        return 3


if __name__ == '__main__':
    sys.exit(main())
