"""Bounded native companion of contracts/c13_dependency.py (NOT a proof, never counted as one).

The call-site obligations of Dependency.get_prerequisite speak about point values that are texts
in the real code; when a changed body breaks them z3 tends to give up on the text arithmetic
instead of producing a counter-model.  This enumeration runs the REAL get_prerequisite on every
combination of a small scope and compares each recorded value with the same specification, so that
a broken body is reported with a failing input.

Scope: integer cycling; initial point in 1..3; start point = initial + 0..2; dependent point from
initial-0 to initial+4; one or two triggers, each with an offset from {none, -P1, -P2, +P1, ^, ^+P1};
no offset / relative / from-the-initial-point flags as the graph parser sets them."""
import itertools


def _cases():
    from cylc.flow.task_trigger import TaskTrigger
    from cylc.flow.cycling.integer import IntegerPoint
    offsets = [(None, False), ('-P1', False), ('-P2', False), ('+P1', False), ('+P0', True), ('+P1', True)]
    for icp in (1, 2, 3):
        for dstart in (0, 1, 2):
            start = icp + dstart
            for point in range(icp, icp + 5):
                for n in (1, 2):
                    for combo in itertools.product(offsets, repeat=n):
                        trigs = []
                        for i, (off, from_icp) in enumerate(combo):
                            trigs.append(TaskTrigger(
                                f't{i}', off, 'succeeded', offset_is_irregular=False,
                                offset_is_absolute=False, offset_is_from_icp=from_icp,
                                initial_point=IntegerPoint(str(icp))))
                        yield icp, start, point, combo, trigs


class _TDef:
    def __init__(self, icp, start):
        from cylc.flow.cycling.integer import IntegerPoint
        self.initial_point = IntegerPoint(str(icp))
        self.start_point = IntegerPoint(str(start))
        self.max_future_prereq_offset = None
        self.name = 'dependent'


def _expected(icp, start, point, off, from_icp):
    from cylc.flow.cycling.integer import IntegerPoint, get_point_relative
    if off is None:
        return False
    base = IntegerPoint(str(icp if from_icp else point))
    target = int(get_point_relative(off, base))
    return target < icp or (target < start and point >= start)


def check(tier='quick', seed=0):
    import cylc.flow.cycling.integer  # noqa: F401
    from cylc.flow.cycling.loader import ISO8601_CYCLING_TYPE, INTEGER_CYCLING_TYPE  # noqa: F401
    from cylc.flow.cycling.integer import IntegerPoint
    from cylc.flow.cycling import loader
    from cylc.flow.task_trigger import Dependency
    loader.DefaultCycler.TYPE = INTEGER_CYCLING_TYPE
    name = ('bounded::Dependency.get_prerequisite records "satisfied" exactly for targets before the '
            'initial point, or before the start point when the dependent is not')
    n = 0
    bad = []
    for icp, start, point, combo, trigs in _cases():
        n += 1
        # "&"-joined expression: no conditional expression needed
        exp = []
        for i, t in enumerate(trigs):
            if i:
                exp.append('&')
            exp.append(t)
        dep = Dependency(exp, set(trigs), False)
        tdef = _TDef(icp, start)
        try:
            pre = dep.get_prerequisite(IntegerPoint(str(point)), tdef)
        except Exception as ex:     # noqa: BLE001 - the witness is the point of this check
            bad.append(dict(initial=icp, start=start, point=point, offsets=[list(c) for c in combo],
                            raised=repr(ex)))
            continue
        for t, (off, from_icp) in zip(trigs, combo):
            key = (str(t.get_point(IntegerPoint(str(point)))), t.task_name, t.output)
            got = bool(pre._satisfied.get(key, None))
            want = _expected(icp, start, point, off, from_icp)
            if key not in pre._satisfied or got != want:
                bad.append(dict(initial=icp, start=start, point=point, trigger=t.task_name, offset=off,
                                from_initial_point=from_icp, recorded=pre._satisfied.get(key, 'missing'),
                                expected_satisfied=want))
        if len(bad) >= 5:
            break
    if bad:
        return [dict(name=name, kind='bounded', verdict='refuted', evaluations=n, witness=bad[:5],
                     detail='the real get_prerequisite records a different initial state')]
    return [dict(name=name, kind='bounded', verdict='proved', evaluations=n,
                 detail=f'{n} (initial, start, point, triggers) combinations, exhaustive over the stated scope')]
