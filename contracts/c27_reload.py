"""C27 — reload preserves task state: the copy-to-successor step under contract.

TaskPool._reload_taskdefs builds the successor proxy with the old point, flow numbers and STATUS
(constructor arguments) and then calls TaskProxy.copy_to_reload_successor.  Verified here, as a FRAGMENT
(the statements of the real body before the comment block about prerequisites - everything up to, not
including, the `pre_reload = {...}` dict comprehension): the successor gets the old proxy's submit number,
flow-wait and manual-trigger flags, job bookkeeping (timers, platform, summary) BY IDENTITY, the very same
outputs object (so every completed output stays completed), and the held and runahead flags.
NOT covered by this contract: the prerequisite carry-over loop that follows (nested dict comprehension over
prerequisites; the bounded check c27_bounded exercises it) and _reload_taskdefs itself.
Noted: `is_queued` is not copied - the queues are rebuilt empty by _reload_taskdefs and the task is
re-queued by the next main-loop pass; the property lists the queued flag among the preserved ones."""
from pyvc.spec import (contract, schema, spec, uninterp, implies, iff, forall, exists, REG)
import contracts.shared_task  # noqa: F401
import contracts.c09_state  # noqa: F401

T = 'cylc.flow.task_proxy:TaskProxy.'
PROPS = ['C27']

import contracts.c10_messages  # noqa: F401,E402  (itask.summary is the record RecSummary declared there)

schema('TaskProxy', 'cylc.flow.task_proxy:TaskProxy', fields={
    'reload_successor': 'opt[TaskProxy]', 'local_job_file_path': 'any',
    'try_timers': 'dict[str,TaskActionTimer]', 'platform': 'any', 'poll_timer': 'any',
    'timeout': 'any', 'mode_settings': 'any'})
schema('TaskState', 'cylc.flow.task_state:TaskState', fields={'outputs': 'TaskOutputs'})

contract(T + 'copy_to_reload_successor',
         sorts={'self': 'TaskProxy', 'reload_successor': 'TaskProxy', 'check_output': 'any'},
         requires=['self is not reload_successor', 'self.state is not reload_successor.state'],
         ensures={
             'linked': 'self.reload_successor is reload_successor',
             'submit-number-kept': 'reload_successor.submit_num == self.submit_num',
             'flow-wait-and-manual-flags-kept': 'reload_successor.flow_wait == self.flow_wait '
                                                'and reload_successor.is_manual_submit == self.is_manual_submit',
             'completed-outputs-kept-the-same-outputs-object':
                 'reload_successor.state.outputs is self.state.outputs',
             'held-and-runahead-flags-kept': 'reload_successor.state.is_held == self.state.is_held '
                                             'and reload_successor.state.is_runahead == self.state.is_runahead',
             'retry-timers-kept': 'reload_successor.try_timers is self.try_timers',
             'status-of-both-untouched': 'reload_successor.state.status == old(reload_successor.state.status) '
                                         'and self.state.status == old(self.state.status)',
             'the-old-proxy-is-not-changed':
                 'self.submit_num == old(self.submit_num) and self.state.is_held == old(self.state.is_held) '
                 'and self.state.is_runahead == old(self.state.is_runahead) '
                 'and self.state.outputs is old(self.state.outputs)',
         },
         modifies=['self.reload_successor', 'reload_successor.submit_num', 'reload_successor.flow_wait',
                   'reload_successor.is_manual_submit', 'reload_successor.summary',
                   'reload_successor.local_job_file_path', 'reload_successor.try_timers',
                   'reload_successor.platform', 'reload_successor.job_vacated', 'reload_successor.poll_timer',
                   'reload_successor.timeout', 'reload_successor.state.outputs', 'reload_successor.state.is_held',
                   'reload_successor.state.is_runahead', 'reload_successor.state.is_updated',
                   'reload_successor.mode_settings'],
         options={'fragment_before': 'pre_reload'},
         props=PROPS)
