"""C17 — datetime recurrences are consistent with brute-force enumeration.  BOUNDED stand-in, not a proof.

ISO8601Sequence delegates the recurrence arithmetic to metomi.isodatetime (third party: calendar
arithmetic, time zones) and wraps it in caches; a proof would be relative to an assumed recurrence model
that is exactly what the property wants checked.  The contract

    L := the ordered list obtained by iterating the library recurrence (bounded by the context points)
         and removing the excluded points
    is_valid(p) == (p in L);  get_next_point(p) == min{q in L | q > p};  get_prev_point(p) (p in L) and
    get_nearest_prev_point(p) == max{q in L | q < p};  get_first_point(p) == min{q in L | q >= p};
    get_start_point() == L[0];  get_stop_point() == L[-1]   (None where there is no such point);
    and the answers of a fresh sequence object do not depend on the order of the queries

is checked at run time on the REAL class for the recurrences, contexts, calendars, time zones, probe
points and query orders listed in `rule`."""
import random

# {dN} = initial point + N days (rendered in the mode's calendar and time zone)
TEMPLATES = [
    'P1D', 'PT12H', 'P2D', 'T06', 'T12', 'R/P3D', 'R3/P1D', 'R3/{d2}/P1D', 'R/{d1}/P2D', 'R2/P2D/{d8}',
    '{d2}/P1D', 'P1D/{d7}', 'R1', 'R1/P0D', 'R1/{d4}', '+P1D/P2D', 'R/+P2D/P3D', 'R4/P1D/+P5D', 'PT6H',
    'R/P1D/{d6}', 'R2/{d0}/P3D', 'R/^+P1D/P2D', 'R1/{d9}', 'R3/P1D/{d9}', 'P1W', 'R/{d0}/P1M', 'R2/{d1}/{d5}',
    'R1/$-P1D', 'R/-P1D/P1D',
    # exclusions: points and sequences
    'P1D!{d2}', 'P1D!({d2},{d3})', 'P1D!{d9}', 'P1D!({d8},{d9})', 'R4/{d0}/P1D!({d2},{d3})', 'PT12H!T12',
    'P1D!P2D', 'R3/P1D!{d0}', 'P1D!({d0},{d1})', 'R4/{d0}/P1D!({d1},{d2},{d3})', 'PT6H!(T06,T18)',
    'PT12H!({d1},T12)', 'R1!{d0}', 'P1D!+P1D/P3D', 'R3/P1D/{d9}!({d8},{d9})',
]
CONTEXTS = [('20000101T0000', 9), ('20000225T0000', 9)]
CALENDARS = ['gregorian', '360day', '365day', '366day']
ZONES = ['Z', '+0530', '-0800']
LIMIT = 400


def _init(calendar, zone):
    from cylc.flow.cycling import loader, iso8601
    loader.DefaultCycler.TYPE = loader.ISO8601_CYCLING_TYPE
    iso8601.init(time_zone=zone, custom_dump_format=None, cycling_mode=calendar)


def _enumerate(recurrence, window_end):
    """(points up to window_end in iteration order, whether the recurrence ended before the window did)"""
    from cylc.flow.cycling.iso8601 import ISO8601Point
    pts = []
    for i, p in enumerate(recurrence):
        q = ISO8601Point(str(p)).standardise()
        if q > window_end:
            return pts, False
        if i > LIMIT:
            return None, False
        pts.append(q)
    return pts, True


def _oracle(seq, window_end):
    """(ordered list of points up to window_end: library iteration minus exclusions, evaluated
    independently of the class under test; whether that list is the whole sequence)"""
    pts, finite = _enumerate(seq.recurrence, window_end)
    if pts is None:
        return None, False
    excl = []
    if seq.exclusions:
        excl = [p.standardise() for p in seq.exclusions.exclusion_points]
        for es in seq.exclusions.exclusion_sequences:
            epts, _ = _enumerate(es.recurrence, window_end)
            if epts is None:
                return None, False
            excl.extend(epts)
    if any(a >= b for a, b in zip(pts, pts[1:])):
        return None, False        # not iterated in ascending order: outside the enumerated scope
    return [p for p in pts if not any(p == e for e in excl)], finite


def _probes(L, icp, fcp):
    from cylc.flow.cycling.iso8601 import ISO8601Interval
    allp = []
    inside = [q for q in L if q <= fcp + ISO8601Interval('P1D')]
    base = [icp, fcp] + inside[:6] + inside[-3:]
    for p in base:
        for off in ('PT0H', 'PT1H', '-PT1H', 'P1D', '-P1D'):
            q = p - ISO8601Interval(off[1:]) if off.startswith('-') else p + ISO8601Interval(off)
            allp.append(q.standardise())
    seen, out = set(), []
    last = (fcp + ISO8601Interval('P2D')).standardise()      # well inside the enumeration window
    for p in allp:
        if str(p) not in seen and p <= last:
            seen.add(str(p))
            out.append(p)
    return out


QUERIES = ['is_valid', 'get_next_point', 'get_nearest_prev_point', 'get_first_point', 'get_prev_point']


def _one(seq, n, p):
    try:
        r = getattr(seq, n)(p) if p is not None else getattr(seq, n)()
    except Exception as ex:     # noqa: BLE001 - an exception is an answer that must also be order independent
        return 'raised ' + type(ex).__name__
    return r if r is None or isinstance(r, bool) else str(r)


def _answers(seq, qs):
    return {(n, str(p) if p is not None else ''): _one(seq, n, p) for n, p in qs}


SKIP = object()


def _expect(L, Ls, finite, name, p):
    """the contract's answer; SKIP where the truncated enumeration cannot tell (beyond the window)"""
    if name == 'get_start_point':
        return Ls[0] if Ls else (None if finite else SKIP)
    if name == 'get_stop_point':
        # unbounded recurrence: None whatever the exclusions
        return (Ls[-1] if Ls else None) if finite else None
    if name == 'is_valid':
        return any(q == p for q in L)
    if name == 'get_next_point':
        c = [q for q in L if q > p]
        return str(c[0]) if c else (None if finite else SKIP)
    if name in ('get_nearest_prev_point', 'get_prev_point'):
        c = [q for q in L if q < p]
        return str(c[-1]) if c else None
    if name == 'get_first_point':
        c = [q for q in L if q >= p]
        return str(c[0]) if c else (None if finite else SKIP)
    raise KeyError(name)


def check(tier='quick', seed=0):
    from cylc.flow.cycling.iso8601 import ISO8601Sequence, ISO8601Point, ISO8601Interval
    from metomi.isodatetime.data import Calendar
    rng = random.Random(seed)
    if tier == 'quick':
        modes = [(c, 'Z') for c in CALENDARS] + [('gregorian', z) for z in ZONES[1:]]
        n_orders = 2
    else:
        modes = [(c, z) for c in CALENDARS for z in ZONES]
        n_orders = 6
    n_eval, n_seq, skipped, bad, samples, distinct = 0, 0, [], [], [], set()
    try:
        for calendar, zone in modes:
            _init(calendar, zone)
            for icp_s, ndays in CONTEXTS:
                icp = ISO8601Point(icp_s + zone).standardise()
                days = {f'd{n}': str(icp + ISO8601Interval(f'P{n}D')) for n in range(ndays + 1)}
                fcp = ISO8601Point(days[f'd{ndays}']).standardise()
                window_end = (fcp + ISO8601Interval('P6D')).standardise()
                for tmpl in TEMPLATES:
                    rec = tmpl.format(**days)
                    where = dict(recurrence=rec, context=[str(icp), str(fcp)], calendar=calendar, time_zone=zone)
                    try:
                        seq = ISO8601Sequence(rec, str(icp), str(fcp))
                    except Exception as ex:     # noqa: BLE001 - not accepted by Cylc: outside the property
                        skipped.append((rec, calendar, type(ex).__name__))
                        continue
                    L, finite = _oracle(seq, window_end)
                    if L is None:
                        skipped.append((rec, calendar, 'not enumerable'))
                        continue
                    n_seq += 1
                    Ls = [str(p) for p in L]
                    shown = Ls if len(Ls) <= 12 else Ls[:6] + ['...'] + Ls[-3:]
                    probes = _probes(L, icp, fcp)
                    qs = [(n, p) for n in QUERIES for p in probes] + [('get_start_point', None),
                                                                      ('get_stop_point', None)]
                    base = _answers(seq, qs)
                    for (name, p) in qs:
                        got = base[(name, str(p) if p is not None else '')]
                        if name == 'get_prev_point' and not any(q == p for q in L):
                            continue        # documented for points of the sequence
                        want = _expect(L, Ls, finite, name, p)
                        if want is SKIP:
                            continue
                        n_eval += 1
                        distinct.add((rec, name, str(got)))
                        if got != want and len(bad) < 12:
                            bad.append(dict(where, query=name, point=str(p) if p is not None else None, got=got,
                                            expected=want, points=shown))
                    # cache transparency: fresh objects asked in other orders, and the same object asked again
                    again = _answers(seq, qs)
                    orders = [('same object, second time', again)]
                    for k in range(n_orders):
                        qs2 = list(qs)
                        if k == 0:
                            qs2.reverse()
                        else:
                            rng.shuffle(qs2)
                        orders.append((f'fresh object, order #{k}', _answers(ISO8601Sequence(rec, str(icp), str(fcp)),
                                                                              qs2)))
                    for label, other in orders:
                        n_eval += 1
                        diff = [k for k in base if base[k] != other.get(k)]
                        if diff and len(bad) < 12:
                            k = diff[0]
                            bad.append(dict(where, query=k[0], point=k[1], first_answer=base[k],
                                            other_answer=other.get(k), order=label, clause='cache transparency',
                                            points=shown))
                    if len(samples) < 3 and len(Ls) >= 3:
                        samples.append(dict(where, points=Ls[:4]))
    finally:
        Calendar.default().set_mode('gregorian')
    name = ('bounded::membership, next / previous / first / nearest-previous, start and stop points agree with '
            'the enumerated recurrence minus exclusions; answers do not depend on the query order')
    rule = (f'{len(TEMPLATES)} recurrence templates (all documented formats, relative and truncated points, '
            f'exclusion points and exclusion sequences) x contexts {[c for c, _ in CONTEXTS]} + 9 days x modes '
            f'{modes} = {n_seq} accepted bounded sequences ({len(skipped)} rejected or unbounded: skipped) x ~45 '
            f'probe points on, between and around the points x 7 queries; {n_orders} other query orders on fresh '
            'objects + a repeat on the same object; distinct = distinct (recurrence, query, answer)')
    base_d = dict(name=name, kind='bounded', evaluations=n_eval, distinct=len(distinct), rule=rule,
                  samples=samples)
    if n_seq < len(modes) * len(CONTEXTS) * len(TEMPLATES) * 0.7:
        return [dict(base_d, verdict='unknown', detail=f'only {n_seq} sequences accepted; skipped {skipped[:8]}')]
    if bad:
        return [dict(base_d, verdict='refuted', witness=bad, detail=f'{len(bad)} disagreements')]
    return [dict(base_d, verdict='proved', detail=f'{n_eval} answers over {n_seq} sequences')]
