"""C24 — restricted expression evaluation cannot run arbitrary code.

validated(n) := allowed(n) and children_validated(n), where allowed(n) is
`isinstance(n, whitelist)` and children_validated(n) says the same of every
node below n.  RestrictedNodeVisitor.visit is proved to return normally only
for validated nodes (by structural induction carried by its own contract
through ast.NodeVisitor.visit); the `eval` call in restricted_evaluator._eval
is a *sink* that requires validated(<the very node that is compiled>), empty
builtins as globals and exactly the supplied variables as locals."""
import ast

import z3

from pyvc.spec import (contract, schema, spec, uninterp, implies, iff, forall, exists, REG)
from pyvc.core import SV, Unsupported
from pyvc.kinds import Kind, BOOL
from cylc.flow.util import _RestrictedEvalError  # noqa: F401

U = 'cylc.flow.util:'

schema('AstNode', '', fields={})
schema('RestrictedNodeVisitor', 'cylc.flow.util:RestrictedNodeVisitor', fields={'_whitelist': 'any'})


@uninterp(sorts=('AstNode',), result='bool')
def allowed(node):
    """isinstance(node, whitelist) for the evaluator's whitelist"""
    raise NotImplementedError


@uninterp(sorts=('AstNode',), result='bool')
def children_validated(node):
    """every node strictly below `node` is whitelisted"""
    raise NotImplementedError


@spec
def validated(node):
    return allowed(node) and children_validated(node)


def _isinstance_ast(eng, v, c):
    # isinstance(<parsed node>, <whitelist>): the abstract predicate `allowed`
    return SV(BOOL, eng.call_function(allowed, [v], {}).t)


REG.externals[('isinstance', 'AstNode')] = _isinstance_ast


def _ast_parse(eng, args, kwargs):
    """ast.parse(text, mode='eval'): some tree, or SyntaxError"""
    if eng.p.choose(eng.p.fresh('syntaxerror', z3.BoolSort())):
        eng.raise_(SyntaxError, 'ast.parse')
    return eng.sym('tree', Kind('AstNode'))


REG.externals[ast.parse] = _ast_parse
REG.externals[('exception_factory', '_get_exception')] = True

contract('ast:NodeVisitor.visit',
         sorts={'self': 'RestrictedNodeVisitor', 'node': 'AstNode'},
         # CPython: dispatches to generic_visit, which calls self.visit on every child node and
         # returns normally only if all those calls do (self.visit obeys the contract below)
         raises={'_RestrictedEvalError': 'not children_validated(node)'},
         pure=True, assumed=True, props=['C24'],
         note='stdlib ast.NodeVisitor.visit/generic_visit; structural induction hypothesis')

contract(U + 'RestrictedNodeVisitor.visit',
         sorts={'self': 'RestrictedNodeVisitor', 'node': 'AstNode'},
         # rejected before anything else happens iff the node itself is not whitelisted;
         # returns normally only if the whole subtree is whitelisted
         raises={'_RestrictedEvalError': 'not validated(node)'},
         pure=True, props=['C24'])


def _eval_sink(eng, e):
    """eval(compile(<node>, ..., 'eval'), {'__builtins__': {}}, <variables>)"""
    fr = eng.frame
    qn = fr.qualname
    ok_shape = (
        len(e.args) == 3 and not e.keywords
        and isinstance(e.args[0], ast.Call) and isinstance(e.args[0].func, ast.Name)
        and e.args[0].func.id == 'compile' and len(e.args[0].args) == 3
        and isinstance(e.args[0].args[2], ast.Constant) and e.args[0].args[2].value == 'eval'
    )
    # globals: the literal {'__builtins__': {}} - no builtins, no other names
    glob_ok = (ok_shape and isinstance(e.args[1], ast.Dict) and len(e.args[1].keys) == 1
               and isinstance(e.args[1].keys[0], ast.Constant)
               and e.args[1].keys[0].value == '__builtins__'
               and isinstance(e.args[1].values[0], ast.Dict) and not e.args[1].values[0].keys)
    # locals: exactly the **variables mapping of the evaluator
    import inspect
    sig = inspect.signature(fr.func) if fr.func is not None else None
    kwname = next((n for n, p_ in sig.parameters.items() if p_.kind == p_.VAR_KEYWORD), None) if sig else None
    loc_ok = ok_shape and isinstance(e.args[2], ast.Name) and e.args[2].id == kwname
    eng.prove(f'{qn}::eval-sink[globals are {{"__builtins__": {{}}}}]', z3.BoolVal(bool(glob_ok)), line=e.lineno)
    eng.prove(f'{qn}::eval-sink[locals are exactly the supplied variables]', z3.BoolVal(bool(loc_ok)),
              line=e.lineno)
    if not ok_shape:
        eng.prove(f'{qn}::eval-sink[compiles a validated node]', z3.BoolVal(False), line=e.lineno)
        raise Unsupported('eval call of unexpected shape')
    node = eng.force(eng.eval(e.args[0].args[0]))
    if node.kind.name != 'AstNode':
        eng.prove(f'{qn}::eval-sink[compiles a validated node]', z3.BoolVal(False), line=e.lineno)
        raise Unsupported('eval of something that is not the parsed tree')
    eng.prove(f'{qn}::eval-sink[compiles a validated node]',
              eng.call_function(validated, [node], {}).t, line=e.lineno)
    return eng.sym('evalresult', Kind('any'))


REG.externals[('sink', 'eval')] = _eval_sink

contract('cylc.flow.task_outputs:CompletionEvaluator',
         sorts={'expr': 'str', 'variables': '={}', 'result': 'any'},
         # any error class may come out (syntax error, non-whitelisted node, runtime NameError...)
         may_raise=['Exception'],
         ensures={},
         props=['C24'],
         note='restricted_evaluator.<locals>._eval, instance used for completion expressions')


def whitelist_check(tier='quick', seed=0):
    """The whitelist of the completion evaluator contains no node type that can call,
    subscript, access attributes, bind names or build functions/comprehensions."""
    from cylc.flow.task_outputs import CompletionEvaluator
    cells = dict(zip(CompletionEvaluator.__code__.co_freevars,
                     (c.cell_contents for c in CompletionEvaluator.__closure__)))
    if 'visitor' not in cells or not hasattr(cells['visitor'], '_whitelist'):
        return [dict(name='scan::CompletionEvaluator whitelist is a subset of {Expression, Name, Load, BoolOp, '
                          'And, Or, BinOp}', kind='census', verdict='unknown', backend='scan',
                     detail='the evaluator closure no longer holds a `visitor` with a `_whitelist`: '
                            f'free variables {sorted(cells)}')]
    wl = cells['visitor']._whitelist
    allowed_types = {ast.Expression, ast.Name, ast.Load, ast.BoolOp, ast.And, ast.Or, ast.BinOp}
    bad = [t.__name__ for t in wl if t not in allowed_types]
    name = 'scan::CompletionEvaluator whitelist is a subset of {Expression, Name, Load, BoolOp, And, Or, BinOp}'
    if bad:
        return [dict(name=name, kind='census', verdict='refuted', backend='scan',
                     detail=f'whitelist also admits {bad}', witness=[dict(extra_node_types=bad)])]
    return [dict(name=name, kind='census', verdict='proved', backend='scan',
                 detail=f'whitelist = {sorted(t.__name__ for t in wl)} (BinOp has no whitelisted operator)')]
