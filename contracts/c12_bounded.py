"""C12 — required / optional output classification matches the expression.  BOUNDED stand-in, not a proof.

get_optional_outputs evaluates the completion expression (a string) once per output through the restricted
evaluator; the planned proof needed a token-tree model of expression strings (DESIGN 4.5) that was not
built.  The contract is checked at run time on the REAL functions for every expression of the bound:

  for every and/or expression tree over <= 4 leaves drawn from {succeeded, failed, x, y, expired,
  submit_failed} (all tree shapes, all leaf assignments without repetition):
   (1) get_optional_outputs: an output is `required` (False) exactly when the expression - evaluated by an
       independent tree evaluator - is false with every output present except that one and except expired
       and submit_failed; `optional` (True) when referenced and not required; None when not referenced
   (2) TaskOutputs(expr).iter_required_messages() yields exactly the messages of the required outputs
   (3) skip mode: run_modes.skip.process_outputs(task, None) contains submitted, started, every required
       message (of the success branch) and exactly one of succeeded / failed"""
import itertools
from types import SimpleNamespace

VARS = ['succeeded', 'failed', 'x', 'y', 'expired', 'submit_failed']
MESSAGES = {'succeeded': 'succeeded', 'failed': 'failed', 'x': 'the x message', 'y': 'y', 'expired': 'expired',
            'submit_failed': 'submit-failed', 'submitted': 'submitted', 'started': 'started'}
TRIGGERS = {'submit_failed': 'submit-failed'}


def _shapes(n):
    def build(lo, hi):
        if hi - lo == 1:
            yield lo
            return
        for mid in range(lo + 1, hi):
            for left in build(lo, mid):
                for right in build(mid, hi):
                    for op in ('and', 'or'):
                        yield (op, left, right)
    return list(build(0, n))


def _text(tree, leaves):
    if isinstance(tree, int):
        return leaves[tree]
    op, a, b = tree
    return f'({_text(a, leaves)} {op} {_text(b, leaves)})'


def _truth(tree, leaves, val):
    if isinstance(tree, int):
        return val[leaves[tree]]
    op, a, b = tree
    return (_truth(a, leaves, val) and _truth(b, leaves, val)) if op == 'and' else \
        (_truth(a, leaves, val) or _truth(b, leaves, val))


def _outputs_obj(expr):
    from cylc.flow.task_outputs import TaskOutputs
    out = TaskOutputs(expr)
    for var in ['submitted', 'started'] + VARS:
        out.add(TRIGGERS.get(var, var), MESSAGES[var])
    return out


def check(tier='quick', seed=0):
    from cylc.flow.task_outputs import get_optional_outputs
    from cylc.flow.run_modes.skip import process_outputs
    nmax = 3 if tier == 'quick' else 4
    n_eval, bad, samples, distinct = 0, [], [], set()
    all_outputs = set(VARS)
    for n in range(1, nmax + 1):
        for tree in _shapes(n):
            for leaves in itertools.permutations(VARS, n):
                expr = _text(tree, leaves)
                n_eval += 1
                want = {}
                for v in VARS:
                    if v not in leaves:
                        want[v] = None
                        continue
                    val = {u: (u != v and u not in ('expired', 'submit_failed')) for u in VARS}
                    want[v] = bool(_truth(tree, leaves, val))    # True = still complete without v = optional
                try:
                    got = get_optional_outputs(expr, all_outputs)
                except Exception as ex:     # noqa: BLE001
                    bad.append(dict(expression=expr, error=repr(ex)))
                    continue
                distinct.add(tuple(sorted((k, str(v)) for k, v in got.items())))
                if got != want:
                    if len(bad) < 6:
                        bad.append(dict(clause=1, expression=expr, classification=got, expected=want))
                    continue
                required = sorted(MESSAGES[v] for v in VARS if want[v] is False)
                outs = _outputs_obj(expr)
                got_req = sorted(outs.iter_required_messages())
                if got_req != required and len(bad) < 6:
                    bad.append(dict(clause=2, expression=expr, required_messages=got_req, expected=required))
                # skip mode (default outputs): required outputs of the success branch + one of succ/failed
                itask = SimpleNamespace(state=SimpleNamespace(outputs=outs))
                res = process_outputs(itask, None)
                succ_req = sorted(outs.iter_required_messages(disable='failed'))
                miss = [m for m in succ_req if m not in res and m not in ('succeeded', 'failed')]
                one = ('succeeded' in res) != ('failed' in res)
                if (miss or not one or 'submitted' not in res or 'started' not in res) and len(bad) < 6:
                    bad.append(dict(clause=3, expression=expr, skip_outputs=sorted(res), missing=miss))
                if len(samples) < 3 and n == nmax:
                    samples.append(dict(expression=expr, classification=got))
    name = ('bounded::required / optional / unreferenced classification, required messages and default skip-mode '
            'outputs agree with the expression')
    rule = (f'every and/or tree with <= {nmax} leaves x every assignment of distinct leaves from {VARS} '
            '(independent tree evaluator as oracle); distinct = distinct classifications')
    base = dict(name=name, kind='bounded', evaluations=n_eval, distinct=len(distinct), rule=rule,
                samples=samples, exhaustive=True)
    if bad:
        return [dict(base, verdict='refuted', witness=bad, detail=f'{len(bad)} expressions')]
    return [dict(base, verdict='proved', detail=f'{n_eval} expressions')]
