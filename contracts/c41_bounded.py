"""C41 — literal task environment values reach the job unchanged.  BOUNDED stand-in, not a proof.

What a double-quoted bash word evaluates to is bash's semantics, not code of /repo (the planned proof was
"relative to a stated model of bash double quotes").  The contract

    for an environment {V_i: value_i} in configuration order whose values contain none of the
    shell-expansion characters  $ ` \\ " (and no leading ~, no %( parameter template):
        after running the function that JobFileWriter._write_runtime_environment writes,
        bash's  "$V_i"  ==  value_i   exactly, for every i
    and a later value may refer to an earlier variable:  A=1, B=$A/2  gives  B == "1/2"

is checked at run time: the REAL writer produces the script text, the real /bin/bash evaluates it, for
every value of <= 3 characters (quick; 4 thorough) over an alphabet of ordinary and shell-special characters."""
import io
import itertools
import subprocess

ALPHABET = ['a', ' ', "'", '*', '?', '#', ';', '&', '|', '(', '<', '{', '[', '=', '~', '\t', '\n', '!', '%', '-']


def _values(tier):
    n = 3 if tier == 'quick' else 4
    for k in range(0, n + 1):
        for t in itertools.product(ALPHABET, repeat=k):
            v = ''.join(t)
            if v.startswith('~'):
                continue           # tilde expansion is intended for leading ~
            yield v


def _evaluate(env):
    """real writer + real bash -> {var: value as the job sees it}"""
    from cylc.flow.job_file import JobFileWriter
    buf = io.StringIO()
    JobFileWriter._write_runtime_environment(buf, {'environment': env, 'param_var': {}})
    script = buf.getvalue() + '\ncylc__job__inst__user_env\n' + ''.join(
        f'printf "%s\\0" "${{{v}}}"\n' for v in env)
    out = subprocess.run(['/bin/bash', '--noprofile', '--norc', '-c', script], capture_output=True, timeout=60)
    if out.returncode != 0:
        return None, out.stderr.decode(errors='replace')[:300]
    parts = out.stdout.decode(errors='surrogateescape').split('\0')[:-1]
    return dict(zip(env, parts)), ''


def check(tier='quick', seed=0):
    vals = list(_values(tier))
    n_eval, bad, samples, distinct = 0, [], [], set()
    chunk = 400
    for i in range(0, len(vals), chunk):
        env = {f'V{j}': v for j, v in enumerate(vals[i:i + chunk])}
        got, err = _evaluate(env)
        n_eval += len(env)
        if got is None:
            # find the culprit one by one
            for k, v in env.items():
                g1, e1 = _evaluate({k: v})
                if g1 is None or g1.get(k) != v:
                    bad.append(dict(value=v, job_sees=None if g1 is None else g1.get(k), bash_error=e1))
                    if len(bad) >= 6:
                        break
            continue
        for k, v in env.items():
            distinct.add(v)
            if got.get(k) != v and len(bad) < 6:
                bad.append(dict(value=v, job_sees=got.get(k)))
        if len(samples) < 2:
            samples.append(dict(value=vals[i + 7] if len(vals) > i + 7 else vals[i], job_sees=got.get('V7', '')))
    # definition order: later values may use earlier variables
    n_eval += 1
    got, err = _evaluate({'A': '1', 'B': '$A/2', 'C': '${B}-$A'})
    if got is None or got != {'A': '1', 'B': '1/2', 'C': '1/2-1'}:
        bad.append(dict(environment={'A': '1', 'B': '$A/2', 'C': '${B}-$A'}, job_sees=got, bash_error=err))
    # ... whatever kind of value the earlier one is (command substitution), interleaved with plain ones
    for env, want in (
        ({'STAMP': '$(printf 2020)', 'LABEL': 'run-${STAMP}', 'Z': 'z'},
         {'STAMP': '2020', 'LABEL': 'run-2020', 'Z': 'z'}),
        ({'P': 'p', 'Q': '`printf q`$P', 'R': '${Q}r', 'S': '$(printf %s "$R")s'},
         {'P': 'p', 'Q': 'qp', 'R': 'qpr', 'S': 'qprs'}),
    ):
        n_eval += 1
        got, err = _evaluate(env)
        if got is None or got != want:
            bad.append(dict(environment=env, job_sees=got, expected=want, bash_error=err,
                            clause='configuration order'))
    # a leading "~" that cannot be a login name (blank before any "/"): nothing for the shell to expand
    tilde = ['~5 minutes', '~one ~two', '~10% of total', '~ x']
    n_eval += len(tilde)
    env = {f'T{j}': v for j, v in enumerate(tilde)}
    got, err = _evaluate(env)
    if got is None or got != env:
        bad.append(dict(environment=env, job_sees=got, bash_error=err,
                        clause='literal text starting with "~" followed by a blank'))
    name = ('bounded::a value without shell-expansion characters is exported to the job unchanged; later values '
            'can use earlier variables')
    rule = (f'every string of <= {3 if tier == "quick" else 4} characters over {len(ALPHABET)} characters (letters, '
            'blanks, newline, quote, glob, redirection, grouping and history characters; no $ ` \\ ", no leading '
            '~), written by the real JobFileWriter and evaluated by /bin/bash; plus 3 environments in which later '
            'values use earlier ones ($A, ${B}, $(...) and `...` substitutions) and 4 literal values starting with '
            '"~" followed by a blank; distinct = distinct values')
    base = dict(name=name, kind='bounded', evaluations=n_eval, distinct=len(distinct), rule=rule,
                samples=samples, exhaustive=True)
    if bad:
        return [dict(base, verdict='refuted', witness=bad, detail='the job sees a different value')]
    return [dict(base, verdict='proved', detail=f'{n_eval} values')]
