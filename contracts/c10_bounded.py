"""C10 - bounded companion for Scheduler.process_queued_task_messages (the function that drains the
message queue, hands every message to TaskEventsManager.process_message and COLLECTS the poll requests that
the dispatcher's contract - contracts/c10_messages.py, proved - returns for messages that lie behind the
task's state).  Queue draining, two nested loops over a dict of lists and a second pass over undeliverable
messages: a ghost-indexed contract was designed (DESIGN 11) and not built.  BOUNDED, not a proof.

Contract checked at run time on the REAL method, with the collaborators replaced by recording stubs whose
answers are scripted by the enumeration:

    every queued message of a pooled task is given to process_message exactly once, in queue order per task,
    flagged (received), with the submit number of its job id;
    poll_task_jobs is called (once) with exactly the pooled tasks for which SOME of their messages was
    answered True ("ask for a poll") - and is not called when there is none;
    messages of tasks that are not in the pool go to process_job_message, never to process_message;
    the queue is empty afterwards."""
import itertools
from queue import Queue
from types import SimpleNamespace


def _scheduler(pooled, answers, log):
    from cylc.flow.scheduler import Scheduler
    from cylc.flow.id import Tokens
    schd = Scheduler.__new__(Scheduler)
    tasks = {f'1/{n}': SimpleNamespace(identity=f'1/{n}', name=n) for n in pooled}

    def _get_task_by_id(id_):
        return tasks.get(id_)
    it = iter(answers)

    def process_message(itask, severity, message, event_time, flag, submit_num):
        ans = next(it)
        log.append(('process_message', itask.identity, message, flag, submit_num, ans))
        return ans

    def process_job_message(job_tokens, tdef, message, event_time):
        log.append(('process_job_message', job_tokens.relative_id, message))
        return True

    def poll_task_jobs(itasks):
        log.append(('poll', [t.identity for t in itasks]))
    schd.message_queue = Queue()
    schd.pool = SimpleNamespace(_get_task_by_id=_get_task_by_id)
    schd.task_events_mgr = SimpleNamespace(process_message=process_message, FLAG_RECEIVED='(received)',
                                           process_job_message=process_job_message)
    schd.task_job_mgr = SimpleNamespace(poll_task_jobs=poll_task_jobs)
    schd.tokens = Tokens('~u/w')
    schd.config = SimpleNamespace(get_taskdef=lambda name: None)
    return schd


def check(tier='quick', seed=0):
    from cylc.flow.id import Tokens
    from cylc.flow.network.resolvers import TaskMsg
    pooled = ['a', 'b']
    names = ['a', 'b', 'c']          # c is not in the pool
    nmax = 4 if tier == 'quick' else 5
    n_eval, bad, samples, distinct = 0, [], [], set()
    for n in range(0, nmax + 1):
        for senders in itertools.product(names, repeat=n):
            n_pooled = sum(1 for s in senders if s in pooled)
            for answers in itertools.product((False, True), repeat=n_pooled):
                n_eval += 1
                log = []
                schd = _scheduler(pooled, answers, log)
                msgs = []
                for k, s in enumerate(senders):
                    job = (k % 2) + 1
                    tm = TaskMsg(Tokens(f'//1/{s}/{job:02d}', relative=True), '2000-01-01T00:00:00Z', 'INFO',
                                 f'm{k}')
                    msgs.append((s, job, tm))
                    schd.message_queue.put(tm)
                try:
                    schd.process_queued_task_messages()
                except Exception as ex:     # noqa: BLE001
                    bad.append(dict(senders=senders, answers=answers, error=repr(ex)))
                    continue
                # expectation
                ai = iter(answers)
                # the real function groups by task in first-appearance order: answers are consumed in that
                # order, so the expectation is computed from the LOG's own pairing (message -> answer)
                seen = [e for e in log if e[0] == 'process_message']
                want_msgs = {}
                for s, job, tm in msgs:
                    if s in pooled:
                        want_msgs.setdefault(f'1/{s}', []).append((tm.message, job))
                got_msgs = {}
                for _, ident, message, flag, sn, ans in seen:
                    got_msgs.setdefault(ident, []).append((message, sn))
                problems = []
                if got_msgs != want_msgs:
                    problems.append(dict(clause='every message of a pooled task is processed once, in order, with '
                                                'its submit number', got=got_msgs, expected=want_msgs))
                if any(e[3] != '(received)' for e in seen):
                    problems.append(dict(clause='flagged (received)'))
                want_poll = []
                for _, ident, message, flag, sn, ans in seen:
                    if ans and ident not in want_poll:
                        want_poll.append(ident)
                polls = [e[1] for e in log if e[0] == 'poll']
                if want_poll:
                    if len(polls) != 1 or sorted(polls[0]) != sorted(want_poll) or len(set(polls[0])) != len(polls[0]):
                        problems.append(dict(clause='poll exactly the tasks that asked for one', polled=polls,
                                             expected=sorted(want_poll)))
                elif polls:
                    problems.append(dict(clause='no poll without a request', polled=polls))
                want_orphans = [tm.message for s, job, tm in msgs if s not in pooled]
                got_orphans = [e[2] for e in log if e[0] == 'process_job_message']
                if sorted(got_orphans) != sorted(want_orphans):
                    problems.append(dict(clause='messages of unpooled tasks go to process_job_message',
                                         got=got_orphans, expected=want_orphans))
                if schd.message_queue.qsize():
                    problems.append(dict(clause='queue drained', left=schd.message_queue.qsize()))
                distinct.add((senders, answers))
                if problems and len(bad) < 10:
                    bad.append(dict(queue=[f'1/{s}/{job:02d}:{tm.message}' for s, job, tm in msgs],
                                    answers_of_process_message=[(e[1], e[2], e[5]) for e in seen],
                                    problems=problems))
                if len(samples) < 3 and n == nmax and any(answers):
                    samples.append(dict(queue=[f'1/{s}/{job:02d}' for s, job, tm in msgs], polled=polls))
    name = ('bounded::every queued message reaches the dispatcher once and exactly the tasks whose messages asked '
            'for a poll are polled')
    rule = (f'every queue of <= {nmax} messages from tasks a, b (pooled) and c (not pooled), alternating job numbers '
            '01 / 02, x every assignment of answers (poll / no poll) of process_message; collaborators are '
            'recording stubs; exhaustive inside that box; distinct = distinct (queue, answers)')
    base = dict(name=name, kind='bounded', evaluations=n_eval, distinct=len(distinct), rule=rule, samples=samples,
                exhaustive=True)
    if bad:
        return [dict(base, verdict='refuted', witness=bad, detail=f'{len(bad)} disagreements')]
    return [dict(base, verdict='proved', detail=f'{n_eval} queues')]
