"""C44 — private workflow files are created owner-only.  BOUNDED stand-in, not a proof.

Whether a file ends up group/other-accessible is decided by the kernel from open(2) modes, the process
umask, os.chmod, shutil.copyfile and what zmq.auth.create_certificates does: POSIX and third-party
semantics, not code of /repo.  The contract

    for every umask in effect when the scheduler starts:
      after WorkflowDatabaseManager.on_workflow_start (first start and restart over an existing database
      with wide permissions) the private database has no group/other permission bit;
      after create_server_keys the server private key and the client private key have no group/other
      permission bit, and the process umask is what it was before

is checked at run time on the REAL functions in a scratch directory for the umasks listed below."""
import os
import shutil
import stat
import tempfile

UMASKS = [0o000, 0o002, 0o007, 0o022, 0o027, 0o077, 0o177, 0o277]


def _others(path):
    return stat.S_IMODE(os.stat(path).st_mode) & 0o077


def _db_case(umask, restart):
    from cylc.flow.workflow_db_mgr import WorkflowDatabaseManager
    tmp = tempfile.mkdtemp(prefix='verif_c44_', dir='/var/tmp')
    old = os.umask(umask)
    try:
        pri, pub = os.path.join(tmp, 'pri'), os.path.join(tmp, 'pub')
        os.makedirs(pri)
        os.makedirs(pub)
        mgr = WorkflowDatabaseManager(pri, pub)
        if restart:
            # an existing private database left world-readable by something else
            open(mgr.pri_path, 'a').close()
            os.chmod(mgr.pri_path, 0o666)
        mgr.on_workflow_start(is_restart=restart)
        bits = _others(mgr.pri_path)
        mgr.on_workflow_shutdown()
        return [] if bits == 0 else [f'private database mode has group/other bits {oct(bits)}']
    finally:
        os.umask(old)
        shutil.rmtree(tmp, ignore_errors=True)


def _keys_case(umask):
    from cylc.flow.workflow_files import create_server_keys, KeyInfo, KeyOwner, KeyType
    tmp = tempfile.mkdtemp(prefix='verif_c44k_', dir='/var/tmp')
    old = os.umask(umask)
    problems = []
    try:
        srv = os.path.join(tmp, '.service')
        os.makedirs(srv)
        keys = {
            'client_public_key': KeyInfo(KeyType.PUBLIC, KeyOwner.CLIENT, workflow_srv_dir=srv),
            'client_private_key': KeyInfo(KeyType.PRIVATE, KeyOwner.CLIENT, workflow_srv_dir=srv),
            'server_public_key': KeyInfo(KeyType.PUBLIC, KeyOwner.SERVER, workflow_srv_dir=srv),
            'server_private_key': KeyInfo(KeyType.PRIVATE, KeyOwner.SERVER, workflow_srv_dir=srv),
        }
        create_server_keys(keys, srv)
        now = os.umask(umask)
        if now != umask:
            problems.append(f'umask left at {oct(now)} instead of {oct(umask)}')
        for k in ('server_private_key', 'client_private_key'):
            p = keys[k].full_key_path
            if not os.path.exists(p):
                problems.append(f'{k} not created')
            elif _others(p):
                problems.append(f'{k} mode has group/other bits {oct(_others(p))}')
        return problems
    finally:
        os.umask(old)
        shutil.rmtree(tmp, ignore_errors=True)


def check(tier='quick', seed=0):
    n_eval, bad, samples, distinct = 0, [], [], set()
    for um in UMASKS:
        for restart in (False, True):
            n_eval += 1
            pr = _db_case(um, restart)
            distinct.add(('db', um, restart))
            if pr:
                bad.append(dict(umask=oct(um), restart=restart, problems=pr))
        n_eval += 1
        try:
            pr = _keys_case(um)
        except Exception as ex:     # noqa: BLE001
            pr = ['create_server_keys raised ' + repr(ex)]
        distinct.add(('keys', um))
        if pr:
            bad.append(dict(umask=oct(um), keys=True, problems=pr))
        if len(samples) < 2:
            samples.append(dict(umask=oct(um), private_db_other_bits=0, private_keys_other_bits=0))
    name = 'bounded::private database and private keys have no group/other permission bits, whatever the umask'
    rule = (f'{len(UMASKS)} umasks x (first start, restart over a world-readable database) for the private database + '
            f'{len(UMASKS)} umasks for the server keys; distinct = distinct (file kind, umask, restart) cases')
    base = dict(name=name, kind='bounded', evaluations=n_eval, distinct=len(distinct), rule=rule, samples=samples,
                exhaustive=False)
    if bad:
        return [dict(base, verdict='refuted', witness=bad, detail='a private file is accessible to group/other')]
    return [dict(base, verdict='proved', detail=f'{n_eval} cases')]
