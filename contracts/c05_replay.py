"""C05 replay support: exhaustive small-scope construction of queues with stub
tasks (the queue code only reads itask.tdef.name and itask.state.is_held)."""
import itertools
from collections import Counter, deque

from pyvc.spec import REG


class _N:
    def __init__(self, **kw):
        self.__dict__.update(kw)

    def __repr__(self):
        return 'T(%s)' % ','.join(f'{k}={v!r}' for k, v in self.__dict__.items()
                                  if not isinstance(v, _N))


def mk_task(name, held=False, status='waiting', prep=False):
    return _N(tdef=_N(name=name), state=_N(is_held=held, status=status, is_queued=False,
                                           is_runahead=False),
              waiting_on_job_prep=prep, identity=name)


def mk_queue(limit, members, tasks):
    from cylc.flow.task_queues.independent import LimitedTaskQueue
    q = LimitedTaskQueue(limit, set(members))
    q.deque = deque(tasks)
    return q


NAMES = ['a', 'b']


def queue_cases():
    for limit in (0, 1, 2):
        for members in (['a'], ['a', 'b']):
            for n in range(0, 4):
                for names in itertools.product(NAMES, repeat=n):
                    for helds in itertools.product((False, True), repeat=n):
                        yield limit, members, list(zip(names, helds))


def conc_release(model, oname):
    for limit, members, ts in queue_cases():
        for act in ({}, {'a': 1}, {'a': 1, 'b': 1}, {'b': 2}):
            yield (dict(limit=limit, members=members, deque=ts, active=act),
                   (lambda limit=limit, members=members, ts=ts, act=act:
                    ([mk_queue(limit, members, [mk_task(n, h) for n, h in ts]), Counter(act)], {})))


def conc_push(with_active):
    def hook(model, oname):
        for limit, members, ts in queue_cases():
            if len(ts) > 2:
                continue
            for new in NAMES + ['c']:
                for act in (({}, {'a': 1}, {'a': 2, 'b': 1}) if with_active else ({},)):
                    def mk(limit=limit, members=members, ts=ts, new=new, act=act):
                        q = mk_queue(limit, members, [mk_task(n, h) for n, h in ts])
                        args = [q, mk_task(new)]
                        if with_active:
                            args.append(Counter(act))
                        return args, {}
                    yield dict(limit=limit, members=members, deque=ts, itask=new, active=act), mk
    return hook


def conc_remove(model, oname):
    for limit, members, ts in queue_cases():
        for pick in range(-1, len(ts)):
            def mk(limit=limit, members=members, ts=ts, pick=pick):
                tasks = [mk_task(n, h) for n, h in ts]
                q = mk_queue(limit, members, tasks)
                return [q, tasks[pick] if pick >= 0 else mk_task('z')], {}
            yield dict(limit=limit, members=members, deque=ts, remove_index=pick), mk


def install():
    Q = 'cylc.flow.task_queues.independent:LimitedTaskQueue.'
    REG.contracts[Q + 'release'].concretise = conc_release
    REG.contracts[Q + 'push_task'].concretise = conc_push(False)
    REG.contracts[Q + 'push_task_if_limited'].concretise = conc_push(True)
    REG.contracts[Q + 'remove'].concretise = conc_remove


install()
