"""C08 replay support: small FlowMgr states satisfying the invariant J, on the
real FlowMgr with a mock database manager that maintains the ghost set."""
import itertools
from unittest.mock import MagicMock

from pyvc.spec import REG


def mk_fm(flows, counter, extra_used):
    from cylc.flow.flow_mgr import FlowMgr
    db = MagicMock()
    usedset = set(flows) | set(extra_used)
    db.pri_dao.ghost_used_flows = usedset
    db.put_insert_workflow_flows.side_effect = lambda n, meta: usedset.add(n)
    db.pri_dao.select_workflow_flows_max_flow_num.side_effect = lambda: max(usedset | {0})
    db.pri_dao.select_workflow_flows.side_effect = lambda nums: {
        n: {'description': 'd', 'start_time': 't'} for n in nums if n in usedset}
    fm = FlowMgr(db)
    fm.flows = {n: {'description': 'd', 'start_time': 't'} for n in flows}
    fm.counter = counter
    return fm


def states():
    nums = [1, 2, 3, 4, 5]
    for r in range(0, 4):
        for flows in itertools.combinations(nums, r):
            for counter in range(0, 5):
                for extra in ([], [1], [1, 2]):
                    if all(n <= counter for n in extra):
                        yield list(flows), counter, extra


def conc_new(model, oname):
    for flows, counter, extra in states():
        yield (dict(flows=flows, counter=counter, used_extra=extra),
               (lambda f=flows, c=counter, e=extra: ([mk_fm(f, c, e), None, None], {})))


def conc_given(model, oname):
    for flows, counter, extra in states():
        for n in (1, 2, 3, 6):
            yield (dict(flows=flows, counter=counter, used_extra=extra, flow_num=n),
                   (lambda f=flows, c=counter, e=extra, n=n: ([mk_fm(f, c, e), n, 'meta'], {})))


def conc_load(model, oname):
    for flows, counter, extra in states():
        yield (dict(flows=flows, counter=counter, used_extra=extra),
               (lambda f=flows, c=counter, e=extra: ([mk_fm(f, c, e), set(f[:1])], {})))


def install():
    F = 'cylc.flow.flow_mgr:FlowMgr.'
    REG.contracts[F + 'get_flow#new'].concretise = conc_new
    REG.contracts[F + 'get_flow#given'].concretise = conc_given
    REG.contracts[F + 'load_from_db'].concretise = conc_load


install()
