"""C03 replay support: small pools / schedulers built on the real classes (created without running their
constructors), so that an obligation the solver leaves undecided after a change of the code can be
searched natively for a failing input of the REAL function (bounded, never counted as proof)."""
import itertools
from unittest.mock import MagicMock

from pyvc.spec import REG


class _Key(tuple):
    point = property(lambda s: s[0])
    task = property(lambda s: s[1])
    output = property(lambda s: s[2])

    def get_id(self):
        return f'{self[0]}/{self[1]}:{self[2]}'


class _Pre:
    def __init__(self, sat):
        self._sat = sat

    def is_satisfied(self):
        return self._sat


class _Outputs:
    def __init__(self, complete):
        self._c = complete

    def is_complete(self):
        return self._c

    def format_completion_status(self, **k):
        return 'x'


class _State:
    def __init__(self, status, runahead, complete, prereq):
        self.status = status
        self.is_held = False
        self.is_queued = False
        self.is_runahead = runahead
        self.outputs = _Outputs(complete)
        # prereq: 'sat' | 'unsat-1' (waits on 1/up) | 'unsat-9' (waits on 9/up, beyond a stop point of 1)
        self.prerequisites = [_Pre(prereq == 'sat')]
        self._unsat = [] if prereq == 'sat' else [_Key((prereq.split('-')[1], 'up', 'succeeded'))]

    def __call__(self, *status, is_held=None, is_queued=None, is_runahead=None):
        return ((not status or self.status in status)
                and (is_held is None or self.is_held == is_held)
                and (is_queued is None or self.is_queued == is_queued)
                and (is_runahead is None or self.is_runahead == is_runahead))

    def get_unsatisfied_prerequisites(self):
        return list(self._unsat)

    xtrig_ok = True        # False: the task still waits on an xtrigger (e.g. a retry delay)

    def external_triggers_all_satisfied(self):
        return True

    def xtriggers_all_satisfied(self):
        return self.xtrig_ok


class _Task:
    def __init__(self, point, name, status, runahead, complete, prereq):
        from cylc.flow.cycling.integer import IntegerPoint
        self.point = IntegerPoint(str(point))
        self.tdef = MagicMock()
        self.tdef.name = name
        self.identity = f'{point}/{name}'
        self.state = _State(status, runahead, complete, prereq)
        self.try_timers = {}
        self.is_manual_submit = False

    def prereqs_are_satisfied(self):
        return all(p.is_satisfied() for p in self.state.prerequisites)

    def is_ready_to_run(self):
        from cylc.flow.task_proxy import TaskProxy
        return TaskProxy.is_ready_to_run(self)

    def __repr__(self):
        return f'<{self.identity} {self.state.status}>'


def mk_pool(specs, stop):
    from cylc.flow.task_pool import TaskPool
    from cylc.flow.cycling.integer import IntegerPoint
    from cylc.flow.cycling import loader
    loader.DefaultCycler.TYPE = loader.INTEGER_CYCLING_TYPE
    pool = TaskPool.__new__(TaskPool)
    pool.active_tasks = {}
    tasks = []
    for i, (pt, st, ra, comp, pre) in enumerate(specs):
        t = _Task(pt, f't{i}', st.replace('+xtrig', ''), ra, comp, pre)
        if st.endswith('+xtrig'):
            t.state.xtrig_ok = False
        pool.active_tasks.setdefault(t.point, {})[t.identity] = t
        tasks.append(t)
    pool._active_tasks_list = list(tasks)
    pool.active_tasks_changed = False
    pool.stop_point = None if stop is None else IntegerPoint(str(stop))
    pool.config = MagicMock()
    pool.config.get_taskdef.return_value.get_output.return_value = 'msg'
    return pool


TASKS = [(pt, st, ra, comp, pre)
         for pt in (1, 2)
         for st in ('waiting', 'waiting+xtrig', 'running', 'failed', 'succeeded')
         for ra in (False, True)
         for comp in (False, True)
         for pre in ('sat', 'unsat-1', 'unsat-9')]
SMALL = [t for t in TASKS if t[0] == 1 or (t[1] in ('waiting', 'failed') and not t[2])]


def pools():
    for stop in (None, 1):
        yield [], stop
        for t in TASKS:
            yield [t], stop
        for a, b in itertools.product(SMALL[::3], SMALL[1::4]):
            yield [a, b], stop


def conc_pool(model, oname):
    for specs, stop in pools():
        yield dict(tasks=specs, stop_point=stop), (lambda specs=specs, stop=stop: ([mk_pool(specs, stop)], {}))


def conc_schd(model, oname):
    from cylc.flow.scheduler import Scheduler
    for specs, stop in pools():
        for stalled, paused, rtw in itertools.product((False, True), repeat=3):
            def mk(specs=specs, stop=stop, stalled=stalled, paused=paused, rtw=rtw):
                s = Scheduler.__new__(Scheduler)
                s.pool = mk_pool(specs, stop)
                s.is_stalled, s.is_paused, s.is_restart_timeout_wait = stalled, paused, rtw
                s.timers = {}
                s.workflow_db_mgr = MagicMock()
                s.update_data_store = lambda: None
                s.run_event_handlers = lambda *a, **k: None
                return [s], {}
            yield dict(tasks=specs, stop_point=stop, is_stalled=stalled, is_paused=paused,
                       restart_timeout_wait=rtw), mk


def bounded_unsat(tier='quick', seed=0):
    """Bounded stand-in (NOT a proof) for the contract of TaskPool.log_unsatisfied_prereqs, whose
    symbolic verification (nested loops over a dictionary of lists) is left to the thorough command:
    the contract is evaluated on the real function for every pool of the replay scope."""
    from pyvc.native import native_check
    c = REG.contracts['cylc.flow.task_pool:TaskPool.log_unsatisfied_prereqs']
    name = ('bounded::TaskPool.log_unsatisfied_prereqs returns True exactly when a pooled task within the '
            'stop point waits on something within it')
    n, bad = 0, []
    for desc, mk in conc_pool({}, ''):
        n += 1
        a, k = mk()
        r = native_check(c, a, k)
        if r['status'] not in ('ok', 'pre-false'):
            bad.append(dict(input=desc, failed=r['failed'], detail=r.get('detail', '')[:200]))
            if len(bad) >= 5:
                break
    if bad:
        return [dict(name=name, kind='bounded', verdict='refuted', evaluations=n, witness=bad,
                     detail='the real function disagrees with the contract')]
    return [dict(name=name, kind='bounded', verdict='proved', evaluations=n,
                 detail=f'{n} pools of <= 2 tasks (4 statuses x runahead x complete x 3 prerequisite shapes, '
                        'points 1-2, stop point None or 1), exhaustive over the stated scope')]


def install():
    P = 'cylc.flow.task_pool:TaskPool.'
    S = 'cylc.flow.scheduler:Scheduler.'
    for n in ('log_incomplete_tasks', 'log_unsatisfied_prereqs', 'is_stalled'):
        if P + n in REG.contracts:
            REG.contracts[P + n].concretise = conc_pool
    for n in ('check_workflow_stalled', 'check_auto_shutdown'):
        if S + n in REG.contracts:
            REG.contracts[S + n].concretise = conc_schd


install()
