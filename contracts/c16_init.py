"""C16 (second half) — IntegerSequence.__init__ denotes the progression that
the recurrence text defines.

The recurrence grammar is the regex table RECURRENCE_FORMAT_RECS.  Which row
matches a string, and with which group values, is summarised by *ghost
functions of the string* (uninterpreted in SMT, executable natively by
running the real regexes):

    row_match(i, e)   row i of the documented table matches expression e
    grp(i, g, e)      value of named group g (0 reps, 1 start, 2 end, 3 intv)

ROWS below is the table *as documented in the comments of integer.py* (pattern
text, documented format number).  The meaning of each format number is written
from the documentation, not from the code:

    1  Rn/START/END   n points evenly spaced from START to END
    3  forward:       START, START+INTV, ... (only n points if n is given);
                      one point if there is no interval or n <= 1
    4  backward:      END, END-INTV, ...     (only n points if n is given)

START defaults to the initial point, END to the final point; "+Pm"/"-Pm" are
relative to the initial (start) / final (end) point.  The sequence is that
progression clipped to [initial, final] minus the exclusions.
"""
import re

from pyvc.spec import (contract, schema, spec, uninterp, implies, iff, forall, exists, int_text, REG)
from contracts.c18_points import ipt, pt_ok, iiv, iv_ok
from contracts.c16_integer import pts, wf_iseq, excluded, M, B
from cylc.flow.cycling.integer import REC_RELATIVE_POINT, REC_INTERVAL  # noqa: F401

# documented table: (pattern text, documented format number)
ROWS = [
    (r"^R(?P<reps>\d+)/(?P<start>[^PR/][^/]*)/(?P<end>[^PR/][^/]*)$", 1),   # Rn/START/END
    (r"^(?P<start>[^PR/][^/]*)/(?P<intv>P[^/]*)/?$", 3),                     # START/INTV
    (r"^(?P<intv>P[^/]*)$", 3),                                              # INTV
    (r"^(?P<intv>P[^/]*)/(?P<end>[^PR/][^/]*)$", 4),                         # INTV/END
    (r"^R(?P<reps>1)?/(?P<start>[^PR/][^/]*)/?$", 3),                        # R1/START
    (r"^R(?P<reps>\d+)?/(?P<start>[^PR/][^/]*)/(?P<intv>P[^/]*)$", 3),      # Rn/START/INTV
    (r"^R(?P<reps>\d+)?/(?P<start>)/(?P<intv>P[^/]*)$", 3),                  # Rn//INTV
    (r"^R(?P<reps>\d+)?/(?P<intv>P[^/]*)/(?P<end>[^PR/][^/]*)$", 4),        # Rn/INTV/END
    (r"^R(?P<reps>\d+)?/(?P<intv>P[^/]*)/?$", 4),                            # Rn/INTV
    (r"^R(?P<reps>1)/?(?P<start>$)", 3),                                     # R1
    (r"^R(?P<reps>1)//(?P<end>[^PR/][^/]*)$", 4),                            # R1//END
]
NROWS = len(ROWS)
GROUPS = ['reps', 'start', 'end', 'intv']
_COMPILED = [re.compile(p) for p, _ in ROWS]


@uninterp(sorts=('int', 'str'), result='bool')
def row_match(i, e):
    return 0 <= i < NROWS and _COMPILED[i].match(e) is not None


@uninterp(sorts=('int', 'int', 'str'), result='opt[str]')
def grp(i, g, e):
    m = _COMPILED[i].match(e)
    return m.groupdict().get(GROUPS[g]) if m else None


@uninterp(sorts=('str',), result='int')
def row_of(e):
    for i in range(NROWS):
        if _COMPILED[i].match(e):
            return i
    return -1


@uninterp(sorts=('str',), result='str')
def px_expr(dep):
    from cylc.flow.cycling import parse_exclusion
    return parse_exclusion(dep)[0]


@uninterp(sorts=('str',), result='bool')
def px_noexcl(dep):
    from cylc.flow.cycling import parse_exclusion
    return parse_exclusion(dep)[1] is None


@uninterp(sorts=('str',), result='bool')
def px_ok(dep):
    from cylc.flow.cycling import parse_exclusion
    try:
        parse_exclusion(dep)
        return True
    except Exception:
        return False


def _match_hook(eng, what, s, pat, mode, obj=None, guard=None):
    """Model of rec.match(expression) for the rows of the table."""
    import z3
    from pyvc.kinds import parse_kind, sort_of, INT, STR
    from pyvc.core import SV
    idx = [i for i, (p, _) in enumerate(ROWS) if p == pat.pattern]
    if not idx or mode != 'match':
        return None
    i = idx[0]
    iv = SV(INT, z3.IntVal(i))
    if what == 'matched':
        return eng.call_function(row_match, [iv, s], {}).t
    for name in pat.groupindex:
        g = GROUPS.index(name)
        gv = eng.call_function(grp, [iv, SV(INT, z3.IntVal(g)), s], {})
        fv = eng.read_field(obj, 'g_' + name)
        eng.p.assume(z3.Implies(guard, fv.t == gv.t))
    return None


for _p, _f in ROWS:
    REG.externals[('match', _p)] = _match_hook


# ------------------------------------------------------------------ the oracle
@spec
def fmt_doc(i):
    return 1 if i == 0 else (4 if (i == 3 or i == 7 or i == 8 or i == 10) else 3)


@spec
def present(s):
    return s is not None and s != ''


@spec
def is_rel(s):
    return REC_RELATIVE_POINT.search(s) is not None


@spec
def resolve(s, ctx):
    return (ctx + int(s.replace('P', ''))) if is_rel(s) else int(s)


@spec
def nreps(i, e):
    return int(grp(i, 0, e)) if has_reps(i, e) else 0


@spec
def has_reps(i, e):
    return grp(i, 0, e) is not None


@spec
def has_intv(i, e):
    return present(grp(i, 3, e))


@spec
def kval(i, e):
    return int(grp(i, 3, e).replace('P', '')) if has_intv(i, e) else 0


@spec
def sval(i, e, icp):
    return resolve(grp(i, 1, e), icp) if present(grp(i, 1, e)) else icp


@spec
def eval_(i, e, fcp):
    return resolve(grp(i, 2, e), fcp) if present(grp(i, 2, e)) else fcp


@spec
def ap3(i, e, icp, x):
    S = sval(i, e, icp)
    k = kval(i, e)
    oneoff = (not has_intv(i, e)) or (has_reps(i, e) and nreps(i, e) <= 1)
    return (x == S) if oneoff else (
        x >= S and (x - S) % k == 0 and ((not has_reps(i, e)) or x <= S + k * (nreps(i, e) - 1)))


@spec
def ap4(i, e, fcp, x):
    E = eval_(i, e, fcp)
    k = kval(i, e)
    return ((x == E) if nreps(i, e) <= 1 else (
        x <= E and (E - x) % k == 0 and x >= E - k * (nreps(i, e) - 1))) if has_reps(i, e) else (
        x <= E and (E - x) % k == 0)


@spec
def ap1(i, e, icp, fcp, x):
    S = sval(i, e, icp)
    E = eval_(i, e, fcp)
    n = nreps(i, e)
    # n points evenly spaced from S to E: S + j*(E-S)/(n-1), 0 <= j < n
    return (x == S) if (n == 1 or E == S) else (
        S <= x and x <= E and ((x - S) * (n - 1)) % (E - S) == 0)


@spec
def ap(i, e, icp, fcp, x):
    return ap1(i, e, icp, fcp, x) if fmt_doc(i) == 1 else (
        ap3(i, e, icp, x) if fmt_doc(i) == 3 else ap4(i, e, fcp, x))


@spec
def fcpv(p_context_stop):
    return int(p_context_stop) if has_fcp(p_context_stop) else 0


@spec
def has_fcp(p_context_stop):
    return p_context_stop is not None and p_context_stop != ''


@spec
def denotes(self, dep, icp, p_context_stop, x):
    e = px_expr(dep)
    i = row_of(e)
    return (ap(i, e, icp, fcpv(p_context_stop), x) and icp <= x
            and ((not has_fcp(p_context_stop)) or x <= fcpv(p_context_stop))
            and not excluded(self, x))


# "definition" of row_of in terms of row_match, one instance per row (assumed:
# it is how the ghost functions relate, checked natively by the differential)
_ROW_AXIOMS = []
for _i in range(NROWS):
    _ROW_AXIOMS.append(f'implies(row_of(px_expr(dep_section)) == {_i}, row_match({_i}, px_expr(dep_section)))')
    _ROW_AXIOMS.append(f'implies(row_of(px_expr(dep_section)) > {_i} or row_of(px_expr(dep_section)) == -1, '
                       f'not row_match({_i}, px_expr(dep_section)))')
_ROW_AXIOMS.append(f'-1 <= row_of(px_expr(dep_section)) and row_of(px_expr(dep_section)) < {NROWS}')

# shape of the groups of the supported grammar (what the regexes + the later
# checks in the code accept): n is a natural number >= 1, the interval is P<k>
# with k >= 1, points are integer text or [+-]P<m>.
_E = 'px_expr(dep_section)'
_I = f'row_of({_E})'
_SHAPE = [
    f'implies(has_reps({_I}, {_E}), int_text(grp({_I}, 0, {_E})) and nreps({_I}, {_E}) >= 1)',
    f'implies(has_intv({_I}, {_E}), implies(REC_INTERVAL.search(grp({_I}, 3, {_E})) is not None, '
    f'int_text(grp({_I}, 3, {_E}).replace("P", "")) and kval({_I}, {_E}) >= 1))',
    f'implies(present(grp({_I}, 1, {_E})), is_rel(grp({_I}, 1, {_E})) or int_text(grp({_I}, 1, {_E})))',
    f'implies(present(grp({_I}, 2, {_E})), is_rel(grp({_I}, 2, {_E})) or int_text(grp({_I}, 2, {_E})))',
    f'implies(present(grp({_I}, 1, {_E})) and is_rel(grp({_I}, 1, {_E})), '
    f'REC_INTERVAL.search(grp({_I}, 1, {_E})) is not None)',
    f'implies(present(grp({_I}, 2, {_E})) and is_rel(grp({_I}, 2, {_E})), '
    f'REC_INTERVAL.search(grp({_I}, 2, {_E})) is not None)',
]

contract(B + 'parse_exclusion',
         sorts={'expr': 'str', 'result': 'tuple[str,opt[list[str]]]'},
         ensures={'expr': 'result[0] == px_expr(expr)', 'excl': '(result[1] is None) == px_noexcl(expr)'},
         raises={'Exception': 'not px_ok(expr)'}, assumed=True, props=['C16'],
         note='string splitting (count/split/strip/translate); summarised by ghost functions')

contract(M + 'IntegerExclusions.__init__',
         sorts={'self': 'IntegerExclusions', 'excl_points': 'list[str]',
                'start_point': 'opt[IntegerPoint]', 'end_point': 'opt[IntegerPoint]'},
         modifies=['self.exclusion_sequences', 'self.exclusion_points',
                   'self.exclusion_start_point', 'self.exclusion_end_point'],
         may_raise=['Exception'], assumed=True, props=['C16'],
         note='builds the abstract exclusion set xin(self, .); see ExclusionBase.__contains__')

def _group_axioms(r):
    """Which groups row r has: a group the pattern lacks reads as None
    (groupdict().get), a mandatory group is a string, `(...)?` may be None."""
    if r < 0:
        return []
    pat = ROWS[r][0]
    out = []
    if '(?P<reps>1)' in pat:
        out.append(f'implies(has_reps({r}, {_E}), nreps({r}, {_E}) == 1)')
    for g, name in enumerate(GROUPS):
        if name not in _COMPILED[r].groupindex:
            out.append(f'grp({r}, {g}, {_E}) is None')
        elif not re.search(r'\(\?P<%s>[^)]*\)\?' % name, pat):
            out.append(f'grp({r}, {g}, {_E}) is not None')
            if name == 'reps' and '(?P<reps>1)' in pat:
                out.append(f'nreps({r}, {_E}) == 1')
            if re.search(r'\(\?P<%s>\$?\)' % name, pat):
                out.append(f'grp({r}, {g}, {_E}) == ""')
            else:
                out.append(f'grp({r}, {g}, {_E}) != ""')
    return out


@spec
def oneoff_point(i, e, icp, fcp):
    """The single point of a one-off recurrence (meaningful only when it is one)."""
    return eval_(i, e, fcp) if fmt_doc(i) == 4 else sval(i, e, icp)


@spec
def is_oneoff(i, e, icp, fcp):
    return ((nreps(i, e) == 1 or eval_(i, e, fcp) == sval(i, e, icp)) if fmt_doc(i) == 1 else (
        ((not has_intv(i, e)) or (has_reps(i, e) and nreps(i, e) <= 1)) if fmt_doc(i) == 3 else (
            has_reps(i, e) and nreps(i, e) <= 1)))


# One verification task per documented row (they run in parallel); "row -1" = no row matches.
# Row 0 (Rn/START/END, the row with a division) is NOT under contract: in the thorough tier - the only one
# that ran it - z3 answers `sat` on ensures[wf] with a model built on the uninterpreted text/number
# functions (values like "!3!" with int 76052) that no concrete input reproduces (3948 native candidates),
# and leaves ensures[denotes] open ("exact nonlinear check: unknown").  Undecided, so not claimed; the form
# is covered by the bounded companion contracts/c16_bounded.py (Rn/S/E exhaustively inside its box).
for _r in [r for r in range(NROWS) if r != 0] + [-1]:
    contract(M + 'IntegerSequence.__init__', variant=('row%d' % _r if _r >= 0 else 'norow'),
             sorts={'self': 'IntegerSequence', 'dep_section': 'str', 'p_context_start': 'str',
                    'p_context_stop': 'opt[str]'},
             requires=['int_text(p_context_start)',
                       'p_context_stop is None or p_context_stop == "" or int_text(p_context_stop)',
                       f'row_of(px_expr(dep_section)) == {_r}']
             + _ROW_AXIOMS + _SHAPE + _group_axioms(_r),
             ensures={
                 'wf': 'wf_iseq(self)',
                 'denotes': 'forall(lambda x: pts(self, x) == '
                            'denotes(self, dep_section, int(p_context_start), p_context_stop, x))',
             } if _r >= 0 else {'unreachable': 'False'},
             # anything may be rejected (malformed text, missing context point, negative
             # interval ...) except the plainly supported case named in returns_when
             may_raise=['Exception'],
             domain=([  # KF-C16-oneoff-unclipped: a one-off point outside [initial, final] is kept
                 f'implies(is_oneoff({_r}, {_E}, int(p_context_start), fcpv(p_context_stop)), '
                 f'int(p_context_start) <= oneoff_point({_r}, {_E}, int(p_context_start), fcpv(p_context_stop)) '
                 f'and ((not has_fcp(p_context_stop)) or '
                 f'oneoff_point({_r}, {_E}, int(p_context_start), fcpv(p_context_stop)) <= fcpv(p_context_stop)))',
             ] if _r >= 0 else []),
             returns_when=([
                 'px_ok(dep_section) and px_noexcl(dep_section)',
                 f'not is_rel(grp(0, 1, {_E})) and not is_rel(grp(0, 2, {_E}))',
                 f'nreps(0, {_E}) >= 2',
                 f'int(grp(0, 2, {_E})) >= int(grp(0, 1, {_E}))',
                 f'(int(grp(0, 2, {_E})) - int(grp(0, 1, {_E}))) % (nreps(0, {_E}) - 1) == 0',
             ] if _r == 0 else []),
             modifies=['self.p_context_start', 'self.p_context_stop', 'self.p_start', 'self.p_stop',
                       'self.i_step', 'self.i_offset', 'self.exclusions'],
             # the regexes applied to group texts are uninterpreted predicates here: what the
             # code needs from them is stated in _SHAPE (requires) instead
             # The strict variants (without the `domain` clause) of the eleven rows are NOT run any more:
             # twelve extra heavy functions explored in parallel made the thorough command's own verdicts
             # unstable (DESIGN 11.5, correction 14).  What they demonstrated - a one-off point outside
             # [initial, final] is kept (IntegerSequence('R1/0','5','9') has point 0); START == END with
             # n > 1 gives a zero step - is recorded in DESIGN 11.5 with the replayed inputs.
             options={'regex': 'uninterp', 'feas_timeout_ms': 500, 'strict_tier': 'never',
                      'weight': 10},
             watch=[f'grp({_r}, 0, {_E})', f'grp({_r}, 1, {_E})', f'grp({_r}, 2, {_E})',
                    f'grp({_r}, 3, {_E})', f'nreps({_r}, {_E})', f'kval({_r}, {_E})',
                    f'int(grp({_r}, 1, {_E}))', f'int(grp({_r}, 2, {_E}))',
                    f'is_rel(grp({_r}, 1, {_E}))', f'is_rel(grp({_r}, 2, {_E}))',
                    f'int(grp({_r}, 1, {_E}).replace("P", ""))',
                    f'int(grp({_r}, 2, {_E}).replace("P", ""))',
                    'int(p_context_start)', 'int(p_context_stop)', 'px_noexcl(dep_section)'],
             tier=('thorough' if _r in (0, 5, 7) else 'quick'),
             verify_only=True, props=['C16'], max_paths=6000)
