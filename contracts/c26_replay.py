"""C26 replay support: small task pools built on the real TaskPool class (created
without running its constructor; collaborating managers are mocks)."""
import itertools
from unittest.mock import MagicMock

from pyvc.spec import REG


class _TState:
    def __init__(self, status='waiting'):
        self.status = status
        self.is_held = False
        self.is_queued = False
        self.is_runahead = False

    def __call__(self, *status, **kw):
        return (not status) or self.status in status

    def reset(self, *a, **k):
        return False


class _Task:
    def __init__(self, point, name, flows=(1,)):
        from cylc.flow.cycling.integer import IntegerPoint
        self.point = IntegerPoint(str(point))
        self.tdef = MagicMock()
        self.tdef.name = name
        self.tdef.max_future_prereq_offset = None
        self.identity = f'{point}/{name}'
        self.state = _TState()
        self.flow_nums = set(flows)
        self.transient = False
        self.is_xtrigger_sequential = False
        self.is_manual_submit = False
        self.waiting_on_job_prep = False

    def state_reset(self, *a, **k):
        return False

    def is_ready_to_run(self):
        return False

    def __repr__(self):
        return f'<task {self.identity}>'


def mk_pool(entries, stale=False):
    """entries: list of (point, name)"""
    from cylc.flow.task_pool import TaskPool
    pool = TaskPool.__new__(TaskPool)
    pool.active_tasks = {}
    tasks = []
    for pt, name in entries:
        t = _Task(pt, name)
        pool.active_tasks.setdefault(t.point, {})[t.identity] = t
        tasks.append(t)
    pool._active_tasks_list = [] if stale else list(tasks)
    pool.active_tasks_changed = stale
    pool.tasks_removed = False
    pool.tasks_to_trigger_now = set()
    pool.pre_start_tasks_to_trigger = set()
    pool.tasks_to_hold = set()
    for m in ('data_store_mgr', 'workflow_db_mgr', 'xtrigger_mgr', 'task_queue_mgr', 'task_events_mgr'):
        setattr(pool, m, MagicMock())
    pool.max_future_offset = None
    pool.set_max_future_offset = lambda: None
    pool.spawn_next_parentless = lambda itask: None
    pool.create_data_store_elements = lambda itask: None
    pool.release_held_active_task = lambda itask: None
    return pool, tasks


ENTRIES = [(1, 'a'), (1, 'b'), (2, 'a')]


def pools():
    for n in range(0, 4):
        for combo in itertools.combinations(ENTRIES, n):
            for stale in (False, True):
                yield list(combo), stale


def conc_itask(model, oname):
    """add_to_pool / remove / _swap_out: every small pool x every candidate task
    (the pooled proxy itself, a fresh proxy with the same key, a new key)."""
    for entries, stale in pools():
        for which in range(-2, len(entries)):
            def mk(entries=entries, stale=stale, which=which):
                pool, tasks = mk_pool(entries, stale)
                if which >= 0:
                    t = tasks[which]
                elif which == -1:
                    t = _Task(*entries[0]) if entries else _Task(3, 'c')
                else:
                    t = _Task(3, 'c')
                return [pool, t], {}
            yield dict(pool=entries, stale=stale, task=which), mk


def conc_pool_only(model, oname):
    for entries, stale in pools():
        yield dict(pool=entries, stale=stale), (lambda entries=entries, stale=stale:
                                                 ([mk_pool(entries, stale)[0]], {}))


def conc_get_task(model, oname):
    from cylc.flow.cycling.integer import IntegerPoint
    for entries, stale in pools():
        for pt, name in ENTRIES + [(3, 'c')]:
            yield (dict(pool=entries, point=pt, name=name),
                   (lambda entries=entries, stale=stale, pt=pt, name=name:
                    ([mk_pool(entries, stale)[0], IntegerPoint(str(pt)), name], {})))


def conc_by_id(model, oname):
    for entries, stale in pools():
        for pt, name in ENTRIES + [(3, 'c')]:
            yield (dict(pool=entries, id=f'{pt}/{name}'),
                   (lambda entries=entries, stale=stale, pt=pt, name=name:
                    ([mk_pool(entries, stale)[0], f'{pt}/{name}'], {})))


def install():
    P = 'cylc.flow.task_pool:TaskPool.'
    for n in ('add_to_pool', 'remove', '_swap_out'):
        REG.contracts[P + n].concretise = conc_itask
    REG.contracts[P + 'get_tasks'].concretise = conc_pool_only
    REG.contracts[P + 'get_task'].concretise = conc_get_task
    REG.contracts[P + '_get_task_by_id'].concretise = conc_by_id


install()
