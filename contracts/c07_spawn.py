"""C07 (bounds / sequences), C46 (warm start), C06 (holds apply when an instance spawns),
C02 / C08 (finished-and-complete in a flow is not re-run) — the spawn path of the task pool:

    can_be_spawned  <-  _load_db_task_proxy  <-  spawn_task  <-  get_or_spawn_task

Every TaskProxy that reaches TaskPool.add_to_pool in a run comes out of spawn_task (the restart
loader re-creates what the database recorded).  spawn_task is verified against its real body:

  * it returns a proxy only if (name, point) is inside the graph: task defined, point within
    [initial, final], point on one of the task's sequences                                  (C07)
  * before the start point of a warm start nothing is spawned in flow 1 unless the instance was
    manually triggered                                                                      (C46)
  * an instance recorded as finished in this flow whose outputs are complete is not returned
    (it is not re-run)                                                                (C02, C08)
  * a returned instance that is listed in tasks_to_hold, or lies beyond the hold point, is held  (C06)
  * nothing is returned that has a prerequisite beyond the stop point                       (C07)

The sequences of a task definition are abstract here (SequenceBase.is_valid is the interface
contract; IntegerSequence refines it under C16)."""
from pyvc.spec import (contract, schema, spec, uninterp, implies, iff, forall, exists, REG)
import contracts.c09_state  # noqa: F401
import contracts.c26_pool  # noqa: F401
import contracts.c11_completion  # noqa: F401
import contracts.c02_history  # noqa: F401
import contracts.c18_points  # noqa: F401
from contracts.c18_points import ipt, pt_ok
from contracts.c26_pool import wf_entries, inpool, at
from contracts.c11_completion import oc
from contracts.c02_history import hist, meets, is_final
from contracts.c09_state import is_status

P = 'cylc.flow.task_pool:TaskPool.'
PROPS = ['C07']

schema('SequenceBase', 'cylc.flow.cycling:SequenceBase', fields={})
schema('TaskDef', 'cylc.flow.taskdef:TaskDef', fields={
    'sequences': 'list[SequenceBase]', 'has_abs_triggers': 'bool'})
schema('Experimental', '', fields={'expire_triggers': 'bool'})
schema('WorkflowConfig', 'cylc.flow.config:WorkflowConfig', fields={
    'taskdefs': 'dict[str,TaskDef]', 'initial_point': 'opt[IntegerPoint]',
    'final_point': 'opt[IntegerPoint]', 'start_point': 'IntegerPoint', 'experimental': 'Experimental'})
schema('XtriggerCollator', 'cylc.flow.xtrigger_mgr:XtriggerCollator',
       fields={'sequential_xtrigger_labels': 'set[str]'})
schema('XtriggerManager', 'cylc.flow.xtrigger_mgr:XtriggerManager', fields={'xtriggers': 'XtriggerCollator'})
schema('Tokens', 'cylc.flow.id:Tokens', fields={'relative_id_with_selectors': 'str', 'relative_id': 'str'})
schema('TaskPool', 'cylc.flow.task_pool:TaskPool', fields={
    'config': 'WorkflowConfig', 'stop_point': 'opt[IntegerPoint]', 'hold_point': 'opt[IntegerPoint]',
    'abs_outputs_done': 'set[tuple[str,str,str]]', 'tokens': 'Tokens',
    'ERR_PREFIX_TASK_NOT_ON_SEQUENCE': 'str'})
schema('TaskProxy', 'cylc.flow.task_proxy:TaskProxy', fields={'tokens': 'Tokens'})


# ------------------------------------------------------------------ the graph bounds
@uninterp(sorts=('SequenceBase', 'str'), result='bool')
def seq_has(seq, pv):
    """the point with text pv is a point of the sequence (clipped, minus exclusions)"""
    from cylc.flow.cycling.loader import get_point
    return seq.is_valid(get_point(pv))


contract('cylc.flow.cycling:SequenceBase.is_valid',
         sorts={'self': 'SequenceBase', 'point': 'IntegerPoint', 'result': 'bool'},
         ensures={'membership': 'result == seq_has(self, point.value)'},
         pure=True, assumed=True, props=PROPS,
         note='interface contract of a sequence; IntegerSequence.is_valid is proved to compute the set '
              'its recurrence denotes under C16, ISO8601Sequence is not covered')


@spec
def on_a_sequence(tdef, pv):
    return exists(lambda j: 0 <= j and j < len(tdef.sequences) and seq_has(tdef.sequences[j], pv))


@spec
def cfg_ok(pool):
    return ((pool.config.initial_point is None or pt_ok(pool.config.initial_point))
            and (pool.config.final_point is None or pt_ok(pool.config.final_point))
            and pt_ok(pool.config.start_point)
            and (pool.stop_point is None or pt_ok(pool.stop_point))
            and (pool.hold_point is None or pt_ok(pool.hold_point)))


@spec
def in_graph(pool, name, point):
    """(name, point) is a task instance of the graph: the first sentence of C07"""
    return (name in pool.config.taskdefs
            and (pool.config.initial_point is None or ipt(point) >= ipt(pool.config.initial_point))
            and (pool.config.final_point is None or ipt(point) <= ipt(pool.config.final_point))
            and on_a_sequence(pool.config.taskdefs[name], point.value))


contract('cylc.flow.taskdef:TaskDef.is_valid_point',
         sorts={'self': 'TaskDef', 'point': 'IntegerPoint', 'result': 'bool'},
         ensures={'on-one-of-its-sequences': 'result == on_a_sequence(self, point.value)'},
         pure=True, props=PROPS)

contract('cylc.flow.config:WorkflowConfig.get_taskdef',
         sorts={'self': 'WorkflowConfig', 'name': 'str', 'orig_expr': 'opt[str]', 'result': 'TaskDef'},
         ensures={'the-definition': 'name in self.taskdefs and result is self.taskdefs[name] '
                                    'and result.name == name',
                  'defined-tasks-are-returned-as-they-are':
                      'forall(lambda n: implies(old(n in self.taskdefs), n in self.taskdefs '
                      'and self.taskdefs[n] is old(self.taskdefs[n])), n="str")',
                  'an-implicit-definition-has-no-graph-sequences':
                      'implies(not old(name in self.taskdefs), fresh_obj(result) and len(result.sequences) == 0)',
                  'only-the-asked-name-may-be-added':
                      'forall(lambda n: implies(n != name or old(name in self.taskdefs), '
                      '(n in self.taskdefs) == old(n in self.taskdefs)), n="str")'},
         modifies=['self.taskdefs[*]'], may_raise=['WorkflowConfigError'],
         returns_when=['name in self.taskdefs'], assumed=True, props=PROPS + ['C03'],
         note='for a defined task the lookup returns taskdefs[name]; for an undefined name it creates an '
              'implicit definition (no sequences: it is in no graph) or raises')

contract(P + 'can_be_spawned',
         sorts={'self': 'TaskPool', 'name': 'str', 'point': 'IntegerPoint', 'result': 'bool'},
         requires=['cfg_ok(self)', 'pt_ok(point)'],
         ensures={'true-only-inside-the-graph': 'implies(result, in_graph(self, name, point))'},
         pure=True, props=PROPS)

# ------------------------------------------------------------------ construction of a proxy
# A new TaskProxy: what TaskProxy.__init__ / TaskState.__init__ store (assumed: 100 lines of
# bookkeeping, identity through Tokens, graph children, platform lookup).
contract('cylc.flow.task_proxy:TaskProxy',
         sorts={'self': 'TaskProxy', 'scheduler_tokens': 'Tokens', 'tdef': 'TaskDef', 'point': 'IntegerPoint',
                'flow_nums': 'opt[set[int]]', 'status': 'str', 'is_held': 'bool', 'submit_num': 'opt[int]',
                'is_late': 'bool', 'is_manual_submit': 'bool', 'flow_wait': 'bool', 'data_mode': 'bool',
                'transient': 'bool', 'sequential_xtrigger_labels': 'opt[set[str]]'},
         ensures={
             'what-it-is': 'self.tdef is tdef and self.point is point '
                           'and self.identity == point.value + "/" + tdef.name',
             'state': 'self.state.status == status and self.state.is_held == is_held '
                      'and not self.state.is_queued and self.state.is_runahead',
             'flags': 'self.transient == transient and self.is_manual_submit == is_manual_submit '
                      'and self.flow_wait == flow_wait and not self.waiting_on_job_prep',
             'submit-number': 'self.submit_num == (0 if submit_num is None else submit_num)',
             'own-copy-of-the-flow-numbers':
                 'fresh_obj(self.flow_nums) and fresh_obj(self.state) and fresh_obj(self.state.outputs) '
                 'and fresh_obj(self.state.outputs._completed) and fresh_obj(self.state.outputs._forced) '
                 'and forall(lambda n: (n in self.flow_nums) == (flow_nums is not None and n in flow_nums))',
         },
         assumed=True, props=PROPS,
         note='TaskProxy.__init__ / TaskState.__init__: field initialisation (status waiting tasks start '
              'runahead-limited: TaskState.__init__ sets is_runahead = True)')

# effects of pool operations on containers, by kind: the pool, task sets, prerequisites, outputs,
# flow numbers - never the configuration (taskdefs, sequences)
POOL_CONTENT = ['all:dict[str,dict[str,TaskProxy]][*]', 'all:dict[str,TaskProxy][*]', 'all:list[TaskProxy][*]',
                'all:set[TaskProxy][*]', 'all:set[int][*]', 'all:dict[str,bool][*]', 'all:list[str][*]',
                'all:set[tuple[str,str]][*]', 'all:set[tuple[str,str,str]][*]', 'all:dict[str,str][*]',
                'all:dict[tuple[str,str,str],str][*]']
TASK_FIELDS = ['all:TaskState.status', 'all:TaskState.is_held', 'all:TaskState.is_queued',
               'all:TaskState.is_runahead', 'all:TaskState.is_updated', 'all:TaskState.kill_failed',
               'all:TaskState.time_updated', 'all:TaskProxy.transient', 'all:TaskProxy.flow_wait',
               'all:TaskProxy.waiting_on_job_prep', 'all:TaskProxy.is_manual_submit',
               'all:TaskPool.active_tasks_changed', 'all:TaskPool.tasks_removed']

contract(P + '_load_historical_outputs',
         sorts={'self': 'TaskPool', 'itask': 'TaskProxy'},
         modifies=['itask.state.outputs._completed[*]', 'itask.state.outputs._forced[*]'],
         assumed=True, props=PROPS,
         note='completes on the new proxy the outputs recorded in the task_outputs table (SQL, json)')

contract(P + '_load_db_task_proxy',
         sorts={'self': 'TaskPool', 'point': 'IntegerPoint', 'taskdef': 'TaskDef', 'flow_nums': 'set[int]',
                'status': 'str', 'flow_wait': 'bool', 'transient': 'bool', 'is_manual_submit': 'bool',
                'submit_num': 'int', 'result': 'opt[TaskProxy]', 'itask': 'TaskProxy'},
         requires=['cfg_ok(self)', 'pt_ok(point)', 'is_status(status)'],
         ensures={
             'nothing-outside-the-graph':
                 'implies(result is not None, old(in_graph(self, taskdef.name, point)))',
             'a-new-proxy-for-that-instance':
                 'implies(result is not None, fresh_obj(result) and result.tdef is taskdef '
                 'and result.point is point and result.state.status == status '
                 'and not result.state.is_held and result.transient == transient '
                 'and result.flow_wait == flow_wait and result.is_manual_submit == is_manual_submit '
                 'and result.submit_num == submit_num and fresh_obj(result.state) '
                 'and fresh_obj(result.state.outputs) and fresh_obj(result.flow_nums) '
                 'and forall(lambda n: (n in result.flow_nums) == (n in flow_nums)))',
         },
         modifies=['all:fresh[*]'], props=PROPS)


# ------------------------------------------------------------------ spawn_task
@spec
def hist_rows(pool, name, point):
    return hist(pool.workflow_db_mgr.pri_dao, name, point.value)


@spec
def finished_in_flow(pool, name, point, flow_nums):
    """some recorded instance of name/point that shares a flow with flow_nums is finished"""
    return exists(lambda j: 0 <= j and j < len(hist_rows(pool, name, point))
                  and meets(flow_nums, hist_rows(pool, name, point)[j][2])
                  and is_final(hist_rows(pool, name, point)[j][3]))


@spec
def ran_in_flow(pool, name, point, flow_nums):
    return exists(lambda j: 0 <= j and j < len(hist_rows(pool, name, point))
                  and meets(flow_nums, hist_rows(pool, name, point)[j][2]))


@spec
def must_hold(pool, name, point):
    """the instance was held before it existed, or lies beyond the workflow hold point (C06)"""
    return ((name, point.value) in pool.tasks_to_hold
            or (pool.hold_point is not None and ipt(point) > ipt(pool.hold_point)))


contract('cylc.flow.task_state:TaskState.prerequisites_get_target_points',
         sorts={'self': 'TaskState', 'result': 'set[IntegerPoint]'},
         ensures={'points': 'forall(lambda r: implies(r in result, pt_ok(r)), r="IntegerPoint")'},
         pure=True, fresh=True, assumed=True, props=PROPS,
         note='set comprehension over the prerequisites (C13): the cycle points they refer to')
contract('cylc.flow.task_state:TaskState.prerequisites_are_not_all_satisfied',
         sorts={'self': 'TaskState', 'result': 'bool'}, pure=True, assumed=True, props=PROPS,
         note='all(p.is_satisfied()) over the prerequisites (C13)')
contract('cylc.flow.task_outputs:TaskOutputs.get_completed_outputs',
         sorts={'self': 'TaskOutputs', 'result': 'dict[str,str]'}, pure=True, fresh=True, assumed=True,
         props=PROPS, note='dict comprehension over the completed outputs')
contract('cylc.flow.task_proxy:TaskProxy.satisfy_me',
         sorts={'self': 'TaskProxy'}, assumed=True, props=PROPS,
         modifies=['all:dict[tuple[str,str,str],str][*]'],
         note='satisfies prerequisites (C13 Prerequisite.satisfy_me); no effect on status, flags or the pool')
contract('cylc.flow.id:Tokens', sorts={'self': 'Tokens'}, assumed=True, props=PROPS,
         note='identifier object (C23)')
contract(P + 'db_add_new_flow_rows', sorts={'self': 'TaskPool', 'itask': 'TaskProxy'}, assumed=True,
         props=PROPS, note='queues two DB inserts')
contract(P + '_spawn_after_flow_wait', sorts={'self': 'TaskPool', 'itask': 'TaskProxy'},
         modifies=POOL_CONTENT + TASK_FIELDS, assumed=True, props=PROPS,
         ensures={'this-proxy-stays-transient': 'implies(old(itask.transient), itask.transient)',
                  'holds-are-not-forgotten':
                      'forall(lambda n, p: implies(old((n, p) in self.tasks_to_hold), '
                      '(n, p) in self.tasks_to_hold), n="str", p="str")'},
         note='spawn_on_all_outputs(completed_only=True) for a finished flow-wait task: may add / merge '
              'other tasks; not under contract')
contract('cylc.flow.flow_mgr:repr_flow_nums', sorts={'result': 'str'}, pure=True, assumed=True,
         props=PROPS, note='log text')

contract(P + 'hold_active_task',
         sorts={'self': 'TaskPool', 'itask': 'TaskProxy'},
         ensures={'held': 'itask.state.is_held',
                  'remembered': '(itask.tdef.name, itask.point.value) in self.tasks_to_hold',
                  'nothing-forgotten': 'forall(lambda n, p: implies(old((n, p) in self.tasks_to_hold), '
                                       '(n, p) in self.tasks_to_hold), n="str", p="str")',
                  'status-kept': 'itask.state.status == old(itask.state.status) '
                                 'and itask.state.is_queued == old(itask.state.is_queued) '
                                 'and itask.state.is_runahead == old(itask.state.is_runahead)'},
         modifies=['itask.state.is_held', 'itask.state.time_updated', 'itask.state.is_updated',
                   'itask.state.kill_failed', 'self.tasks_to_hold[*]'],
         props=PROPS + ['C06'])
contract('cylc.flow.workflow_db_mgr:WorkflowDatabaseManager.put_tasks_to_hold',
         sorts={'self': 'WorkflowDatabaseManager'}, assumed=True, props=PROPS + ['C06'],
         note='queues the DB write of the set (C19 / SQL)')
contract('cylc.flow.data_store_mgr:DataStoreMgr.delta_task_state', assumed=True, props=PROPS + ['C06'],
         note='publishes the state (C25)')

contract(P + 'spawn_task',
         sorts={'self': 'TaskPool', 'name': 'str', 'point': 'IntegerPoint', 'flow_nums': 'set[int]',
                'flow_wait': 'bool', 'result': 'opt[TaskProxy]', 'submit_num': 'int',
                'prev_status': 'opt[str]', 'prev_flow_wait': 'bool', 'itask': 'TaskProxy', 'msg': 'str',
                'id_': 'str', 'pct': 'IntegerPoint'},
         requires=['cfg_ok(self)', 'pt_ok(point)',
                   'forall(lambda j: implies(0 <= j and j < len(hist_rows(self, name, point)), '
                   'is_status(hist_rows(self, name, point)[j][3])))'],
         ensures={
             # C07, first sentence
             'only-instances-of-the-graph':
                 'implies(result is not None, old(in_graph(self, name, point)))',
             'the-instance-asked-for':
                 'implies(result is not None, result.point is point '
                 'and result.tdef is old(self.config.taskdefs[name]))',
             # C46
             'nothing-before-the-start-point-in-the-original-flow':
                 'implies(not old(ran_in_flow(self, name, point, flow_nums)) '
                 'and ipt(point) < ipt(self.config.start_point) and 1 in flow_nums '
                 'and not old((name, point.value) in self.pre_start_tasks_to_trigger), result is None)',
             # C02 / C08: "a task already finished and complete in a flow is not re-run"
             'finished-and-complete-in-the-flow-is-not-respawned':
                 'implies(result is not None and old(finished_in_flow(self, name, point, flow_nums)), '
                 'not oc(result.state.outputs))',
             # C06: "holding an instance that is not yet in the pool takes effect when it spawns"
             'held-when-it-spawns':
                 'implies(result is not None and old(must_hold(self, name, point)), result.state.is_held)',
             'the-returned-proxy-is-not-transient': 'implies(result is not None, not result.transient)',
             'holds-are-not-forgotten':
                 'forall(lambda n, p: implies(old((n, p) in self.tasks_to_hold), '
                 '(n, p) in self.tasks_to_hold), n="str", p="str")',
         },
         loops={0: dict(invariant=[])},
         modifies=POOL_CONTENT + TASK_FIELDS + ['all:dict[str,TaskDef][*]'],
         may_raise=['WorkflowConfigError'], props=PROPS + ['C46', 'C06', 'C02'],
         options={'merge_ifs': True, 'weight': 10})

contract(P + 'merge_flows', sorts={'self': 'TaskPool', 'itask': 'TaskProxy', 'flow_nums': 'set[int]'},
         modifies=POOL_CONTENT + TASK_FIELDS, assumed=True, props=PROPS,
         ensures={'pool-keys-kept': 'forall(lambda p, i: inpool(self, p, i) == old(inpool(self, p, i)) and '
                                    'implies(inpool(self, p, i), at(self, p, i) is old(at(self, p, i))), '
                                    'p="str", i="str")'},
         note='flow merge into an existing pool task (C08); may re-queue / respawn, keeps the pool keys')

contract(P + 'get_or_spawn_task',
         sorts={'self': 'TaskPool', 'point': 'IntegerPoint', 'tdef': 'TaskDef', 'flow_nums': 'set[int]',
                'flow_wait': 'bool', 'result': 'tuple[opt[TaskProxy],bool]', 'ntask': 'opt[TaskProxy]',
                'is_in_pool': 'bool'},
         requires=['cfg_ok(self)', 'pt_ok(point)', 'wf_entries(self)',
                   'forall(lambda j: implies(0 <= j and j < len(hist_rows(self, tdef.name, point)), '
                   'is_status(hist_rows(self, tdef.name, point)[j][3])))'],
         ensures={
             # C02: "no duplicate proxies": an instance that is in the pool is never constructed again
             'pooled-instance-is-reused':
                 'implies(old(inpool(self, point.value, point.value + "/" + tdef.name)), result[1] '
                 'and result[0] is old(at(self, point.value, point.value + "/" + tdef.name)))',
             'new-only-if-absent-and-in-the-graph':
                 'implies(result[0] is not None and not result[1], '
                 'not old(inpool(self, point.value, point.value + "/" + tdef.name)) '
                 'and old(in_graph(self, tdef.name, point)) and result[0].point is point)',
         },
         modifies=POOL_CONTENT + TASK_FIELDS + ['all:dict[str,TaskDef][*]'],
         may_raise=['WorkflowConfigError'], props=PROPS + ['C02'])

