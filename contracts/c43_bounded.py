"""C43 - Stop point, stop task and stop modes behave as documented.  BOUNDED stand-in, not a proof.

The property is about histories of a whole Scheduler: main-loop iterations, the runahead computation, the
internal queues, the simulated job life cycle, the SQLite workflow database and restarts.  None of that is in
the verifier generator's subset (asyncio, threads, ZMQ server, SQL), so the contract is checked at run time on
REAL Scheduler objects run in-process in simulation mode, in a scratch HOME.  Nothing under /repo is edited:
the harness only wraps, from outside, Scheduler._main_loop (to count iterations and issue the commands
between two iterations), Scheduler.submit_task_jobs (to record every job submission), TaskEventsManager.
process_message (to record the moment a job succeeds) and Scheduler._shutdown (to record the shutdown moment and
reason).  Jobs get a "run length" of one hour and the harness ends each of them after a fixed number of main
loop iterations (by expiring the simulated job's timeout, so the real sim_time_check completes it): the runs
are deterministic and do not depend on wall-clock time.  After a shutdown the database is read with sqlite3.

The oracle is written from the property statement: the graph is  "every task of the workflow at every integer
point 1..F", every instance runs exactly once in an uninterrupted run (all simulated jobs succeed); a reference
run of every workflow is compared with that model first.

Contract clauses (one result per group):

  stop point P, requested with `stop --cycle-point` before main-loop iteration k (or from the start with the
  configuration item `stop after cycle point` / the start option --stopcp):
    (P1) no instance with point > P is submitted after the request, unless it was manually triggered
    (P2) a manually triggered instance beyond P IS submitted (no demand if the shutdown at P was already due
         when the trigger arrived: nothing active and everything <= P succeeded)
    (P3) the workflow shuts down by itself (AUTOMATIC), not before every instance <= P of the graph has run
         (exactly once, succeeded; same set as the uninterrupted reference run restricted to <= P), and at most
         2 iterations after the last submission / success / request
    (P4) stopped (--now --now) before P is reached: the database holds stopcp = P and a new Scheduler on the same
         run directory has pool.stop_point = P and still obeys P1 / P3
    (P5) once P has been reached the database stopcp is NULL and a restart has no early stop point
         (pool.stop_point = final point), runs on beyond P and completes the graph, every instance once
    (P6) a second stop point request replaces the first one
  the same scenarios in which instances beyond P are already queued when the request is made (workflow with a
  limited internal queue; tasks queued at start-up, request before iteration 0) are reported apart (P1 - P5)
  stop task T, requested before iteration k while T has not succeeded yet:
    (T1) the workflow does not shut down before T succeeded   (T2) it shuts down at most 2 iterations later
    (T3) the submissions after the iteration in which T succeeded are not more than the jobs active then
    (T1, reported apart) when the job of T FAILS the workflow does not shut down on that account
  clean stop before iteration k:
    (C1) nothing is submitted after the request   (C2) every job active at the request succeeds before the
    shutdown, no active task is left in the database pool   (C3) reason REQUEST(CLEAN), at most 2 iterations
    after the last success
  stop --now / --now --now before iteration k:
    (N1) nothing is submitted after the request   (N2) shutdown in the iteration that follows the request, reason
    REQUEST(NOW) / REQUEST(NOW-NOW), the jobs active at the request are still active (submitted / running) in
    the database (they are not waited for)
    (N3) a restart restores them active with the same submit number, does not submit them again, and the
    graph completes, every instance exactly once over both runs"""
import asyncio
import os
import random
import shutil
import sqlite3
import tempfile
import time

ACTIVE = ('preparing', 'submitted', 'running')

# name, graph (cylc syntax), job length of each task in main loop iterations, final point, runahead limit,
# limit of the default internal queue
WORKFLOWS = [
    dict(name='chain', graph='a[-P1] => a => b', durs={'a': 1, 'b': 2}, final=5, runahead='P3', qlimit=0),
    dict(name='fan', graph='a => b\n            b[-P1] => b', durs={'a': 1, 'b': 1}, final=5, runahead='P2',
         qlimit=0),
    dict(name='three', graph='a[-P1] => a => b => c', durs={'a': 1, 'b': 1, 'c': 3}, final=5, runahead='P4',
         qlimit=0),
    dict(name='queue', graph='a => b', durs={'a': 1, 'b': 1}, final=4, runahead='P3', qlimit=1),
]


def _flow_text(wf, stop_after=None, fail=None):
    text = ('[scheduler]\n    allow implicit tasks = True\n    [[events]]\n        restart timeout = PT0S\n'
            '[scheduling]\n    cycling mode = integer\n    initial cycle point = 1\n'
            f'    final cycle point = {wf["final"]}\n    runahead limit = {wf["runahead"]}\n')
    if stop_after is not None:
        text += f'    stop after cycle point = {stop_after}\n'
    if wf['qlimit']:
        text += f'    [[queues]]\n        [[[default]]]\n            limit = {wf["qlimit"]}\n'
    text += f'    [[graph]]\n        P1 = """\n            {wf["graph"]}\n        """\n'
    text += '[runtime]\n    [[root]]\n        [[[simulation]]]\n            default run length = PT1H\n'
    if fail is not None:        # fail = 'point/task': that job fails (every try)
        point, task = fail.split('/')
        text += (f'    [[{task}]]\n        [[[simulation]]]\n            fail cycle points = {point}\n'
                 '            fail try 1 only = False\n')
    return text


def _model(wf, upto=None):
    """the graph as the property sees it: every task at every point 1..F (restricted to <= upto)"""
    top = wf['final'] if upto is None else min(upto, wf['final'])
    return {f'{p}/{t}' for p in range(1, top + 1) for t in wf['durs']}


def _point(ident):
    return int(ident.split('/')[0])


# --------------------------------------------------------------------------------------------------------------
# environment

class _Env:
    """scratch HOME / cylc-run, and restoration of everything a Scheduler touches in the process"""

    _UNSET = object()

    def __enter__(self):
        self.tmp = tempfile.mkdtemp(prefix='verif_c43_', dir='/var/tmp')
        self.old_env = {k: os.environ.get(k) for k in ('HOME', 'CYLC_CONF_PATH', 'CYLC_SITE_CONF_PATH')}
        self.cwd = os.getcwd()
        self.saved = False
        try:
            self._save_and_redirect()
        except BaseException:
            self.__exit__(None, None, None)
            raise
        return self

    def _save_and_redirect(self):
        import logging
        import signal
        # process state first, redirection afterwards
        self.signals = {}
        for sig in (signal.SIGINT, signal.SIGTERM, signal.SIGHUP):
            try:
                self.signals[sig] = signal.getsignal(sig)
            except (ValueError, OSError):
                pass
        self.loggers = {}
        for lname in ('cylc', 'cylc-install', 'cylc-reinstall'):
            lg = logging.getLogger(lname)
            self.loggers[lname] = (list(lg.handlers), lg.level, lg.propagate)
        from cylc.flow.cycling import loader
        import cylc.flow.flags
        from cylc.flow.cycling.iso8601 import WorkflowSpecifics
        from metomi.isodatetime.data import Calendar
        self.cycler_type = getattr(loader.DefaultCycler, 'TYPE', self._UNSET)
        self.flags = (cylc.flow.flags.verbosity, cylc.flow.flags.cylc7_back_compat)
        self.specifics = {k: v for k, v in vars(WorkflowSpecifics).items() if not k.startswith('__')}
        self.calendar = Calendar.default().mode
        self.saved = True
        conf = os.path.join(self.tmp, 'conf')
        os.makedirs(conf)
        os.environ['HOME'] = self.tmp
        os.environ['CYLC_CONF_PATH'] = conf
        os.environ.pop('CYLC_SITE_CONF_PATH', None)
        from cylc.flow.cfgspec.glbl_cfg import glbl_cfg
        glbl_cfg(reload=True)
        from cylc.flow.pathutil import get_cylc_run_dir
        self.run_dir = get_cylc_run_dir()
        if not os.path.realpath(self.run_dir).startswith(os.path.realpath(self.tmp)):
            raise RuntimeError(f'cylc run directory {self.run_dir} is not in the scratch area')
        os.makedirs(self.run_dir, exist_ok=True)
        # the schedulers' warnings (orphaned tasks, stall messages...) are expected here: keep them off stderr
        self.quiet = logging.NullHandler()
        for lname in self.loggers:
            lg = logging.getLogger(lname)
            lg.handlers[:] = [self.quiet]
            lg.propagate = False

    def drop_file_handlers(self):
        import logging
        for lname in getattr(self, 'loggers', {}):
            lg = logging.getLogger(lname)
            for h in list(lg.handlers):
                if h is not getattr(self, 'quiet', None) and h not in self.loggers[lname][0]:
                    lg.removeHandler(h)
                    try:
                        h.close()
                    except Exception:
                        pass

    def __exit__(self, *exc):
        import logging
        import signal
        try:
            self.drop_file_handlers()
            for lname, (handlers, level, propagate) in getattr(self, 'loggers', {}).items():
                lg = logging.getLogger(lname)
                lg.handlers[:] = handlers
                lg.setLevel(level)
                lg.propagate = propagate
            for sig, handler in getattr(self, 'signals', {}).items():
                try:
                    signal.signal(sig, handler)
                except (ValueError, OSError, TypeError):
                    pass
            for key, val in self.old_env.items():
                if val is None:
                    os.environ.pop(key, None)
                else:
                    os.environ[key] = val
            try:
                os.chdir(self.cwd)
            except OSError:
                pass
            if self.saved:
                from cylc.flow.cycling import loader
                import cylc.flow.flags
                from cylc.flow.cycling.iso8601 import WorkflowSpecifics
                from metomi.isodatetime.data import Calendar
                if self.cycler_type is self._UNSET:
                    if 'TYPE' in vars(loader.DefaultCycler):
                        del loader.DefaultCycler.TYPE
                else:
                    loader.DefaultCycler.TYPE = self.cycler_type
                cylc.flow.flags.verbosity, cylc.flow.flags.cylc7_back_compat = self.flags
                for k in [k for k in vars(WorkflowSpecifics) if not k.startswith('__')]:
                    if k not in self.specifics:
                        delattr(WorkflowSpecifics, k)
                for k, v in self.specifics.items():
                    setattr(WorkflowSpecifics, k, v)
                Calendar.default().set_mode(self.calendar)
                from cylc.flow.cfgspec.glbl_cfg import glbl_cfg
                glbl_cfg(reload=True)
        finally:
            shutil.rmtree(self.tmp, ignore_errors=True)
        return False


# --------------------------------------------------------------------------------------------------------------
# one Scheduler run, driven iteration by iteration

async def _play_async(wid, wf, opts, actions, maxit, kill_at):
    from cylc.flow import commands
    from cylc.flow.scheduler import Scheduler
    from cylc.flow.scheduler_cli import RunOptions
    from cylc.flow.workflow_status import StopMode

    trace = dict(subs=[], succ=[], failed=[], active={}, due={}, queued={}, shutdown=None, killed=False,
                 error=None, pre=None, iters=0, issued=[])
    schd = Scheduler(wid, RunOptions(**{'paused_start': False, 'run_mode': 'simulation', **opts}))
    schd.INTERVAL_MAIN_LOOP = 0.0           # instance attributes: no sleeping between the iterations
    schd.INTERVAL_MAIN_LOOP_QUICK = 0.0
    await schd.install()
    await schd.start()
    trace['pre'] = dict(
        stop_point=None if schd.pool.stop_point is None else str(schd.pool.stop_point),
        config_stop_point=None if schd.config.stop_point is None else str(schd.config.stop_point),
        pool={t.identity: (t.state.status, t.submit_num) for t in schd.pool.get_tasks()},
        is_restart=bool(schd.is_restart))
    it = [0]
    age = {}

    real_submit = schd.submit_task_jobs

    def submit(itasks):
        out = real_submit(itasks)
        for t in out:
            trace['subs'].append((it[0], t.identity, t.submit_num, bool(t.is_manual_submit)))
        return out
    schd.submit_task_jobs = submit

    tem = schd.task_events_mgr
    real_msg = tem.process_message

    def process_message(itask, severity, message, *args, **kwargs):
        ret = real_msg(itask, severity, message, *args, **kwargs)
        if message == 'succeeded':
            trace['succ'].append((it[0], itask.identity))
        elif message == 'failed':
            trace['failed'].append((it[0], itask.identity))
        return ret
    tem.process_message = process_message

    real_shutdown = schd._shutdown

    async def shutdown(reason):
        if trace['shutdown'] is None:
            trace['shutdown'] = (it[0], type(reason).__name__, str(reason))
        await real_shutdown(reason)
    schd._shutdown = shutdown

    real_loop = schd._main_loop

    async def main_loop():
        k = it[0]
        snapshot, due = {}, set()
        trace['queued'][k] = {t.identity for t in schd.pool.get_tasks() if t.state.is_queued}
        for t in schd.pool.get_tasks():
            if t.state.status in ACTIVE:
                snapshot[t.identity] = (t.state.status, t.submit_num)
            if t.state.status == 'running':
                age[t.identity] = age.get(t.identity, 0) + 1
                if age[t.identity] >= wf['durs'][t.tdef.name] and t.mode_settings is not None:
                    t.mode_settings.timeout = 0.0          # the job ends in this iteration
                    due.add(t.identity)
        trace['active'][k] = snapshot
        trace['due'][k] = due
        for act in actions.get(k, ()):
            kind = act[0]
            if kind == 'stopcp':
                cmd = commands.stop(schd, mode=None, cycle_point=str(act[1]))
            elif kind == 'stoptask':
                cmd = commands.stop(schd, mode=None, task=act[1])
            elif kind == 'clean':
                cmd = commands.stop(schd, mode=StopMode.REQUEST_CLEAN)
            elif kind == 'now':
                cmd = commands.stop(schd, mode=StopMode.REQUEST_NOW)
            elif kind == 'nownow':
                cmd = commands.stop(schd, mode=StopMode.REQUEST_NOW_NOW)
            elif kind == 'trigger':
                cmd = commands.force_trigger_tasks(schd, [act[1]], ['all'])
            else:
                raise ValueError(kind)
            await commands.run_cmd(cmd)
            trace['issued'].append((k, kind))
        if k >= maxit or (kill_at is not None and k >= kill_at):
            trace['killed'] = True
            schd._set_stop(StopMode.REQUEST_NOW_NOW)        # harness: end of the observation
        await real_loop()
        it[0] += 1
        trace['iters'] = it[0]
    schd._main_loop = main_loop

    try:
        await schd.run_scheduler()
    except BaseException as exc:            # the scheduler re-raises what made it abort
        if isinstance(exc, (KeyboardInterrupt, SystemExit)):
            raise
        trace['error'] = f'{type(exc).__name__}: {exc}'
    finally:
        if getattr(schd, 'contact_data', None):
            try:
                from cylc.flow.scheduler import SchedulerStop
                await asyncio.wait_for(schd.shutdown(SchedulerStop('harness teardown')), 10)
            except BaseException as exc:
                trace['error'] = (trace['error'] or '') + f' teardown {type(exc).__name__}: {exc}'
        thread = getattr(getattr(schd, 'server', None), 'thread', None)
        if thread is not None and thread.is_alive():
            thread.join(5)
    return trace


def _play(env, wid, wf, opts=None, actions=None, maxit=60, kill_at=None):
    try:
        trace = asyncio.run(_play_async(wid, wf, opts or {}, actions or {}, maxit, kill_at))
    except BaseException as exc:
        if isinstance(exc, (KeyboardInterrupt, SystemExit)):
            raise
        trace = dict(subs=[], succ=[], failed=[], active={}, due={}, queued={}, shutdown=None, killed=False,
                     pre=None, iters=0, issued=[], error=f'harness {type(exc).__name__}: {exc}')
    env.drop_file_handlers()
    trace['db'] = _read_db(os.path.join(env.run_dir, wid))
    return trace


def _read_db(rundir):
    path = os.path.join(rundir, '.service', 'db')
    out = dict(params={}, states={}, pool={})
    if not os.path.exists(path):
        return out
    con = sqlite3.connect(path)
    try:
        out['params'] = dict(con.execute('SELECT key, value FROM workflow_params'))
        for cycle, name, status, submit_num in con.execute(
                'SELECT cycle, name, status, submit_num FROM task_states'):
            out['states'][f'{cycle}/{name}'] = (status, submit_num)
        for cycle, name, status in con.execute('SELECT cycle, name, status FROM task_pool'):
            out['pool'][f'{cycle}/{name}'] = status
    finally:
        con.close()
    return out


def _new_flow(env, wid, wf, stop_after=None, fail=None):
    rundir = os.path.join(env.run_dir, wid)
    os.makedirs(rundir, exist_ok=True)
    with open(os.path.join(rundir, 'flow.cylc'), 'w') as handle:
        handle.write(_flow_text(wf, stop_after, fail))
    return rundir


# --------------------------------------------------------------------------------------------------------------
# contract evaluation helpers (oracle side)

def _brief(trace):
    """what a reader needs of a run to reproduce / understand a witness"""
    return dict(submissions=[f'{k}:{i}' + ('(manual)' if m else '') for k, i, _, m in trace['subs']],
                shutdown=trace['shutdown'], killed_by_harness=trace['killed'], error=trace['error'],
                db_stopcp=trace['db']['params'].get('stopcp'))


def _auto(trace):
    return (not trace['killed'] and trace['error'] is None and trace['shutdown'] is not None
            and trace['shutdown'][1] == 'SchedulerStop' and trace['shutdown'][2] == 'AUTOMATIC')


def _last_event(trace, request_k):
    ks = [k for k, *_ in trace['subs']] + [k for k, _ in trace['succ']]
    if request_k is not None:
        ks.append(request_k)
    return max(ks) if ks else 0


def _once_and_succeeded(wf, runs, upto, problems, clause, ref=None):
    """every instance <= upto of the graph was submitted exactly once over the runs, with submit number 1, and
    succeeded"""
    want = _model(wf, upto)
    if ref is not None:
        ref_want = {i for i in ref if _point(i) <= (wf['final'] if upto is None else upto)}
        if ref_want != want:
            problems.append(dict(clause='reference', model=sorted(want), reference=sorted(ref_want)))
    count = {}
    for r in runs:
        for _, ident, num, _manual in r['subs']:
            count[ident] = count.get(ident, 0) + 1
            if num != 1:
                problems.append(dict(clause=clause, instance=ident, submit_num=num, demanded=1))
    succeeded = {i for r in runs for _, i in r['succ']}
    missing = sorted(i for i in want if count.get(i, 0) == 0)
    twice = sorted(i for i in want if count.get(i, 0) > 1)
    unfinished = sorted(i for i in want if i not in succeeded and i not in missing)
    db = runs[-1]['db']['states']
    db_bad = sorted(i for i in want if i in db and db[i][0] != 'succeeded' and i not in missing)
    if missing:
        problems.append(dict(clause=clause, never_submitted=missing,
                             demanded='every instance of the graph up to the stop point runs before the shutdown'))
    if twice:
        problems.append(dict(clause=clause, submitted_more_than_once=twice))
    if unfinished or db_bad:
        problems.append(dict(clause=clause, not_succeeded_at_shutdown=sorted(set(unfinished) | set(db_bad))))


def _beyond(trace, limit, from_k=0, to_k=None):
    return [f'{k}:{i}' for k, i, _, manual in trace['subs']
            if not manual and _point(i) > limit and k >= from_k and (to_k is None or k < to_k)]


# --------------------------------------------------------------------------------------------------------------
# scenarios; each returns (problems, info) - info['evaluated'] False when the contract makes no demand

def sc_reference(env, wid, wf):
    _new_flow(env, wid, wf)
    run = _play(env, wid, wf)
    problems = []
    if not _auto(run):
        problems.append(dict(clause='reference', observed=_brief(run)))
    got = sorted(i for _, i, _, _ in run['subs'])
    if got != sorted(_model(wf)):
        problems.append(dict(clause='reference', submitted=got, model=sorted(_model(wf))))
    return problems, dict(evaluated=True, iters=run['iters'], ref={i for _, i, _, _ in run['subs']},
                          sub_iter={i: k for k, i, _, _ in run['subs']}, succ_iter={i: k for k, i in run['succ']},
                          busy={k for k, snap in run['active'].items() if snap}, starts=1)


def sc_stop_point(env, wid, wf, ref, how, k, P, gap, trigger=None, second=None):
    """how: 'cmd' (request before iteration k), 'config', 'opt' (--stopcp); gap: iterations until the harness
    stops the first run (--now --now) to restart it; trigger: instance beyond P to trigger manually right after
    the request; second: (k2, P2) a later request"""
    F = wf['final']
    problems, starts = [], 0
    opts, actions = {}, {}
    _new_flow(env, wid, wf, stop_after=P if how == 'config' else None)
    if how == 'opt':
        opts['stopcp'] = str(P)
    req_k = 0
    if how == 'cmd':
        actions[k] = [('stopcp', P)]
        req_k = k
        if trigger:
            actions[k].append(('trigger', trigger))
    if second:
        actions.setdefault(second[0], []).append(('stopcp', second[1]))
    kill_at = None if gap is None else req_k + gap
    run1 = _play(env, wid, wf, opts, actions, kill_at=kill_at)
    starts += 1
    runs = [run1]
    base = dict(workflow=wf['name'], how=how, request_before_iteration=req_k, stop_point=P)
    if second:
        base['second_request'] = dict(before_iteration=second[0], stop_point=second[1])
    if trigger:
        base['manual_trigger'] = trigger
    if run1['error']:
        return [dict(base, clause='crash', observed=_brief(run1))], dict(evaluated=True, starts=starts)
    if how == 'cmd' and (k, 'stopcp') not in run1['issued']:
        return [], dict(evaluated=False, starts=starts)             # the run was over before iteration k
    final_P = P
    if second:
        if (second[0], 'stopcp') not in run1['issued']:
            return [], dict(evaluated=False, starts=starts)
        final_P = second[1]
        bad = _beyond(run1, P, req_k, second[0]) + _beyond(run1, final_P, second[0])
    else:
        bad = _beyond(run1, P, req_k)
    if bad:
        problems.append(dict(base, clause='P1', submitted_beyond_stop_point_after_request=bad, run=_brief(run1)))
    race = False
    if trigger:
        # no demand when the shutdown at P was already due at the request (nothing active, everything <= P has
        # succeeded): the property allows the trigger, it does not say that it holds up the shutdown
        done_before = {i for kk, i in run1['succ'] if kk < req_k}
        race = not run1['active'].get(req_k) and _model(wf, P) <= done_before
        hit = [s for s in run1['subs'] if s[1] == trigger and s[3] and s[0] >= req_k]
        if not hit and not race:
            problems.append(dict(base, clause='P2', demanded=f'{trigger} triggered manually is submitted',
                                 run=_brief(run1)))
    queued_beyond = sorted(i for i in run1['queued'].get(req_k, ()) if _point(i) > P) if how == 'cmd' else []
    reached = run1
    if run1['killed']:
        # (P4) not yet reached: survives the restart
        if how in ('cmd', 'opt') and final_P < F and run1['db']['params'].get('stopcp') != str(final_P):
            problems.append(dict(base, clause='P4', db_stopcp=run1['db']['params'].get('stopcp'),
                                 demanded=str(final_P), run=_brief(run1)))
        run2 = _play(env, wid, wf)
        starts += 1
        runs.append(run2)
        if run2['error'] or run2['pre'] is None:
            return problems + [dict(base, clause='crash', restart=_brief(run2))], dict(evaluated=True,
                                                                                     starts=starts)
        if run2['pre']['stop_point'] != str(final_P):
            problems.append(dict(base, clause='P4', restart_pool_stop_point=run2['pre']['stop_point'],
                                 demanded=str(final_P)))
        bad = _beyond(run2, final_P)
        if bad:
            problems.append(dict(base, clause='P1', submitted_beyond_stop_point_after_restart=bad,
                                 run=_brief(run2)))
        reached = run2
    # (P3) shuts down by itself, not before and not long after everything <= P ran
    if not _auto(reached):
        problems.append(dict(base, clause='P3', demanded='AUTOMATIC shutdown at the stop point',
                             observed=_brief(reached)))
    else:
        _once_and_succeeded(wf, runs, final_P, problems, 'P3', ref)
        last = _last_event(reached, req_k if reached is run1 else None)
        if second and reached is run1:
            last = max(last, second[0])
        if reached['shutdown'][0] > last + 2:
            problems.append(dict(base, clause='P3', shutdown_iteration=reached['shutdown'][0],
                                 last_submission_success_or_request=last, demanded='at most 2 iterations later'))
        for p in problems:
            p.setdefault('workflow', wf['name'])
        # (P5) forgotten once reached
        if how in ('cmd', 'opt') and final_P < F:
            if reached['db']['params'].get('stopcp') is not None:
                problems.append(dict(base, clause='P5', db_stopcp_after_reaching_it=reached['db']['params']['stopcp'],
                                     demanded=None))
            run3 = _play(env, wid, wf)
            starts += 1
            if run3['error'] or run3['pre'] is None:
                problems.append(dict(base, clause='crash', restart_after_stop_point=_brief(run3)))
            else:
                if run3['pre']['stop_point'] != str(F) or run3['pre']['config_stop_point'] is not None:
                    problems.append(dict(base, clause='P5', restart_pool_stop_point=run3['pre']['stop_point'],
                                         restart_config_stop_point=run3['pre']['config_stop_point'],
                                         demanded=f'no stop point (pool.stop_point = final point {F})'))
                if not _auto(run3):
                    problems.append(dict(base, clause='P5', demanded='the restart runs on to the final point',
                                         observed=_brief(run3)))
                else:
                    extra = []
                    _once_and_succeeded(wf, runs + [run3], None, extra, 'P5', ref)
                    problems.extend(dict(base, **e) for e in extra)
    for p in problems:
        for key, val in base.items():
            p.setdefault(key, val)
    if queued_beyond:
        for p in problems:
            p.setdefault('queued_beyond_stop_point_at_request', queued_beyond)
    return problems, dict(evaluated=True, starts=starts, restarted=run1['killed'], queued_beyond=bool(queued_beyond),
                          trigger_race=race)


def sc_stop_task(env, wid, wf, k, T):
    _new_flow(env, wid, wf)
    run = _play(env, wid, wf, actions={k: [('stoptask', T)]})
    base = dict(workflow=wf['name'], request_before_iteration=k, stop_task=T)
    if run['error']:
        return [dict(base, clause='crash', observed=_brief(run))], dict(evaluated=True, starts=1)
    if (k, 'stoptask') not in run['issued'] or any(i == T and kk < k for kk, i in run['succ']):
        return [], dict(evaluated=False, starts=1)      # T had already succeeded: no demand
    problems = []
    done = [kk for kk, i in run['succ'] if i == T]
    if run['killed'] or run['shutdown'] is None or run['shutdown'][1] != 'SchedulerStop':
        problems.append(dict(base, clause='T2', demanded='shutdown after the stop task succeeded',
                             observed=_brief(run)))
    elif not done:
        problems.append(dict(base, clause='T1', demanded='no shutdown before the stop task succeeded',
                             observed=_brief(run)))
    else:
        k_t = done[0]
        if run['shutdown'][0] > k_t + 2:
            problems.append(dict(base, clause='T2', stop_task_succeeded_in_iteration=k_t,
                                 shutdown_iteration=run['shutdown'][0], demanded='at most 2 iterations later'))
        later = [f'{kk}:{i}' for kk, i, _, _ in run['subs'] if kk > k_t]
        allowed = len([i for i in run['active'].get(k_t, {}) if i != T])
        if len(later) > allowed:
            problems.append(dict(base, clause='T3', stop_task_succeeded_in_iteration=k_t,
                                 submitted_later=later, jobs_active_then=allowed, run=_brief(run)))
        if run['db']['states'].get(T, (None,))[0] != 'succeeded':
            problems.append(dict(base, clause='T1', db_state_of_stop_task=run['db']['states'].get(T)))
    return problems, dict(evaluated=True, starts=1)


def sc_stop_task_fails(env, wid, wf, k, T, maxit):
    """the stop task's job fails: the workflow must not take that for the stop condition"""
    _new_flow(env, wid, wf, fail=T)
    run = _play(env, wid, wf, actions={k: [('stoptask', T)]}, maxit=maxit)
    base = dict(workflow=wf['name'], request_before_iteration=k, stop_task=T, stop_task_job='fails')
    if run['error']:
        return [dict(base, clause='crash', observed=_brief(run))], dict(evaluated=True, starts=1)
    if (k, 'stoptask') not in run['issued'] or any(i == T and kk < k for kk, i in run['failed']):
        return [], dict(evaluated=False, starts=1)
    problems = []
    if not run['killed'] and run['shutdown'] is not None and not any(i == T for _, i in run['succ']):
        problems.append(dict(base, clause='T1', demanded='no shutdown before the stop task succeeded',
                             stop_task_failed_in_iteration=[kk for kk, i in run['failed'] if i == T],
                             db_state_of_stop_task=run['db']['states'].get(T), observed=_brief(run)))
    return problems, dict(evaluated=True, starts=1)


def sc_clean(env, wid, wf, k):
    _new_flow(env, wid, wf)
    run = _play(env, wid, wf, actions={k: [('clean',)]})
    base = dict(workflow=wf['name'], request_before_iteration=k, stop='clean')
    if run['error']:
        return [dict(base, clause='crash', observed=_brief(run))], dict(evaluated=True, starts=1)
    if (k, 'clean') not in run['issued']:
        return [], dict(evaluated=False, starts=1)
    problems = []
    active = run['active'].get(k, {})
    later = [f'{kk}:{i}' for kk, i, _, _ in run['subs'] if kk >= k]
    if later:
        problems.append(dict(base, clause='C1', submitted_after_request=later, run=_brief(run)))
    if run['killed'] or run['shutdown'] is None or run['shutdown'][1:] != ('SchedulerStop', 'REQUEST(CLEAN)'):
        problems.append(dict(base, clause='C3', demanded='shutdown with reason REQUEST(CLEAN)',
                             observed=_brief(run)))
    else:
        succeeded = {i for _, i in run['succ']}
        waiting_for = sorted(i for i in active if i not in succeeded)
        if waiting_for:
            problems.append(dict(base, clause='C2', active_at_request_not_finished_at_shutdown=waiting_for,
                                 shutdown=run['shutdown']))
        left = sorted(i for i, s in run['db']['pool'].items() if s in ACTIVE)
        if left:
            problems.append(dict(base, clause='C2', active_in_database_pool_after_shutdown=left))
        last = _last_event(run, k)
        if run['shutdown'][0] > last + 2:
            problems.append(dict(base, clause='C3', shutdown_iteration=run['shutdown'][0], last_success=last,
                                 demanded='at most 2 iterations later'))
    return problems, dict(evaluated=True, starts=1, had_active=bool(active))


def sc_now(env, wid, wf, ref, k, kind):
    _new_flow(env, wid, wf)
    run = _play(env, wid, wf, actions={k: [(kind,)]})
    base = dict(workflow=wf['name'], request_before_iteration=k, stop=kind)
    if run['error']:
        return [dict(base, clause='crash', observed=_brief(run))], dict(evaluated=True, starts=1)
    if (k, kind) not in run['issued']:
        return [], dict(evaluated=False, starts=1)
    problems = []
    active = run['active'].get(k, {})
    reason = 'REQUEST(NOW)' if kind == 'now' else 'REQUEST(NOW-NOW)'
    later = [f'{kk}:{i}' for kk, i, _, _ in run['subs'] if kk >= k]
    if later:
        problems.append(dict(base, clause='N1', submitted_after_request=later, run=_brief(run)))
    if run['killed'] or run['shutdown'] is None or run['shutdown'][1:] != ('SchedulerStop', reason):
        problems.append(dict(base, clause='N2', demanded=f'shutdown with reason {reason}', observed=_brief(run)))
        return problems, dict(evaluated=True, starts=1, had_active=bool(active))
    if run['shutdown'][0] > k:
        problems.append(dict(base, clause='N2', shutdown_iteration=run['shutdown'][0],
                             demanded=f'in iteration {k}, the one that follows the request'))
    # the jobs active at the request are left alone, not waited for: all those which were not about to end in
    # iteration k by themselves (harness job length) must still be active after the shutdown
    finished = {i for kk, i in run['succ'] if kk >= k}
    orphans = {i: v for i, v in active.items() if i not in finished or i not in run['due'].get(k, ())}
    for ident, (status, num) in sorted(orphans.items()):
        if run['db']['pool'].get(ident) not in ('submitted', 'running'):
            problems.append(dict(base, clause='N2', instance=ident, status_at_request=status,
                                 database_pool_status_after_shutdown=run['db']['pool'].get(ident),
                                 demanded='still active'))
    run2 = _play(env, wid, wf)
    if run2['error'] or run2['pre'] is None:
        return problems + [dict(base, clause='crash', restart=_brief(run2))], dict(evaluated=True, starts=2)
    for ident, (status, num) in sorted(orphans.items()):
        got = run2['pre']['pool'].get(ident)
        if got is None or got[0] not in ('submitted', 'running') or got[1] != num:
            problems.append(dict(base, clause='N3', instance=ident, at_request=(status, num), restored_as=got,
                                 demanded='active (submitted / running) with the same submit number'))
        again = [f'{kk}:{i}#{n}' for kk, i, n, _ in run2['subs'] if i == ident]
        if again:
            problems.append(dict(base, clause='N3', instance=ident, submitted_again_after_restart=again))
    if not _auto(run2):
        problems.append(dict(base, clause='N3', demanded='the restart runs to completion', observed=_brief(run2)))
    else:
        extra = []
        _once_and_succeeded(wf, [run, run2], None, extra, 'N3', ref)
        problems.extend(dict(base, **e) for e in extra)
    return problems, dict(evaluated=True, starts=2, had_active=bool(orphans))


# --------------------------------------------------------------------------------------------------------------

def kf_queued_beyond_stop_point(witness, res):
    """finding: TaskPool.set_stop_point puts the waiting instances beyond the new stop point back under the
    runahead limit but leaves those already queued in the queue, so release_queued_tasks still submits them
    (only clause P1 fails, and only with an instance beyond P observed queued at the request)"""
    problems = witness.get('problems', [])
    return bool(problems) and all(p.get('clause') == 'P1' and p.get('queued_beyond_stop_point_at_request')
                                  for p in problems)


def kf_failed_stop_task_stops(witness, res):
    """finding: TaskPool.remove_if_complete sets stop_task_finished for any final status, so a FAILED stop task
    shuts the workflow down ("stop after the task has succeeded" in `cylc stop --help`)"""
    problems = witness.get('problems', [])
    return bool(problems) and all(p.get('clause') == 'T1' and p.get('stop_task_job') == 'fails' for p in problems)


GROUPS = ('stop point', 'stop point, queued', 'stop task', 'stop task, failing', 'clean stop', 'stop now')

NAMES = {
    'stop point': 'bounded::with a stop cycle point nothing beyond it is submitted unless manually triggered, the '
                  'workflow shuts down exactly when everything up to it has run, the point survives a restart '
                  'until reached and is forgotten afterwards',
    'stop point, queued': 'bounded::instances beyond a newly requested stop cycle point that are already queued at '
                          'the request (limited internal queue, or queued at start-up) are not submitted after it',
    'stop task': 'bounded::with a stop task the workflow shuts down after that task succeeded, not before and not '
                 'later than two main loop iterations',
    'stop task, failing': 'bounded::a stop task whose job fails does not make the workflow shut down (it stops '
                          'after the task SUCCEEDS)',
    'clean stop': 'bounded::a clean stop submits nothing new and shuts down when the active jobs have finished',
    'stop now': 'bounded::stop --now (and --now --now) shuts down at once with the active jobs left active, and a '
                'restart restores them with the same submit number and completes the graph',
}


def _scenarios(tier, seed, refs):
    """the box, per group: list of (label dict, callable(env, wid) -> (problems, info))"""
    rnd = random.Random(seed)
    quick = tier == 'quick'
    out = {g: [] for g in GROUPS}

    def add(group, label, fn):
        out[group].append((label, fn))

    for wf in WORKFLOWS:
        info = refs[wf['name']]
        n_it, ref, F = info['iters'], info['ref'], wf['final']
        ks = list(range(0, max(1, n_it - 1)))
        group = 'stop point, queued' if wf['qlimit'] else 'stop point'
        # stop point by command: every iteration x every point below the final point
        for k in ks:
            for P in range(1, F):
                gap = None if wf['qlimit'] else 1 + (k + P) % 3
                front = max([_point(i) for i, kk in info['sub_iter'].items() if kk < k] or [0])
                add(group, dict(workflow=wf['name'], how='cmd', k=k, P=P, restart_after=gap,
                                front_at_request=front),
                    lambda env, wid, wf=wf, ref=ref, k=k, P=P, gap=gap:
                    sc_stop_point(env, wid, wf, ref, 'cmd', k, P, gap))
        if not wf['qlimit']:
            # from the start: configuration item and --stopcp, first run stopped after `gap` iterations
            for how in ('config', 'opt'):
                for P in range(1, F):
                    for gap in (2, 5, None):
                        add(group, dict(workflow=wf['name'], how=how, P=P, restart_after=gap),
                            lambda env, wid, wf=wf, ref=ref, how=how, P=P, gap=gap:
                            sc_stop_point(env, wid, wf, ref, how, 0, P, gap))
            # a manual trigger beyond the stop point, right after the request
            last_task = list(wf['durs'])[-1]
            for k in ks[::2]:
                for P in (1, F - 2):
                    cand = [p for p in range(P + 1, F + 1) if info['sub_iter'].get(f'{p}/{last_task}', -1) > k + 1]
                    if cand:
                        trig = f'{cand[-1]}/{last_task}'
                        add(group, dict(workflow=wf['name'], how='cmd+trigger', k=k, P=P, trigger=trig),
                            lambda env, wid, wf=wf, ref=ref, k=k, P=P, trig=trig:
                            sc_stop_point(env, wid, wf, ref, 'cmd', k, P, None, trigger=trig))
            # a second request replaces the first
            for k in ks[:-2:2]:
                for P, P2 in ((1, 3), (3, 1), (2, 4), (4, 2)):
                    if P < F and P2 < F:
                        add(group, dict(workflow=wf['name'], how='cmd twice', k=k, P=P, k2=k + 2, P2=P2),
                            lambda env, wid, wf=wf, ref=ref, k=k, P=P, P2=P2:
                            sc_stop_point(env, wid, wf, ref, 'cmd', k, P, None, second=(k + 2, P2)))
        # stop task: requests made after T succeeded in the reference run make no demand, left out
        names = list(wf['durs'])
        targets = [f'{p}/{t}' for p in (2, 3, F) for t in (names[0], names[-1])]
        for k in ks:
            for T in targets:
                if k <= info['succ_iter'].get(T, -1):
                    add('stop task', dict(workflow=wf['name'], k=k, stop_task=T),
                        lambda env, wid, wf=wf, k=k, T=T: sc_stop_task(env, wid, wf, k, T))
                    if T.startswith('2/') and k % 2 == 0:
                        add('stop task, failing', dict(workflow=wf['name'], k=k, stop_task=T, job='fails'),
                            lambda env, wid, wf=wf, k=k, T=T, n_it=n_it:
                            sc_stop_task_fails(env, wid, wf, k, T, n_it + 4))
        for k in ks:
            add('clean stop', dict(workflow=wf['name'], k=k, busy=k in info['busy']),
                lambda env, wid, wf=wf, k=k: sc_clean(env, wid, wf, k))
            for kind in ('now', 'nownow'):
                add('stop now', dict(workflow=wf['name'], k=k, stop=kind, busy=k in info['busy']),
                    lambda env, wid, wf=wf, ref=ref, k=k, kind=kind: sc_now(env, wid, wf, ref, k, kind))
    full = {g: len(v) for g, v in out.items()}
    if quick:
        take = {'stop point': 14, 'stop point, queued': 4, 'stop task': 8, 'stop task, failing': 3,
                'clean stop': 6, 'stop now': 6}
    else:
        take = {'stop point': 170, 'stop point, queued': 10 ** 6, 'stop task': 150,
                'stop task, failing': 10 ** 6, 'clean stop': 10 ** 6, 'stop now': 10 ** 6}
    share = {'cmd': 0.5, 'config': 0.1, 'opt': 0.15, 'cmd+trigger': 0.1, 'cmd twice': 0.15}
    for g in GROUPS:
        items = out[g]
        if len(items) > take[g]:
            if g == 'stop point':
                # every way of giving the point is in the sample
                by = {}
                for item in items:
                    by.setdefault(item[0]['how'], []).append(item)
                picked = []
                for how in sorted(by):
                    n = min(len(by[how]), max(1, round(take[g] * share.get(how, 0.1))))
                    if how == 'cmd':
                        # three quarters with P just before, at or just after the front of the run at the request
                        near = [x for x in by[how] if abs(x[0]['P'] - x[0]['front_at_request']) <= 1]
                        far = [x for x in by[how] if abs(x[0]['P'] - x[0]['front_at_request']) > 1]
                        n_near = min(len(near), (3 * n + 3) // 4)
                        picked += rnd.sample(near, n_near) + rnd.sample(far, min(len(far), n - n_near))
                    else:
                        picked += rnd.sample(by[how], n)
                items = picked
            elif g in ('clean stop', 'stop now'):
                # three quarters of the sample with jobs active at the request
                busy = [item for item in items if item[0]['busy']]
                idle = [item for item in items if not item[0]['busy']]
                n_busy = min(len(busy), (3 * take[g] + 3) // 4)
                items = rnd.sample(busy, n_busy) + rnd.sample(idle, min(len(idle), take[g] - n_busy))
            else:
                items = rnd.sample(items, take[g])
        out[g] = items
    return out, full


def check(tier='quick', seed=0):
    t0 = time.time()
    budget = 72.0 if tier == 'quick' else 780.0
    results = {g: dict(evals=0, distinct=set(), bad=[], samples=[], skipped=0, intended=0, cut=False,
                       with_active=0, restarted=0) for g in GROUPS}
    harness_trouble = []
    starts = 0
    full = {}
    try:
        with _Env() as env:
            refs = {}
            for n, wf in enumerate(WORKFLOWS):
                problems, info = sc_reference(env, f'ref{n}', wf)
                starts += 1
                shutil.rmtree(os.path.join(env.run_dir, f'ref{n}'), ignore_errors=True)
                if problems:
                    harness_trouble.append(dict(workflow=wf['name'], reference_run=problems))
                refs[wf['name']] = info
            if not harness_trouble:
                plan, full = _scenarios(tier, seed, refs)
                for g in GROUPS:
                    results[g]['intended'] = len(plan[g])
                # round robin over the groups so that a time cut-off leaves every group explored
                order = []
                longest = max(len(plan[g]) for g in GROUPS)
                for idx in range(longest):
                    for g in GROUPS:
                        if idx < len(plan[g]):
                            order.append((g, plan[g][idx]))
                for n, (g, (label, fn)) in enumerate(order):
                    res = results[g]
                    if time.time() - t0 > budget:
                        res['cut'] = True
                        continue
                    wid = f's{n}'
                    try:
                        problems, info = fn(env, wid)
                    except Exception as exc:            # harness defect, not a verdict
                        harness_trouble.append(dict(scenario=label, error=f'{type(exc).__name__}: {exc}'))
                        continue
                    finally:
                        shutil.rmtree(os.path.join(env.run_dir, wid), ignore_errors=True)
                    starts += info.get('starts', 0)
                    if not info['evaluated']:
                        res['skipped'] += 1
                        continue
                    if g == 'stop point' and info.get('queued_beyond'):
                        res['moved'] = res.get('moved', 0) + 1      # evaluated, reported in the other group
                        res = results['stop point, queued']
                    res['races'] = res.get('races', 0) + bool(info.get('trigger_race'))
                    res['evals'] += 1
                    res['distinct'].add(str(sorted(label.items(), key=str)))
                    res['with_active'] += bool(info.get('had_active'))
                    res['restarted'] += bool(info.get('restarted'))
                    if problems and len(res['bad']) < 12:
                        res['bad'].append(dict(scenario=label, problems=problems[:4]))
                    elif not problems and len(res['samples']) < 3:
                        res['samples'].append(label)
                    res['nbad'] = res.get('nbad', 0) + bool(problems)
    except Exception as exc:
        harness_trouble.append(dict(error=f'{type(exc).__name__}: {exc}'))

    wfs = '; '.join(f'{w["name"]}: P1 = "{" & ".join(x.strip() for x in w["graph"].splitlines())}", points 1..'
                    f'{w["final"]}, runahead {w["runahead"]}, job lengths {w["durs"]} iterations'
                    + (f', default queue limit {w["qlimit"]}' if w['qlimit'] else '') for w in WORKFLOWS)
    scope = {
        'stop point': 'workflows chain, fan, three; `stop --cycle-point P` before every main loop iteration k of the '
                      'reference run x P in 1..F-1, first run stopped 1-3 iterations later and restarted (twice); '
                      'P given by `stop after cycle point` / --stopcp x first run stopped after 2, 5 iterations or '
                      'not; a manual trigger of the last task of a later cycle right after the request; two '
                      'requests 2 iterations apart (P, P2) in (1,3) (3,1) (2,4) (4,2)',
        'stop point, queued': 'workflow queue (default queue limit 1): `stop --cycle-point P` before every '
                              'iteration k x P in 1..F-1, no restart; plus the scenarios of the stop point box of '
                              'the other workflows in which an instance beyond P was observed queued '
                              '(TaskState.is_queued) at the request',
        'stop task': 'all 4 workflows: `stop --task T` before every iteration k x T in first / last task of cycles '
                     '2, 3, F; scenarios where T had already succeeded at the request make no demand and are '
                     'not counted',
        'stop task, failing': 'all 4 workflows with the job of T made to fail (simulation fail cycle points): '
                              '`stop --task T` before every second iteration k up to the failure, T in first / '
                              'last task of cycle 2; observed until 4 iterations after the length of the '
                              'reference run',
        'clean stop': 'all 4 workflows: `stop` before every iteration k',
        'stop now': 'all 4 workflows: `stop --now` and `stop --now --now` before every iteration k, then a restart '
                    'run to completion',
    }
    out = []
    for g in GROUPS:
        res = results[g]
        sampled = full.get(g, 0) > res['intended']
        rule = (f'{scope[g]}.  Workflows: {wfs}.  '
                + (f'Seeded sample (seed {seed}) of {res["intended"]} of the {full.get(g, 0)} scenarios of this box.  '
                   if sampled else f'All {full.get(g, 0)} scenarios of this box.  ')
                + 'Real Scheduler objects in simulation mode, commands issued between two main loop iterations '
                  '(commands.run_cmd), all jobs succeed'
                  + (' except the stop task' if g == 'stop task, failing' else '')
                  + '.  NOT exercised: live jobs, other failing tasks, commands '
                  'arriving inside an iteration, stop --kill, stop at a wall-clock time, stop of one flow, '
                  'date-time cycling, reload, holds, restart of a stop task.')
        entry = dict(name=NAMES[g], kind='bounded', evaluations=res['evals'], distinct=len(res['distinct']),
                     rule=rule, samples=res['samples'][:3], exhaustive=False)
        done = res['evals'] + res['skipped'] + res.get('moved', 0)
        enough = res['intended'] > 0 and done >= 0.6 * res['intended'] and res['evals'] >= 3
        if g in ('clean stop', 'stop now') and res['with_active'] < 2:
            enough = False
        if g == 'stop point' and res['restarted'] < 2:
            enough = False
        notes = (f'{res["evals"]} scenarios evaluated, {res["skipped"]} without demand, '
                 + (f'{res["moved"]} reported under "queued", ' if res.get('moved') else '')
                 + (f'{res["races"]} manual triggers arriving when the shutdown was already due (no demand on the '
                    'trigger), ' if res.get('races') else '')
                 + f'{res["with_active"]} with active jobs at the request, {res["restarted"]} restarted before the '
                 f'stop point; {starts} scheduler starts in {time.time() - t0:.0f}s'
                 + ('; time budget cut the plan short' if res['cut'] else ''))
        if res['bad']:
            entry.update(verdict='refuted', witness=res['bad'][:12],
                         detail=f'{res.get("nbad", len(res["bad"]))} scenarios break a clause; ' + notes)
        elif harness_trouble or not enough:
            entry.update(verdict='unknown', witness=harness_trouble[:6],
                         detail='harness could not run / explored too little; ' + notes)
        else:
            entry.update(verdict='proved', detail=notes,
                         exhaustive=bool(not sampled and not res['cut'] and res['intended'] == full.get(g)))
        out.append(entry)
    return out
