"""C47 - bounded companion for platform_from_name (name patterns are regular expressions rewritten by
re.sub: outside the verifier's subset; the deductive contracts of c47_platforms cover host and group
selection).  BOUNDED, not a proof.

Contract checked at run time on the REAL platform_from_name:

    alternatives(P) := P split at the commas that are not inside a {m,n} repetition, blanks stripped
    matches(P, name) := some alternative A of P has re.fullmatch('(?:A)', name)
    platform_from_name(name, platforms) returns a copy of platforms[P] for the LAST-defined P with
    matches(P, name), with 'name' == name and 'hosts' == the definition's hosts or [name] if it has none,
    and raises PlatformLookupError exactly when no P matches; `platforms` itself is left unchanged."""
import itertools
import re
from copy import deepcopy

PATTERNS = [r'hpc\d', r'hpc\d, vis\d', 'hpc1-bg', r'vld\d{2,3}', 'a|ab', 'ab, a', 'x.*', 'x{1,2}y , z', 'foo',
            r'vis\d,hpc\d\d', r'(a|b)c, d']
NAMES = ['hpc1', 'hpc1-bg', 'hpc12', 'vis2', 'vis22', 'vld12', 'vld1234', 'a', 'ab', 'abc', 'ac', 'bc', 'd', 'xy',
         'xxy', 'xxxy', 'z', 'foo', 'foo2', 'localhost', 'x1,2y', 'hpc1, vis1']


def _alternatives(pattern):
    out, depth, cur = [], 0, ''
    for ch in pattern:
        if ch == '{':
            depth += 1
        elif ch == '}':
            depth = max(0, depth - 1)
        if ch == ',' and depth == 0:
            out.append(cur.strip())
            cur = ''
        else:
            cur += ch
    out.append(cur.strip())
    return out


def _matches(pattern, name):
    return any(re.fullmatch('(?:%s)' % alt, name) for alt in _alternatives(pattern))


_GROUP_CONF = '''
[platforms]
    [[alpha]]
        hosts = a1
    [[beta]]
        hosts = b1, b2
        job runner = slurm
    [[al.*]]
        hosts = x1, x2
        job runner = slurm
    [[gamma, delta]]
        hosts = g1
[platform groups]
    [[grp]]
        platforms = alpha, beta, delta
        [[[selection]]]
            method = definition order
    [[grp_random]]
        platforms = alpha, beta
        [[[selection]]]
            method = random
'''
_GROUP_HOSTS = ['a1', 'b1', 'b2', 'x1', 'x2', 'g1']


def check_group(tier='quick', seed=0):
    """get_platform_from_group against the hosts that platform_from_name resolves each member to (a member
    named `alpha` resolves to the later-defined pattern `al.*`, not to the literal section)."""
    import os
    import sys
    import tempfile
    import shutil
    from cylc.flow.cfgspec.glbl_cfg import glbl_cfg
    from cylc.flow.platforms import get_platform_from_group, platform_from_name
    from cylc.flow.exceptions import NoPlatformsError
    d = tempfile.mkdtemp(prefix='c47b_conf_', dir='/var/tmp')
    old = os.environ.get('CYLC_CONF_PATH')
    n_eval, bad, samples = 0, [], []
    try:
        with open(os.path.join(d, 'global.cylc'), 'w') as f:
            f.write(_GROUP_CONF)
        os.environ['CYLC_CONF_PATH'] = d
        cfg = glbl_cfg(reload=True)
        groups = cfg.get(['platform groups'])
        for gname in ('grp', 'grp_random'):
            members = list(groups[gname]['platforms'])
            hosts_of = {m: list(platform_from_name(m)['hosts']) for m in members}
            for r in range(0, len(_GROUP_HOSTS) + 1):
                for c in itertools.combinations(_GROUP_HOSTS, r):
                    bad_hosts = set(c)
                    usable = [m for m in members if not bad_hosts.issuperset(hosts_of[m])]
                    for _ in range(1 if gname == 'grp' else 4):
                        n_eval += 1
                        try:
                            got = get_platform_from_group(groups[gname], gname, set(bad_hosts))
                            err = None
                        except NoPlatformsError as exc:
                            got, err = None, exc
                        if usable:
                            ok = got in usable and (gname != 'grp' or got == usable[0])
                        else:
                            want_consumed = {h for m in members for h in hosts_of[m]}
                            ok = err is not None and set(err.bad_hosts) == want_consumed
                        if not ok and len(bad) < 8:
                            bad.append(dict(group=gname, members=members, resolved_hosts=hosts_of,
                                            bad_hosts=sorted(bad_hosts), got=got,
                                            error=repr(err) if err else None, usable=usable))
            if len(samples) < 2:
                samples.append(dict(group=gname, members=members, resolved_hosts=hosts_of))
    finally:
        if old is None:
            os.environ.pop('CYLC_CONF_PATH', None)
        else:
            os.environ['CYLC_CONF_PATH'] = old
        glbl_cfg(reload=True)
        rep = sys.modules.get('contracts.c47_replay')
        if rep is not None:
            rep._state.pop('dir', None)
        shutil.rmtree(d, ignore_errors=True)
    name = ('bounded::selecting from a group never returns a member whose resolved hosts are all unreachable '
            'while another member is usable; NoPlatformsError (with all hosts) exactly when none is')
    rule = ('private global.cylc: 4 platform sections (a literal `alpha` overridden by the later pattern `al.*`, a '
            'comma-list section), 2 groups (definition order, random x 4 draws) x all 64 subsets of 6 hosts as '
            'unreachable; member hosts as resolved by platform_from_name; exhaustive inside that box')
    base_d = dict(name=name, kind='bounded', evaluations=n_eval, distinct=n_eval, rule=rule, samples=samples,
                  exhaustive=True)
    if bad:
        return [dict(base_d, verdict='refuted', witness=bad, detail=f'{len(bad)} disagreements')]
    return [dict(base_d, verdict='proved', detail=f'{n_eval} selections')]


def check(tier='quick', seed=0):
    from cylc.flow.platforms import platform_from_name
    from cylc.flow.exceptions import PlatformLookupError
    n_eval, bad, samples, distinct = 0, [], [], set()
    kmax = 3 if tier == 'quick' else 4
    for k in range(0, kmax + 1):
        for pats in itertools.permutations(PATTERNS, k):
            platforms = {'localhost': {'hosts': ['localhost'], 'tag': -1}}
            for i, p in enumerate(pats):
                platforms[p] = {'hosts': [] if i % 2 else ['h%d' % i], 'tag': i}
            before = deepcopy(platforms)
            for name in NAMES:
                n_eval += 1
                want = None
                for p in platforms:          # last defined wins
                    if _matches(p, name):
                        want = p
                try:
                    got = platform_from_name(name, platforms)
                    err = None
                except PlatformLookupError as exc:
                    got, err = None, str(exc)
                distinct.add((pats, name, want))
                ok = True
                if want is None:
                    ok = got is None
                else:
                    exp_hosts = platforms[want]['hosts'] or [name]
                    ok = (got is not None and got.get('tag') == platforms[want]['tag']
                          and got.get('name') == name and got.get('hosts') == exp_hosts)
                if platforms != before:
                    ok = False
                if not ok and len(bad) < 12:
                    bad.append(dict(defined_in_order=list(platforms), name=name, expected_pattern=want,
                                    got=(dict(got) if got is not None else None), error=err,
                                    definitions_changed=platforms != before))
                if len(samples) < 3 and k == kmax and want not in (None, 'localhost'):
                    samples.append(dict(defined_in_order=list(platforms), name=name, resolved_to=want))
    name = ('bounded::a platform name resolves to the last-defined platform one of whose comma-separated name '
            'patterns fully matches it; error exactly when none does')
    rule = (f'every ordered selection of <= {kmax} of {len(PATTERNS)} name patterns (single regexes, comma lists '
            'with and without blanks, top-level "|", {m,n} repetitions, prefixes of one another) after localhost x '
            f'{len(NAMES)} looked-up names; exhaustive inside that box; no platform groups, no bad hosts; '
            'distinct = distinct (definitions, name, expected)')
    base_d = dict(name=name, kind='bounded', evaluations=n_eval, distinct=len(distinct), rule=rule, samples=samples,
                  exhaustive=True)
    if bad:
        return [dict(base_d, verdict='refuted', witness=bad, detail=f'{len(bad)} disagreements')]
    return [dict(base_d, verdict='proved', detail=f'{n_eval} lookups')]
