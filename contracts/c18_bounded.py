"""C18 - bounded companion for DATETIME points (the deductive contracts of c18_points prove the shared
PointBase / IntervalBase plumbing and the integer classes; ISO8601Point delegates to metomi.isodatetime
behind string-keyed caches, which the verifier cannot see into).  BOUNDED, not a proof.

Contract checked at run time on the REAL ISO8601Point / ISO8601Interval, with an independent instant
oracle (day count per calendar mode written here, no isodatetime):

    inst(p) := seconds since 0000-01-01T00:00Z of the point's components in the active calendar
    (p < q) == (inst(p) < inst(q)), likewise ==, >;  equal standardised points have equal values and hashes
    standardise() is idempotent and inst(standardise(p)) == inst(p)
    inst(p + I) == inst(p) + len(I) and (p + I) - I == p for the fixed-length intervals I

over the calendars visited IN ONE PROCESS, one after the other and back again (the comparison and
arithmetic caches are keyed by strings; what a string means depends on the mode)."""
import re

MONTH_DAYS = {
    'gregorian': None,
    '360day': [30] * 12,
    '365day': [31, 28, 31, 30, 31, 30, 31, 31, 30, 31, 30, 31],
    '366day': [31, 29, 31, 30, 31, 30, 31, 31, 30, 31, 30, 31],
}
ZONES = {'Z': 0, '+0100': 3600, '-0100': -3600, '+0530': 19800}
INTERVALS = {'PT1H': 3600, 'PT90M': 5400, 'P1D': 86400, 'PT36H': 129600, 'P1W': 604800, 'PT1M': 60}


def _leap(y):
    return y % 4 == 0 and (y % 100 != 0 or y % 400 == 0)


def _mdays(calendar, y):
    md = MONTH_DAYS[calendar]
    if md is None:
        md = [31, 29 if _leap(y) else 28, 31, 30, 31, 30, 31, 31, 30, 31, 30, 31]
    return md


def _days_before_year(calendar, y):
    if calendar == 'gregorian':
        return 365 * y + (y - 1) // 4 - (y - 1) // 100 + (y - 1) // 400
    return {'360day': 360, '365day': 365, '366day': 366}[calendar] * y


def inst(calendar, comp):
    y, mo, d, hh, mm, off = comp
    md = _mdays(calendar, y)
    days = _days_before_year(calendar, y) + sum(md[:mo - 1]) + d - 1
    return days * 86400 + hh * 3600 + mm * 60 - off


def valid(calendar, comp):
    y, mo, d = comp[:3]
    return 1 <= d <= _mdays(calendar, y)[mo - 1]


def text(comp, expanded, zone):
    y, mo, d, hh, mm, _ = comp
    ys = ('%+07d' % y) if expanded else ('%04d' % y)
    return f'{ys}{mo:02d}{d:02d}T{hh:02d}{mm:02d}{zone}'


_STD = re.compile(r'^([+-]\d{6}|\d{4})(\d\d)(\d\d)T(\d\d)(\d\d)(Z|[+-]\d{4}|[+-]\d\d)$')


def parse_std(s):
    m = _STD.match(s)
    if not m:
        return None
    z = m.group(6)
    if z == 'Z':
        off = 0
    else:
        sign = -1 if z[0] == '-' else 1
        off = sign * (int(z[1:3]) * 3600 + (int(z[3:5]) * 60 if len(z) == 5 else 0))
    return (int(m.group(1)), int(m.group(2)), int(m.group(3)), int(m.group(4)), int(m.group(5)), off)


def _points(expanded, tier):
    years = [-1, 0, 1999, 2000] if expanded else [1999, 2000, 2001]
    if expanded and tier != 'quick':
        years += [-4, 12000]
    mds = [(1, 1), (2, 28), (2, 29), (2, 30), (3, 1), (12, 30), (12, 31)]
    times = [(0, 0), (23, 30)] if tier == 'quick' else [(0, 0), (0, 30), (23, 30)]
    out = []
    for y in years:
        for mo, d in mds:
            for hh, mm in times:
                for zone, off in ZONES.items():
                    out.append(((y, mo, d, hh, mm, off), zone))
    return out


def check(tier='quick', seed=0):
    from cylc.flow.cycling import iso8601
    from cylc.flow.cycling.iso8601 import ISO8601Point, ISO8601Interval
    from metomi.isodatetime.data import Calendar
    visits = ['gregorian', '360day', '365day', '366day', 'gregorian', '360day']
    wf_zones = ['Z'] if tier == 'quick' else ['Z', '+0530']
    n_eval, bad, samples, distinct = 0, [], [], set()

    def fail(mode, **kw):
        if len(bad) < 12:
            bad.append(dict(mode, **kw))
    try:
        # phase 'switch': few points around the end of February, so that everything asked in one calendar
        # is still in the (10 000-entry LRU) caches when the next calendar asks the same strings;
        # phase 'full': the whole box
        for phase, expanded, wf_zone in [('switch', e, z) for e in (0, 2) for z in wf_zones] + \
                                        [('full', e, z) for e in (0, 2) for z in wf_zones]:
            if True:
                for visit, calendar in enumerate(visits):
                    iso8601.init(num_expanded_year_digits=expanded, time_zone=wf_zone, cycling_mode=calendar)
                    mode = dict(calendar=calendar, visit=visit, cycle_point_time_zone=wf_zone,
                                expanded_year_digits=expanded, phase=phase)
                    pts = []
                    for comp, zone in _points(expanded, tier):
                        if not valid(calendar, comp):
                            continue
                        if phase == 'switch' and not (comp[0] == 2000 and comp[1] in (2, 3)):
                            continue
                        s = text(comp, expanded, zone)
                        i = inst(calendar, comp)
                        raw = ISO8601Point(s)
                        std = ISO8601Point(s).standardise()
                        n_eval += 1
                        back = parse_std(std.value)
                        if back is None or not valid(calendar, back) or inst(calendar, back) != i:
                            fail(mode, clause='standardise preserves the instant', point=s, standardised=std.value)
                        again = ISO8601Point(std.value).standardise().value
                        if again != std.value:
                            fail(mode, clause='standardise is idempotent', point=s, once=std.value, twice=again)
                        pts.append((s, i, raw, std))
                        # fixed-length intervals: add, then subtract
                        for itext, length in INTERVALS.items():
                            ivl = ISO8601Interval(itext)
                            n_eval += 1
                            plus = std + ivl
                            pb = parse_std(ISO8601Point(plus.value).standardise().value)
                            if pb is None or not valid(calendar, pb) or inst(calendar, pb) != i + length:
                                fail(mode, clause='p + I is len(I) later', point=std.value, interval=itext,
                                     got=plus.value)
                            rt = plus - ivl
                            if not (rt == std) or ISO8601Point(rt.value).standardise().value != std.value:
                                fail(mode, clause='(p + I) - I == p', point=std.value, interval=itext,
                                     got=rt.value)
                            distinct.add((calendar, std.value, itext))
                    if tier == 'quick':
                        # all pairs among a stride of the points (all pairs in the thorough tier)
                        pairs_of = pts[::1]
                    else:
                        pairs_of = pts
                    for a in range(len(pairs_of)):
                        sa, ia, ra, ta = pairs_of[a]
                        for b in range(len(pairs_of)):
                            sb, ib, rb, tb = pairs_of[b]
                            n_eval += 1
                            want = (ia > ib) - (ia < ib)
                            for kind, x, y in (('as written', ra, rb), ('standardised', ta, tb)):
                                got = (x > y) - (x < y)
                                if got != want or (x == y) != (want == 0):
                                    fail(mode, clause='order agrees with the instants', form=kind, left=x.value,
                                         right=y.value, got=got, eq=(x == y), expected=want)
                            if want == 0 and (ta.value != tb.value or hash(ta) != hash(tb)):
                                fail(mode, clause='equal standardised points have equal value and hash',
                                     left=ta.value, right=tb.value)
                    if len(samples) < 3 and pts:
                        samples.append(dict(mode, point=pts[len(pts) // 2][0],
                                            standardised=pts[len(pts) // 2][3].value))
    finally:
        Calendar.default().set_mode('gregorian')
        iso8601.init(time_zone='Z')
    name = ('bounded::datetime points: order, equality and hash agree with the instant; standardise is idempotent '
            'and value-preserving; adding then subtracting a fixed-length interval is the identity')
    rule = (f'calendars visited in one process in the order {visits}; cycle point time zones {wf_zones}; 0 and 2 '
            'expanded year digits (years -1, 0, 1999, 2000[, -4, 12000] / 1999-2001) x month-days 0101 0228 0229 '
            '0230 0301 1230 1231 (those valid in the calendar) x 2-3 times of day x zones Z +0100 -0100 +0530; '
            f'all ordered pairs; intervals {sorted(INTERVALS)}; exhaustive inside that box; independent day-count '
            'oracle; distinct = distinct (calendar, point, interval)')
    base_d = dict(name=name, kind='bounded', evaluations=n_eval, distinct=len(distinct), rule=rule, samples=samples,
                  exhaustive=True)
    if bad:
        return [dict(base_d, verdict='refuted', witness=bad, detail=f'{len(bad)} disagreements')]
    return [dict(base_d, verdict='proved', detail=f'{n_eval} evaluations')]
