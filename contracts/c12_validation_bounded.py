"""C12, second sentence - "validation accepts a user completion expression only if it is consistent with the
optionality declared in the graph".  BOUNDED stand-in, not a proof.

WorkflowConfig._check_completion_expression compares, per output, what the graph declares (required /
optional `?` / not mentioned) with the classification of the expression (required / optional / not
referenced).  The consistency table is the documented one (comment in the function, user guide):

    graph      expression    accepted
    optional   optional      yes
    optional   required      no
    optional   unreferenced  no for submit-failed and expired, yes otherwise
    required   optional      no, except submit-failed and expired
    required   required      yes
    required   unreferenced  no
    -          anything      yes            (failed counts as optional in the graph if succeeded is optional)

Checked at run time on the REAL method (bare WorkflowConfig, real get_optional_outputs underneath) for every
graph declaration and expression of the box; the classification of the expression is recomputed by the
independent tree evaluator of c12_bounded, not taken from the code."""
import itertools
from types import SimpleNamespace

from contracts.c12_bounded import VARS, TRIGGERS, MESSAGES, _shapes, _text, _truth

GRAPH_VARS = ['succeeded', 'failed', 'x', 'submit_failed', 'expired']
EXEMPT = ('submit_failed', 'expired')


def _classify(tree, leaves):
    out = {}
    for v in VARS:
        if v not in leaves:
            out[v] = None
            continue
        val = {u: (u != v and u not in EXEMPT) for u in VARS}
        out[v] = bool(_truth(tree, leaves, val))       # True = optional, False = required
    return out


def _consistent(graph, expr_opt):
    g = dict(graph)
    if g.get('succeeded') is True and g.get('failed') is None:
        g['failed'] = True
    for v in set(g) | set(expr_opt):
        go, eo = g.get(v), expr_opt.get(v)
        if go is True and eo is False:
            return False, v
        if go is False and eo is None:
            return False, v
        if go is True and eo is None and v in EXEMPT:
            return False, v
        if go is False and eo is True and v not in EXEMPT:
            return False, v
    return True, None


def check(tier='quick', seed=0):
    from cylc.flow.config import WorkflowConfig
    from cylc.flow.exceptions import WorkflowConfigError
    import cylc.flow.flags
    nmax = 2 if tier == 'quick' else 3
    exprs = []
    for n in range(1, nmax + 1):
        for tree in _shapes(n):
            for leaves in itertools.permutations(VARS, n):
                exprs.append((tree, leaves))
    n_eval, bad, samples, n_acc, n_rej = 0, [], [], 0, 0
    old_compat = cylc.flow.flags.cylc7_back_compat
    cylc.flow.flags.cylc7_back_compat = False
    try:
        for decl in itertools.product((True, False, None), repeat=len(GRAPH_VARS)):
            graph = dict(zip(GRAPH_VARS, decl))          # True = optional in the graph
            outputs = {}
            for v in ['expired', 'submitted', 'submit_failed', 'started', 'succeeded', 'failed', 'x', 'y']:
                opt = graph.get(v)
                outputs[TRIGGERS.get(v, v)] = (MESSAGES.get(v, v), None if opt is None else not opt)
            cfg = WorkflowConfig.__new__(WorkflowConfig)
            cfg.taskdefs = {'t': SimpleNamespace(outputs=outputs)}
            cfg.experimental = SimpleNamespace(expire_triggers=False)
            for tree, leaves in exprs:
                expr = _text(tree, leaves)
                n_eval += 1
                want, why = _consistent(graph, _classify(tree, leaves))
                try:
                    cfg._check_completion_expression('t', expr, False)
                    got = True
                except WorkflowConfigError as exc:
                    got, msg = False, str(exc)
                n_acc += got
                n_rej += (not got)
                if got != want and len(bad) < 8:
                    bad.append(dict(graph_optional={k: v for k, v in graph.items() if v is not None},
                                    completion=expr, accepted=got, consistent=want, inconsistent_output=why,
                                    error=None if got else msg[:160]))
                if len(samples) < 3 and not got and want is False and len(leaves) == nmax:
                    samples.append(dict(graph_optional={k: v for k, v in graph.items() if v is not None},
                                        completion=expr, accepted=False))
    finally:
        cylc.flow.flags.cylc7_back_compat = old_compat
    name = ('bounded::a user completion expression is accepted by validation exactly when it is consistent with '
            'the optionality declared in the graph (documented table)')
    rule = (f'every declaration required / optional / not mentioned of {GRAPH_VARS} in the graph (243) x every '
            f'and/or expression with <= {nmax} distinct leaves from {VARS} ({len(exprs)}); the real '
            '_check_completion_expression on a bare WorkflowConfig; exhaustive inside that box; '
            f'{n_acc} accepted, {n_rej} rejected')
    base = dict(name=name, kind='bounded', evaluations=n_eval, distinct=n_eval, rule=rule, samples=samples,
                exhaustive=True)
    if n_acc == 0 or n_rej == 0:
        return [dict(base, verdict='unknown', detail=f'accepted {n_acc}, rejected {n_rej}: one side never seen')]
    if bad:
        return [dict(base, verdict='refuted', witness=bad, detail=f'{len(bad)} (graph, expression) pairs')]
    return [dict(base, verdict='proved', detail=f'{n_eval} (graph, expression) pairs')]
