"""C23 — universal identifiers round-trip.  BOUNDED stand-in, not a proof.

tokenise / legacy_tokenise are regular expressions with named groups and look-arounds
(UNIVERSAL_ID, RELATIVE_ID, LEGACY_*), detokenise is string assembly: no SMT theory here gives these
regexes a usable semantics (DESIGN 1).  The contracts

  (1) for valid tokens T (prefix-closed: a lower token only with the ones above it, a selector only
      with its token):   tokenise(detokenise(T, selectors=True)) == canonical(T)
      where canonical pads the job number to two digits
  (2) for S = detokenise(T):  detokenise(tokenise(S), selectors=True) == S      (canonical strings)
  (3) relative and absolute forms agree on cycle / task / job
  (4) legacy task.cycle and cycle/task identifiers upgrade to the same tokens as cycle/task

are checked at run time on the REAL functions for every token assignment over a small vocabulary."""
import itertools

USERS = [None, 'me']
WORKFLOWS = [None, 'wf', 'a/b/run1', 'w-1.x']
CYCLES = [None, '1', '20200101T0000Z', '*', '2020*']
TASKS = [None, 'foo', 'foo_bar-1', '*', 'f*']
JOBS = [None, '1', '01', '12', 'NN']
SELS = [None, 'failed']


def _token_sets(tier):
    from cylc.flow.id import Tokens
    sels = SELS
    for user, wf, cyc, task, job in itertools.product(USERS, WORKFLOWS, CYCLES, TASKS, JOBS):
        # prefix-closed
        if user and not wf:
            continue
        if task and not cyc:
            continue
        if job and not task:
            continue
        if not (wf or cyc):
            continue
        for wsel, csel, tsel, jsel in itertools.product(sels, repeat=4):
            if (wsel and not wf) or (csel and not cyc) or (tsel and not task) or (jsel and not job):
                continue
            if tier == 'quick' and sum(x is not None for x in (wsel, csel, tsel, jsel)) > 1:
                continue
            kw = dict(user=user, workflow=wf, cycle=cyc, task=task, job=job, workflow_sel=wsel,
                      cycle_sel=csel, task_sel=tsel, job_sel=jsel)
            yield Tokens(**{k: v for k, v in kw.items() if v is not None})


def _canonical(tokens):
    t = tokens.duplicate()
    if t.get('job') and t['job'] != 'NN':
        t = t.duplicate(job=f"{int(t['job']):02}")
    return t


def check(tier='quick', seed=0):
    from cylc.flow.id import tokenise, detokenise, upgrade_legacy_ids, Tokens
    n_eval, distinct, bad, samples = 0, set(), [], []

    def fail(**w):
        if len(bad) < 5:
            bad.append(w)

    for tok in _token_sets(tier):
        n_eval += 1
        try:
            s = detokenise(tok, selectors=True)
            distinct.add(s)
            back = tokenise(s)
            if back != _canonical(tok) or hash(back) != hash(_canonical(tok)):
                fail(clause=1, tokens=dict(tok), string=s, reparsed=dict(back))
            s2 = detokenise(back, selectors=True)
            if s2 != s:
                fail(clause=2, string=s, reformatted=s2)
            if tok.get('cycle'):
                rel = detokenise(tok.task, selectors=True, relative=True)
                rtok = tokenise(rel, relative=True)
                for k in ('cycle', 'task', 'job', 'cycle_sel', 'task_sel', 'job_sel'):
                    if rtok.get(k) != _canonical(tok).get(k):
                        fail(clause=3, tokens=dict(tok), relative=rel, reparsed=dict(rtok), key=k)
                        break
            if len(samples) < 3 and tok.get('job') and tok.get('user'):
                samples.append(dict(tokens=dict(tok), string=s))
        except Exception as ex:     # noqa: BLE001
            fail(clause='raised', tokens=dict(tok), error=repr(ex))
    # legacy forms
    for cyc, task in itertools.product(['1', '20200101T0000Z', '123'], ['foo', 'foo_bar-1', 'model.v2', 'a.b.c']):
        for state in (None, 'failed'):
            n_eval += 1
            want = Tokens(cycle=cyc, task=task, **({'task_sel': state} if state else {}))
            for legacy in (f'{task}.{cyc}' + (f':{state}' if state else ''),
                           f'{cyc}/{task}' + (f':{state}' if state else '')):
                try:
                    up = upgrade_legacy_ids('wf', legacy)
                    got = tokenise(up[1], relative=True)
                    distinct.add(up[1])
                    if got != want:
                        fail(clause=4, legacy=legacy, upgraded=up[1], tokens=dict(got), expected=dict(want))
                except Exception as ex:     # noqa: BLE001
                    fail(clause=4, legacy=legacy, error=repr(ex))
                # ... and through the command-line parser: `cylc <cmd> wf <legacy id>` is ONE workflow with a
                # task selection, not two workflows (multi-digit cycles: what the legacy patterns recognise)
                if cyc != '1':
                    from cylc.flow.id_cli import _parse_cli
                    n_eval += 1
                    try:
                        parsed = _parse_cli('wf', legacy)
                        ok = (len(parsed) == 1 and parsed[0]['workflow'] == 'wf' and parsed[0]['cycle'] == cyc
                              and parsed[0]['task'] == task and parsed[0]['task_sel'] == state)
                        if not ok:
                            fail(clause=4, via='_parse_cli', legacy=legacy, parsed=[dict(t) for t in parsed],
                                 expected=dict(workflow='wf', cycle=cyc, task=task, task_sel=state))
                    except Exception as ex:     # noqa: BLE001
                        fail(clause=4, via='_parse_cli', legacy=legacy, error=repr(ex))
    name ='bounded::identifier tokens <-> strings round-trip (clauses 1-4 of contracts/c23_bounded.py)'
    rule = ('every prefix-closed assignment of user/workflow/cycle/task/job (and selectors: at most one in the '
            'quick tier) over a vocabulary of 2/4/5/5/5 values incl. globs, hierarchical workflow names and '
            'un-padded job numbers; distinct = distinct identifier strings produced')
    if bad:
        return [dict(name=name, kind='bounded', verdict='refuted', evaluations=n_eval, witness=bad,
                     distinct=len(distinct), rule=rule, samples=samples, detail='round trip fails')]
    return [dict(name=name, kind='bounded', verdict='proved', evaluations=n_eval, distinct=len(distinct),
                 rule=rule, samples=samples, exhaustive=True, detail=f'{n_eval} token sets')]
