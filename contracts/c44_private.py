"""C44 — private files are owner-only: the two functions that create them, relative to POSIX contracts.

Model (assumed, listed in the evidence): a file created by a library call gets mode `requested & ~umask`;
os.umask(m) sets the process umask and returns the previous one; os.chmod(p, m) sets the mode of p.

  * create_server_keys: every call that creates a key file (zmq.auth.create_certificates, shutil.copyfile -
    the client private key is a byte copy of the server private key) is a SINK with the obligation "the
    process umask is 0o177 here" (so the file has no group / other bit whatever the user's umask), also for
    such calls a later change adds or moves; and the umask found at entry is restored at the end.
  * WorkflowDatabaseManager.on_workflow_start: os.chmod(<the private database path>, 0o600) is executed on
    every path after the private DAO has been created (first start and restart), and nothing after it
    touches that path's mode (copy_pri_to_pub is assumed to write the public path only).

What stays bounded (c44_bounded): that the library calls behave like the model, and the window between
creation and chmod of the database."""
import os
import shutil

import z3

from pyvc.spec import (contract, schema, spec, uninterp, implies, iff, forall, exists, REG)
from pyvc.core import SV
from pyvc.kinds import Kind, INT, STR, BOOL

PROPS = ['C44']
PRIVATE_UMASK = 0o177


def _state(eng):
    """per path: [umask at entry, current umask] as z3 integers; chmod log"""
    d = eng.p.__dict__
    if 'c44_umask' not in d:
        u0 = eng.sym('umask_at_entry', INT).t
        d['c44_umask'] = [u0, u0]
        d['c44_chmod'] = []
    return d


def _os_umask(eng, args, kwargs):
    st = _state(eng)
    old = st['c44_umask'][1]
    st['c44_umask'] = [st['c44_umask'][0], eng.force(args[0]).t]
    return SV(INT, old)


def _creates(label, result):
    def handler(eng, args, kwargs):
        st = _state(eng)
        eng.prove(f'{eng.frame.qualname}::creates-a-key-file[{label}] under umask 0o177',
                  st['c44_umask'][1] == z3.IntVal(PRIVATE_UMASK), line=eng.cur_line)
        return result(eng)
    return handler


def umask_now():
    """ghost: the process umask at this point of the path"""
    return os.umask(os.umask(0))  # native twin (not used symbolically)


def umask_at_entry():
    """ghost: the process umask when the function was entered"""
    raise NotImplementedError


REG.externals[os.umask] = _os_umask
REG.externals[umask_now] = lambda eng, args, kwargs: SV(INT, _state(eng)['c44_umask'][1])
REG.externals[umask_at_entry] = lambda eng, args, kwargs: SV(INT, _state(eng)['c44_umask'][0])
REG.externals[os.makedirs] = lambda eng, args, kwargs: eng.lift(None)   # a directory, not a key file
REG.externals[shutil.copyfile] = _creates(
    'shutil.copyfile', lambda eng: eng.sym('copied', STR))

schema('KeyInfo', 'cylc.flow.workflow_files:KeyInfo', fields={'key_path': 'str', 'full_key_path': 'str'})


def _install_zmq():
    import zmq.auth
    REG.externals[zmq.auth.create_certificates] = _creates(
        'zmq.auth.create_certificates',
        lambda eng: eng.make_tuple([eng.sym('server_public_key_file', STR),
                                    eng.sym('server_private_key_file', STR)]))


_install_zmq()

contract('cylc.flow.workflow_files:create_server_keys',
         sorts={'keys': 'dict[str,KeyInfo]', 'workflow_srv_dir': 'str',
                '_server_public_full_key_path': 'str', '_server_private_full_key_path': 'str',
                'server_pub_in_client_folder': 'str', 'client_host_private_key': 'str', 'old_umask': 'int'},
         requires=['"client_public_key" in keys', '"client_private_key" in keys'],
         ensures={'the-umask-found-at-entry-is-restored': 'umask_now() == umask_at_entry()'},
         props=PROPS)


# ------------------------------------------------------------------ the private database
# ghost field WorkflowDatabaseManager.ghost_pri_mode: the permission bits of the file at self.pri_path
def _os_chmod(eng, args, kwargs):
    selfv = eng.frame.locals['self']
    path, mode = eng.force(args[0]).t, eng.force(args[1]).t
    old = eng.force(eng.getattr(selfv, 'ghost_pri_mode')).t
    pri = eng.force(eng.getattr(selfv, 'pri_path')).t
    eng.write_field(selfv, 'ghost_pri_mode', SV(INT, z3.If(path == pri, mode, old)))
    return eng.lift(None)


REG.externals[os.chmod] = _os_chmod
REG.externals[os.unlink] = lambda eng, args, kwargs: eng.lift(None)

W = 'cylc.flow.workflow_db_mgr:WorkflowDatabaseManager.'
schema('WorkflowDatabaseManager', 'cylc.flow.workflow_db_mgr:WorkflowDatabaseManager', fields={
    'pri_path': 'str', 'pub_path': 'str', 'pub_dao': 'CylcWorkflowDAO', 'ghost_pri_mode': 'int'})
schema('CylcWorkflowDAO', 'cylc.flow.rundb:CylcWorkflowDAO', fields={})

contract(W + 'get_pri_dao', sorts={'self': 'WorkflowDatabaseManager', 'result': 'CylcWorkflowDAO'},
         modifies=['self.ghost_pri_mode'], assumed=True, props=PROPS,
         note='opens / creates the SQLite file at pri_path: a created file has mode 0o644 & ~umask (POSIX model), '
              'so its mode afterwards is unknown')
contract('cylc.flow.rundb:CylcWorkflowDAO', sorts={'self': 'CylcWorkflowDAO'}, assumed=True, props=PROPS,
         note='constructor: opens no file')
contract('cylc.flow.workflow_db_mgr:rmtree', assumed=True, props=PROPS, note='shutil.rmtree of a stray directory')
contract(W + 'copy_pri_to_pub', sorts={'self': 'WorkflowDatabaseManager'}, assumed=True, props=PROPS,
         note='copies the private file to the PUBLIC path (and chmods that one): does not touch the mode of '
              'pri_path; pri_path != pub_path is a precondition of the caller')

contract(W + 'on_workflow_start',
         sorts={'self': 'WorkflowDatabaseManager', 'is_restart': 'bool'},
         requires=['self.pri_path != self.pub_path'],
         ensures={'the-private-database-is-owner-only-when-start-up-completes': 'self.ghost_pri_mode == 0o600'},
         modifies=['self.pri_dao', 'self.pub_dao', 'self.ghost_pri_mode'],
         props=PROPS)
