"""Heap schemas shared by the task-pool properties (DESIGN 4.2 / 4.3).

Only the fields that the functions under contract read or write are declared;
an access to an undeclared field makes the function *unsupported* (undecided),
never silently ignored."""
from pyvc.spec import schema

schema('TaskDef', 'cylc.flow.taskdef:TaskDef', fields={
    'name': 'str',
})

schema('TaskState', 'cylc.flow.task_state:TaskState', fields={
    'status': 'str', 'is_held': 'bool', 'is_queued': 'bool', 'is_runahead': 'bool',
    'is_updated': 'bool', 'kill_failed': 'bool', 'time_updated': 'opt[str]',
})

schema('TaskProxy', 'cylc.flow.task_proxy:TaskProxy', fields={
    'tdef': 'TaskDef', 'state': 'TaskState', 'identity': 'str',
    'waiting_on_job_prep': 'bool', 'is_manual_submit': 'bool', 'transient': 'bool',
    'submit_num': 'int', 'flow_wait': 'bool',
})

schema('LimitedTaskQueue', 'cylc.flow.task_queues.independent:LimitedTaskQueue', fields={
    'limit': 'int', 'members': 'set[str]', 'deque': 'deque[TaskProxy]',
})

schema('IndepQueueManager', 'cylc.flow.task_queues.independent:IndepQueueManager', fields={
    'queues': 'dict[str,LimitedTaskQueue]',
})
