"""C13 (third sentence) and C46 (second clause): Dependency.get_prerequisite.

"Dependencies on instances before the initial cycle point count as satisfied"; with a start point
after the initial point "dependencies on [instances before the start point] count as satisfied".

get_prerequisite is verified against its real body.  Every value it records in the new Prerequisite
goes through Prerequisite.__setitem__; the `callsite` assertions below are placed before every such
call and say what the recorded value must be:

    no offset                         ->  False (an ordinary same-cycle dependency starts unsatisfied)
    target point before the initial
    cycle point                       ->  True
    otherwise                         ->  True exactly when the target point is before the start point
                                          and the dependent instance is not
and that the target point is the trigger's offset applied to the initial cycle point for a
`[^...]` trigger and to the dependent's own point otherwise (relpt is an uninterpreted function of
the offset text and the base point: the offset arithmetic itself is C16/C17/C18)."""
from pyvc.spec import (contract, schema, spec, uninterp, implies, iff, forall, exists, REG)
import contracts.c13_prereq  # noqa: F401
import contracts.c18_points  # noqa: F401
import contracts.c26_pool  # noqa: F401
from contracts.c18_points import ipt, pt_ok, iiv, iv_ok
from contracts.c13_prereq import wf, cache_ok

D = 'cylc.flow.task_trigger:'
PROPS = ['C13', 'C46']
KEY = 'tuple[str,str,str]'

schema('TaskTrigger', D + 'TaskTrigger', fields={
    'task_name': 'str', 'cycle_point_offset': 'opt[str]', 'output': 'str',
    'offset_is_from_icp': 'bool', 'offset_is_irregular': 'bool', 'offset_is_absolute': 'bool'})
schema('Dependency', D + 'Dependency', fields={'task_triggers': 'list[TaskTrigger]', 'suicide': 'bool'})
schema('TaskDef', 'cylc.flow.taskdef:TaskDef', fields={
    'initial_point': 'IntegerPoint', 'start_point': 'IntegerPoint',
    'max_future_prereq_offset': 'opt[IntegerInterval]'})


@uninterp(sorts=('str', 'int'), result='int')
def relpt(offset, base):
    """the cycle point denoted by an offset expression relative to a base point (integer cycling)"""
    from cylc.flow.cycling.integer import get_point_relative as gpr, IntegerPoint
    return int(gpr(offset, IntegerPoint(str(base))))


contract('cylc.flow.cycling.loader:get_point_relative',
         sorts={'args': 'pytuple[str,IntegerPoint]', 'result': 'IntegerPoint'},
         requires=['pt_ok(args[1])'],
         ensures={'the-offset-applied-to-the-base': 'pt_ok(result) and ipt(result) == relpt(args[0], ipt(args[1]))'},
         pure=True, fresh=True, assumed=True, props=PROPS,
         note='offset arithmetic of the cycling type (IntegerPoint/IntegerInterval add and sub are '
              'proved under C18; the parsing of the offset text is not modelled)')
contract(D + 'TaskTrigger.get_point',
         sorts={'self': 'TaskTrigger', 'point': 'IntegerPoint', 'result': 'str'},
         pure=True, assumed=True, props=PROPS, note='text of the target point (key of the prerequisite)')
contract(D + 'Dependency.get_expression',
         sorts={'self': 'Dependency', 'point': 'IntegerPoint', 'result': 'str'},
         pure=True, assumed=True, props=PROPS, note='the trigger expression as text (bounded stand-in of C13)')
contract('cylc.flow.prerequisite:Prerequisite',
         sorts={'self': 'Prerequisite', 'point': 'IntegerPoint'},
         ensures={'empty': 'forall(lambda k: k not in self._satisfied, k="' + KEY + '") '
                           'and self.conditional_expression is None and self._cached_satisfied is None '
                           'and fresh_obj(self._satisfied)'},
         assumed=True, props=PROPS, note='Prerequisite.__init__: no keys, no expression, no cache')
contract('cylc.flow.prerequisite:Prerequisite.set_conditional_expr',
         sorts={'self': 'Prerequisite', 'expr': 'str'},
         ensures={'keys-kept': 'forall(lambda k: (k in self._satisfied) == old(k in self._satisfied) and '
                               'implies(k in self._satisfied, self._satisfied[k] == old(self._satisfied[k])), '
                               'k="' + KEY + '")'},
         modifies=['self.conditional_expression', 'self._cached_satisfied'], assumed=True, props=PROPS,
         note='regex rewriting of the expression text: bounded stand-in of C13 (contracts/c13_bounded.py)')


@spec
def target_value(tdef, trig, point):
    """integer value of the point a trigger with an offset refers to"""
    return relpt(trig.cycle_point_offset,
                 ipt(tdef.initial_point) if trig.offset_is_from_icp else ipt(point))


@spec
def initial_value(tdef, trig, point):
    """what the property says the recorded state of this dependency must be at creation"""
    return (trig.cycle_point_offset is not None and (
        target_value(tdef, trig, point) < ipt(tdef.initial_point)
        or (target_value(tdef, trig, point) < ipt(tdef.start_point)
            and ipt(point) >= ipt(tdef.start_point))))


contract(D + 'Dependency.get_prerequisite',
         sorts={'self': 'Dependency', 'point': 'IntegerPoint', 'tdef': 'TaskDef', 'result': 'Prerequisite',
                'cpre': 'Prerequisite', 'task_trigger': 'TaskTrigger', 'key': KEY,
                'prereq_offset_point': 'IntegerPoint', 'prereq_offset': 'IntegerInterval'},
         requires=['pt_ok(point)', 'pt_ok(tdef.initial_point)', 'pt_ok(tdef.start_point)',
                   'tdef.max_future_prereq_offset is None or iv_ok(tdef.max_future_prereq_offset)'],
         ensures={'a-new-prerequisite': 'fresh_obj(result)'},
         callsite={'Prerequisite.__setitem__': [
             'a_self is cpre',
             'a_value == initial_value(tdef, task_trigger, point)',
             'a_key[1] == task_trigger.task_name and a_key[2] == task_trigger.output',
         ]},
         loops={0: dict(invariant=[
             'fresh_obj(cpre) and fresh_obj(cpre._satisfied) and cpre.conditional_expression is None',
             'wf(cpre) and cache_ok(cpre)',
             'tdef.max_future_prereq_offset is None or iv_ok(tdef.max_future_prereq_offset)'],
             modifies=['all:fresh[*]', 'cpre._cached_satisfied', 'tdef.max_future_prereq_offset'])},
         modifies=['tdef.max_future_prereq_offset'], props=PROPS, options={'merge_ifs': True})
