"""Task state primitives shared by C03, C09, C11, C26, C32:
TaskState.__call__, TaskState.reset, TaskProxy.state_reset."""
from pyvc.spec import (contract, schema, spec, uninterp, implies, iff, forall, exists, REG)
import contracts.shared_task  # noqa: F401
import contracts.externals  # noqa: F401

S = 'cylc.flow.task_state:TaskState.'
T = 'cylc.flow.task_proxy:TaskProxy.'
ALLP = ['C03', 'C09', 'C11', 'C26', 'C32', 'C06']


@spec
def rank(s):
    """position in the lifecycle order (cylc.flow.task_state.TASK_STATUSES_ORDERED)"""
    return (0 if s == 'waiting' else 1 if s == 'expired' else 2 if s == 'preparing'
            else 3 if s == 'submit-failed' else 4 if s == 'submitted' else 5 if s == 'running'
            else 6 if s == 'failed' else 7 if s == 'succeeded' else -1)


@spec
def is_status(s):
    return rank(s) >= 0


# type invariant of TaskState.status: one of the eight task statuses (assumed at every read,
# proved at every write in a function under verification: TaskState.reset requires it of its argument)
schema('TaskState', 'cylc.flow.task_state:TaskState', fields={}, field_inv={'status': 'is_status(v)'})

contract('cylc.flow.wallclock:get_current_time_string',
         sorts={'result': 'str'}, assumed=True, pure=True, props=ALLP, note='wall clock (A-CLOCK)')

for _k in range(0, 5):     # one variant per number of statuses passed (*status)
    contract(S + '__call__', variant=f'arity{_k}',
             sorts={'self': 'TaskState', 'status': 'pytuple' + ('[' + ','.join(['opt[str]'] * _k) + ']' if _k else ''),
                    'is_held': 'opt[bool]', 'is_queued': 'opt[bool]',
                    'is_runahead': 'opt[bool]', 'result': 'bool'},
             ensures={'compares': 'result == ((len(status) == 0 or self.status in status) '
                                  'and (is_held is None or self.is_held == is_held) '
                                  'and (is_queued is None or self.is_queued == is_queued) '
                                  'and (is_runahead is None or self.is_runahead == is_runahead))'},
             pure=True, props=ALLP)

_FLAGS = ('is_held', 'is_queued', 'is_runahead')
contract(S + 'reset',
         sorts={'self': 'TaskState', 'status': 'opt[str]', 'is_held': 'opt[bool]',
                'is_queued': 'opt[bool]', 'is_runahead': 'opt[bool]', 'forced': 'bool', 'result': 'bool'},
         requires=['status is None or is_status(status)'],
         ensures={
             # forced changes never yield an active state ("never puts the task into submitted/running")
             'forced-never-active':
                 'implies(forced and (status == "submitted" or status == "running"), '
                 'not result and self.status == old(self.status) and self.is_held == old(self.is_held) '
                 'and self.is_queued == old(self.is_queued) and self.is_runahead == old(self.is_runahead))',
             'requested-values-taken':
                 'implies(not (forced and (status == "submitted" or status == "running")), '
                 '(status is None or self.status == status) and (is_held is None or self.is_held == is_held) '
                 'and (is_queued is None or self.is_queued == is_queued) '
                 'and (is_runahead is None or self.is_runahead == is_runahead))',
             'unrequested-values-kept':
                 '(status is not None or self.status == old(self.status)) '
                 'and (is_held is not None or self.is_held == old(self.is_held)) '
                 'and (is_queued is not None or self.is_queued == old(self.is_queued)) '
                 'and (is_runahead is not None or self.is_runahead == old(self.is_runahead))',
             'returns-whether-changed':
                 'result == (self.status != old(self.status) or self.is_held != old(self.is_held) '
                 'or self.is_queued != old(self.is_queued) or self.is_runahead != old(self.is_runahead))',
             'bookkeeping': 'implies(result, self.is_updated and not self.kill_failed)',
             'untouched-when-unchanged':
                 'implies(not result, self.is_updated == old(self.is_updated) '
                 'and self.kill_failed == old(self.kill_failed))',
         },
         modifies=['self.status', 'self.is_held', 'self.is_queued', 'self.is_runahead',
                   'self.time_updated', 'self.is_updated', 'self.kill_failed'],
         props=['C09', 'C29', 'C06', 'C32'])

contract(T + '__str__', sorts={'self': 'TaskProxy', 'result': 'str'}, assumed=True, pure=True,
         props=ALLP, note='formatting only (A-LOG)')

contract(T + 'state_reset',
         sorts={'self': 'TaskProxy', 'status': 'opt[str]', 'is_held': 'opt[bool]',
                'is_queued': 'opt[bool]', 'is_runahead': 'opt[bool]', 'silent': 'bool', 'forced': 'bool',
                'result': 'bool', 'before': 'str'},
         requires=['status is None or is_status(status)'],
         ensures={
             # "expired only ... never submits": an expired task leaves the queue and the runahead pool
             'expired-clears-queue-flags':
                 'implies(status == "expired", '
                 'not self.state.is_queued and not self.state.is_runahead)',
             'forced-never-active':
                 'implies(forced and (status == "submitted" or status == "running"), '
                 'not result and self.state.status == old(self.state.status))',
             'status-taken':
                 'implies(not (forced and (status == "submitted" or status == "running")), '
                 'status is None or self.state.status == status)',
             'returns-whether-changed':
                 'result == (self.state.status != old(self.state.status) '
                 'or self.state.is_held != old(self.state.is_held) '
                 'or self.state.is_queued != old(self.state.is_queued) '
                 'or self.state.is_runahead != old(self.state.is_runahead))',
             'held-flag': 'implies(not (forced and (status == "submitted" or status == "running")), '
                          'is_held is None or self.state.is_held == is_held)',
             'unrequested-values-kept':
                 '(status is not None or self.state.status == old(self.state.status)) '
                 'and (is_held is not None or self.state.is_held == old(self.state.is_held)) '
                 'and (is_queued is not None or status == "expired" '
                 'or self.state.is_queued == old(self.state.is_queued)) '
                 'and (is_runahead is not None or status == "expired" '
                 'or self.state.is_runahead == old(self.state.is_runahead))',
             'queue-flags-taken':
                 'implies(not (forced and (status == "submitted" or status == "running")), '
                 '(is_queued is None or status == "expired" or self.state.is_queued == is_queued) '
                 'and (is_runahead is None or status == "expired" or self.state.is_runahead == is_runahead))',
         },
         modifies=['self.state.status', 'self.state.is_held', 'self.state.is_queued',
                   'self.state.is_runahead', 'self.state.time_updated', 'self.state.is_updated',
                   'self.state.kill_failed'],
         props=['C09', 'C32', 'C06'])

# ------------------------------------------------------------------ outputs are monotone
O = 'cylc.flow.task_outputs:TaskOutputs.'
schema('TaskOutputs', 'cylc.flow.task_outputs:TaskOutputs', fields={
    '_completed': 'dict[str,bool]', '_forced': 'list[str]',
    '_message_to_trigger': 'dict[str,str]', '_message_to_compvar': 'dict[str,str]',
    '_completion_expression': 'str'})
schema('TaskState', 'cylc.flow.task_state:TaskState', fields={'outputs': 'TaskOutputs'})

contract(O + 'set_message_complete',
         sorts={'self': 'TaskOutputs', 'message': 'str', 'forced': 'bool', 'result': 'opt[bool]'},
         ensures={
             # "completed outputs are never un-completed"
             'monotone': 'forall(lambda m: implies(old(m in self._completed and self._completed[m]), '
                         'm in self._completed and self._completed[m]), m="str")',
             'only-this-message-changes':
                 'forall(lambda m: implies(m != message, (m in self._completed) == old(m in self._completed) '
                 'and implies(m in self._completed, self._completed[m] == old(self._completed[m]))), m="str")',
             'same-outputs': '(message in self._completed) == old(message in self._completed)',
             'tri-state':
                 '(result is None) == (not old(message in self._completed)) and '
                 'implies(result is not None, self._completed[message] and '
                 'result == (not old(self._completed[message])))',
         },
         modifies=['self._completed[*]', 'self._forced[*]'], props=['C09', 'C29'])

contract(O + 'is_message_complete',
         sorts={'self': 'TaskOutputs', 'message': 'str', 'result': 'opt[bool]'},
         ensures={'lookup': '(result is None) == (message not in self._completed) and '
                            'implies(result is not None, result == self._completed[message])'},
         pure=True, props=['C09'])

contract(O + 'add',
         sorts={'self': 'TaskOutputs', 'trigger': 'str', 'message': 'str'},
         ensures={'registered-incomplete': 'message in self._completed and not self._completed[message]',
                  'others-kept': 'forall(lambda m: implies(m != message, '
                                 '(m in self._completed) == old(m in self._completed) and '
                                 'implies(m in self._completed, self._completed[m] == old(self._completed[m]))), '
                                 'm="str")'},
         modifies=['self._completed[*]', 'self._message_to_trigger[*]', 'self._message_to_compvar[*]'],
         props=['C09'])
contract('cylc.flow.task_outputs:trigger_to_completion_variable',
         sorts={'output': 'str', 'result': 'str'}, assumed=True, pure=True, props=['C09', 'C11'],
         note='str.replace on the output name')
