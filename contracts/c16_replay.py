"""C16 replay support: concrete catalog of integer recurrences used to turn a
refuted obligation into a failing input of the real code, and the coverage
predicates of the known findings."""
import itertools

from pyvc.spec import REG


def _recurrences():
    pts = ['0', '1', '3', '8', '+P2', '-P1']
    ks = ['P1', 'P2', 'P3', 'P5']
    ns = ['R1', 'R2', 'R3', 'R5']
    out = set()
    for k in ks:
        out.add(k)                                   # INTV
        for s in pts:
            out.add(f'{s}/{k}')                      # START/INTV
            out.add(f'{k}/{s}')                      # INTV/END
            for n in ns:
                out.add(f'{n}/{s}/{k}')              # Rn/START/INTV
                out.add(f'{n}/{k}/{s}')              # Rn/INTV/END
        for n in ns:
            out.add(f'{n}//{k}')                     # Rn//INTV
            out.add(f'{n}/{k}')                      # Rn/INTV
    for s in pts:
        out.add(f'R1/{s}')
        out.add(f'R1//{s}')
        for e in ['5', '10', '12', '+P4']:
            for n in ['R1', 'R2', 'R3', 'R4']:
                out.add(f'{n}/{s}/{e}')              # Rn/START/END
    out.add('R1')
    base = sorted(out)
    excl = []
    for r in base[::7]:
        excl.append(r + '!3')
        excl.append(r + '!(1,5)')
        excl.append(r + '!P2')
    excl += ['R1/3!3', 'R1/1!1', 'R1!1', 'R1/5!(5,6)', 'R1//8!8', 'R1/+P2!3',
             'P2!1', 'P1!(1,2)', 'P3!(1,4)', 'P2!(1,3)', 'P1!P2', '1/P1!1', 'P2/9!9', 'R3/1/P2!5']
    # exclusions first: the rarest shapes must not be cut off by the candidate limit
    return excl + base


CONTEXTS = [('1', None), ('1', '10'), ('0', '20'), ('2', '6'), ('5', '9'), ('3', '3'), ('9', '5')]


def catalog():
    for rec in _recurrences():
        for icp, fcp in CONTEXTS:
            yield rec, icp, fcp


def _mkseq(rec, icp, fcp):
    from cylc.flow.cycling.integer import IntegerSequence
    return IntegerSequence(rec, icp, fcp)


def _pt(v):
    from cylc.flow.cycling.integer import IntegerPoint
    return IntegerPoint(str(v))


def conc_query(with_point=True, limit=30000):
    """Candidates for the query methods: every catalog sequence that the real
    constructor accepts, with points around its range."""
    def hook(model, oname):
        n = 0
        extra = [v for v in (model or {}).values() if isinstance(v, int) and not isinstance(v, bool)
                 and abs(v) < 1000]
        for rec, icp, fcp in catalog():
            try:
                _mkseq(rec, icp, fcp)
            except Exception:
                continue
            if not with_point:
                n += 1
                yield (dict(recurrence=rec, icp=icp, fcp=fcp),
                       (lambda rec=rec, icp=icp, fcp=fcp: ([_mkseq(rec, icp, fcp)], {})))
                continue
            for x in sorted(set(list(range(-3, 16)) + extra[:4])):
                n += 1
                if n > limit:
                    return
                yield (dict(recurrence=rec, icp=icp, fcp=fcp, point=x),
                       (lambda rec=rec, icp=icp, fcp=fcp, x=x: ([_mkseq(rec, icp, fcp), _pt(x)], {})))
    return hook


def conc_init(model, oname):
    from cylc.flow.cycling.integer import IntegerSequence
    for rec, icp, fcp in catalog():
        yield (dict(recurrence=rec, icp=icp, fcp=fcp),
               (lambda rec=rec, icp=icp, fcp=fcp:
                ([IntegerSequence.__new__(IntegerSequence), rec, icp, fcp], {})))


# ------------------------------------------------------------------ known-finding coverage
def _seq_of(desc):
    return _mkseq(desc['recurrence'], desc['icp'], desc['fcp'])


def _valid_points(seq, lo=-30, hi=60):
    return [x for x in range(lo, hi) if seq.is_valid(_pt(x))]


def kf_empty_set(desc, res):
    """start/stop point reported although the clipped set is empty."""
    try:
        s = _seq_of(desc)
        return s.p_stop is not None and int(s.p_stop) < int(s.p_start)
    except Exception:
        return False


def kf_far_before_start(desc, res):
    """get_next_point(_on_sequence) asked about a point more than one step
    before the first point."""
    try:
        s = _seq_of(desc)
        return bool(s.i_step) and desc['point'] < int(s.p_start) - int(s.i_step)
    except Exception:
        return False


def kf_before_start_on_seq(desc, res):
    """get_next_point_on_sequence: point more than one step before the first
    point, or any point before the point of a one-off sequence."""
    try:
        s = _seq_of(desc)
        if not s.i_step:
            return desc['point'] < int(s.p_start)
        return desc['point'] < int(s.p_start) - int(s.i_step)
    except Exception:
        return False


def kf_oneoff_excluded(desc, res):
    """one-off sequence whose only point is excluded."""
    try:
        s = _seq_of(desc)
        return (not s.i_step) and s.exclusions is not None and s.p_start in s.exclusions
    except Exception:
        return False


def kf_prev_far_or_oneoff(desc, res):
    """get_prev_point / get_nearest_prev_point beyond one step past the stop
    point, or after the point of a one-off sequence: 'None if out of bounds'."""
    try:
        s = _seq_of(desc)
        x = desc['point']
        if not s.i_step:
            return x > int(s.p_start)
        return s.p_stop is not None and x > int(s.p_stop) + int(s.i_step)
    except Exception:
        return False


def kf_oneoff_unclipped(desc, res):
    """a one-off recurrence whose point lies outside [initial, final] keeps it."""
    try:
        s = _seq_of(desc)
        if s.i_step:
            return False
        x = int(s.p_start)
        return x < int(desc['icp']) or (desc['fcp'] is not None and x > int(desc['fcp']))
    except Exception:
        return False


def install():
    for k, c in REG.contracts.items():
        if 'C16' not in c.props or c.assumed:
            continue
        q = c.qualname
        if q.endswith('.__init__') and 'IntegerSequence' in q:
            c.concretise = conc_init
        elif q.startswith('IntegerSequence.'):
            c.concretise = conc_query(with_point='point' in c.sorts)


install()
