"""Assumed models of standard-library calls (trusted base, DESIGN 2.9)."""
import datetime
import time

import z3

from pyvc.spec import REG
from pyvc.kinds import Kind, FLOAT
from pyvc.core import SV


def _now(eng, args, kwargs):
    # A-CLOCK: the wall clock returns an arbitrary value
    return SV(Kind('PyDateTime'), eng.p.fresh('now', z3.IntSort()))


def _time(eng, args, kwargs):
    return SV(FLOAT, eng.p.fresh('time', z3.RealSort()))


REG.externals[datetime.datetime.now] = _now
REG.externals[time.time] = _time
