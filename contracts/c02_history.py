"""C02 / C08 — "a task already finished (and complete) in a flow is not re-run when that flow
reaches it again": the decision is taken by TaskPool.spawn_task from what TaskPool._get_task_history
reads in the task_states table.

_get_task_history is verified against its body for every table content: the submit number is the
largest one recorded; the status is None exactly when no recorded instance shares a flow with the
requested flow numbers; and if ANY recorded instance that shares a flow is finished, the status
returned is a finished one (a flow merge leaves a stale unfinished row beside the finished one)."""
from pyvc.spec import (contract, schema, spec, uninterp, implies, iff, forall, exists, REG)
import contracts.c26_pool  # noqa: F401
import contracts.c18_points  # noqa: F401

P = 'cylc.flow.task_pool:TaskPool.'
ROW = 'tuple[int,bool,set[int],str]'
PROPS = ['C02', 'C08']

schema('CylcWorkflowDAO', 'cylc.flow.rundb:CylcWorkflowDAO', fields={})
schema('WorkflowDatabaseManager', 'cylc.flow.workflow_db_mgr:WorkflowDatabaseManager',
       fields={'pri_dao': 'CylcWorkflowDAO'})


@uninterp(sorts=('CylcWorkflowDAO', 'str', 'str'), result=f'list[{ROW}]')
def hist(dao, name, point):
    """rows (submit_num, flow_wait, flow_nums, status) of the task_states table for name/point"""
    return dao.select_prev_instances(name, point)


contract('cylc.flow.rundb:CylcWorkflowDAO.select_prev_instances',
         sorts={'self': 'CylcWorkflowDAO', 'name': 'str', 'point': 'str', 'result': f'list[{ROW}]'},
         ensures={'the-recorded-rows': 'result is hist(self, name, point)'},
         pure=True, assumed=True, props=PROPS,
         note='SQL SELECT on task_states (opaque); rows in primary-key order')


@spec
def meets(a, b):
    return exists(lambda x: x in a and x in b)


@spec
def is_final(s):
    return s == 'expired' or s == 'failed' or s == 'submit-failed' or s == 'succeeded'


_H = 'hist(self.workflow_db_mgr.pri_dao, name, point.value)'

contract(P + '_get_task_history',
         sorts={'self': 'TaskPool', 'name': 'str', 'point': 'IntegerPoint', 'flow_nums': 'set[int]',
                'result': 'tuple[int,opt[str],bool]', 'info': f'list[{ROW}]', 'submit_num': 'int',
                'status': 'opt[str]', 'flow_wait': 'bool', '_snum': 'int', 'f_wait': 'bool',
                'old_fnums': 'set[int]', 'old_status': 'str'},
         ensures={
             'submit-number-is-the-largest-recorded':
                 f'forall(lambda j: implies(0 <= j and j < len({_H}), {_H}[j][0] <= result[0])) and '
                 f'((len({_H}) == 0 and result[0] == 0) or '
                 f'exists(lambda j: 0 <= j and j < len({_H}) and {_H}[j][0] == result[0]))',
             'no-history-iff-no-recorded-instance-shares-a-flow':
                 f'(result[1] is None) == (not exists(lambda j: 0 <= j and j < len({_H}) '
                 f'and meets(flow_nums, {_H}[j][2])))',
             # the clause the property needs: finished in this flow => reported as finished
             'finished-in-flow-is-reported-finished':
                 f'implies(exists(lambda j: 0 <= j and j < len({_H}) and meets(flow_nums, {_H}[j][2]) '
                 f'and is_final({_H}[j][3])), result[1] is not None and is_final(result[1]))',
             'status-and-flow-wait-of-a-recorded-instance-in-the-flow':
                 f'result[1] is None or exists(lambda j: 0 <= j and j < len({_H}) '
                 f'and meets(flow_nums, {_H}[j][2]) and {_H}[j][3] == result[1] and {_H}[j][1] == result[2])',
         },
         loops={0: dict(invariant=[
             f'info is {_H}',
             '(status is None) == (not exists(lambda j: 0 <= j and j < _i and meets(flow_nums, info[j][2])))',
             'status is None or exists(lambda j: 0 <= j and j < _i and meets(flow_nums, info[j][2]) '
             'and info[j][3] == status and info[j][1] == flow_wait)',
             'forall(lambda j: implies(0 <= j and j < _i and meets(flow_nums, info[j][2]), '
             'not is_final(info[j][3])))',
         ])},
         pure=True, props=PROPS)
