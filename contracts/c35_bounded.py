"""C35 — runtime inheritance follows C3 linearization.  BOUNDED stand-in, not a proof.

C3.merge / C3.mro are list surgery (`del seq[0]` inside nested loops over lists of lists, recursion
through a dictionary of parents): outside the subset the verifier generator models.  The contract

    requires  the hierarchy is a DAG over names, each parent list without repetition
    ensures   mro(name) == the MRO Python computes for the equivalent class hierarchy,
              and an exception is raised exactly when Python refuses the hierarchy (TypeError)

is checked at run time on the REAL functions for EVERY hierarchy of the stated bound: <= 5 namespaces,
every ordered parent list over the earlier namespaces (10 400 + 160 + ... hierarchies); every namespace
of every hierarchy is linearized."""
import itertools


def _ordered_subsets(items):
    for r in range(len(items) + 1):
        for combo in itertools.permutations(items, r):
            yield list(combo)


def _hierarchies(n):
    names = [f'n{i}' for i in range(n)]
    choices = [list(_ordered_subsets(names[:i])) for i in range(n)]
    for parents in itertools.product(*choices):
        yield {names[i]: parents[i] for i in range(n)}


def _python_mro(tree):
    """MRO of every namespace by building the equivalent classes; None where Python refuses"""
    classes, out = {}, {}
    for name, parents in tree.items():           # names are in definition order
        if any(p not in classes or classes[p] is None for p in parents):
            classes[name] = None
            out[name] = None
            continue
        try:
            classes[name] = type(name, tuple(classes[p] for p in parents), {})
            out[name] = [c.__name__ for c in classes[name].__mro__ if c is not object]
        except TypeError:
            classes[name] = None
            out[name] = None
    return out


def check(tier='quick', seed=0):
    from cylc.flow.c3mro import C3
    nmax = 5
    n_eval, distinct, bad, samples = 0, set(), [], []
    for n in range(1, nmax + 1):
        for tree in _hierarchies(n):
            want = _python_mro(tree)
            for name in tree:
                n_eval += 1
                try:
                    got = C3(dict((k, list(v)) for k, v in tree.items())).mro(name)
                except RecursionError:
                    got = 'RecursionError'
                except Exception as ex:     # noqa: BLE001 - any refusal counts as "rejected"
                    got = None
                    _ = ex
                distinct.add(repr(got))
                if len(samples) < 3 and n == 3 and got and len(got) == 3:
                    samples.append(dict(hierarchy=tree, namespace=name, linearization=got))
                if got != want[name]:
                    bad.append(dict(hierarchy=tree, namespace=name, cylc=got, python=want[name]))
                    if len(bad) >= 5:
                        break
            if len(bad) >= 5:
                break
        if len(bad) >= 5:
            break
    name = ('bounded::C3.mro(name) equals the MRO Python computes for the equivalent classes, and is '
            'rejected exactly when Python rejects the hierarchy')
    rule = (f'every hierarchy of <= {nmax} namespaces in definition order, each with every ordered list of '
            'distinct earlier namespaces as parents; every namespace linearized; distinct = distinct results')
    second = _family_tree(4)
    if bad:
        return [dict(name=name, kind='bounded', verdict='refuted', evaluations=n_eval, witness=bad,
                     distinct=len(distinct), rule=rule, samples=samples, exhaustive=True,
                     detail='the real C3.mro disagrees with Python'), second]
    return [dict(name=name, kind='bounded', verdict='proved', evaluations=n_eval, distinct=len(distinct),
                 rule=rule, samples=samples, exhaustive=True,
                 detail=f'{n_eval} linearizations, exhaustive over the stated bound'), second]


def _family_tree(nmax):
    """the real WorkflowConfig.compute_family_tree (which feeds C3 from the [runtime] section: implicit
    inheritance from root, the result stored per namespace) against Python's MRO"""
    from cylc.flow.config import WorkflowConfig
    from cylc.flow.exceptions import WorkflowConfigError
    n_eval, bad, samples = 0, [], []
    for n in range(1, nmax + 1):
        for tree in _hierarchies(n):
            # every namespace inherits from root implicitly (no parents) - as in a [runtime] section
            full = {'root': []}
            for k, v in tree.items():
                full[k] = list(v) if v else ['root']
            want = _python_mro(full)
            cfg = WorkflowConfig.__new__(WorkflowConfig)
            cfg.cfg = {'runtime': {'root': {}}}
            for k, v in tree.items():
                cfg.cfg['runtime'][k] = {'inherit': list(v)} if v else {}
            cfg.runtime = {'parents': {}, 'linearized ancestors': {}, 'first-parent ancestors': {},
                           'descendants': {}, 'first-parent descendants': {}}
            n_eval += 1
            try:
                cfg.compute_family_tree()
                got = {k: list(v) for k, v in cfg.runtime['linearized ancestors'].items()}
            except WorkflowConfigError:
                got = None
            if any(v is None for v in want.values()):
                ok = got is None
            else:
                ok = got == want
            if not ok and len(bad) < 5:
                bad.append(dict(runtime_inherit=tree, linearized_ancestors=got, python=want))
            if len(samples) < 2 and n == 3 and got and any(len(v) == 4 for v in got.values()):
                samples.append(dict(runtime_inherit=tree, linearized_ancestors=got))
    name = ('bounded::WorkflowConfig.compute_family_tree stores for every namespace the linearization Python '
            'computes (implicit inheritance from root), and refuses the section exactly when Python does')
    rule = (f'every [runtime] section of <= {nmax} namespaces besides root, each inheriting from every ordered '
            'list of distinct earlier namespaces (root when none); the real method on a bare WorkflowConfig; '
            'exhaustive inside that box')
    base = dict(name=name, kind='bounded', evaluations=n_eval, distinct=n_eval, rule=rule, samples=samples,
                exhaustive=True)
    if bad:
        return dict(base, verdict='refuted', witness=bad, detail=f'{len(bad)} sections differ')
    return dict(base, verdict='proved', detail=f'{n_eval} sections')
