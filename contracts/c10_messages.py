"""C10 (and the message-side clauses of C02, C09, C29, C32) — TaskEventsManager.process_message.

The dispatcher is verified against its real body.  What it must guarantee is stated in three ways:

 * postconditions for the messages that must be IGNORED (stale submit number; late message while a
   retry is lined up): nothing about the task changes and no poll is requested;
 * `callsite` assertions placed before every call of a state-changing handler: a *received* message
   that would move the status backwards never reaches the handler (the function returns True = poll
   instead), children of failed / submit-failed are spawned only when the handler said "no retry left";
 * postconditions over every path: outputs are monotone, a return to waiting happens only through the
   failed / submit-failed (retry) branch, and a poll request is only ever the answer to a received message.

The small handlers (_process_message_check / _started / _succeeded / _expired / _submitted,
TaskState.is_gt / is_gte) are verified too."""
from pyvc.spec import (contract, schema, spec, uninterp, implies, iff, forall, exists, REG)
import contracts.c09_state  # noqa: F401
import contracts.c02_retries  # noqa: F401
import contracts.c32_expiry  # noqa: F401
from contracts.c02_retries import completed, retry_left, outputs_monotone
from contracts.c32_expiry import expirable
from contracts.c09_state import rank, is_status

E = 'cylc.flow.task_events_mgr:TaskEventsManager.'
S = 'cylc.flow.task_state:TaskState.'
PROPS = ['C10', 'C09']

schema('Tokens', 'cylc.flow.id:Tokens', fields={})
schema('TaskDef', 'cylc.flow.taskdef:TaskDef', fields={'elapsed_times': 'list[float]'})
schema('TaskProxy', 'cylc.flow.task_proxy:TaskProxy', fields={
    'submit_num': 'int', 'transient': 'bool', 'run_mode': 'str', 'tokens': 'Tokens',
    'job_vacated': 'bool', 'summary': 'RecSummary', 'non_unique_events': 'counter[str]',
    'tdef': 'TaskDef'})
# itask.summary: a dictionary with fixed keys (TaskProxy.__init__), modelled as a record
schema('RecSummary', '', fields={'started_time': 'opt[float]', 'finished_time': 'opt[float]',
                                 'submitted_time': 'opt[float]', 'submit_method_id': 'opt[str]'})
# retry counters never go below zero (TaskActionTimer.__init__/next/reset; census under C02)
schema('TaskActionTimer', 'cylc.flow.task_action_timer:TaskActionTimer', fields={},
       field_inv={'num': 'v >= 0'})
schema('TaskEventsManager', 'cylc.flow.task_events_mgr:TaskEventsManager', fields={
    'timestamp': 'bool', 'reset_inactivity_timer_func': 'callable', 'spawn_func': 'callable'})

STATE_FIELDS = ['status', 'is_held', 'is_queued', 'is_runahead', 'time_updated', 'is_updated', 'kill_failed']
_ITASK_STATE = [f'itask.state.{f}' for f in STATE_FIELDS]


# ------------------------------------------------------------------ vocabulary
@spec
def retry_lined_up(t):
    return (("submission-retry" in t.try_timers and t.try_timers["submission-retry"].num > 0)
            or ("execution-retry" in t.try_timers and t.try_timers["execution-retry"].num > 0))


@spec
def ignored(t, message, flag, submit_num, forced):
    """the message must not be acted upon (property C10, sentence 1; the retry guard of C02)"""
    return (not t.transient and not forced and (
        (flag == '(received)' and submit_num != t.submit_num)
        or (t.state.status == 'waiting' and message != 'expired' and t.run_mode == 'live'
            and retry_lined_up(t))))


@spec
def outputs_same(t):
    return forall(lambda m: (m in t.state.outputs._completed) == old(m in t.state.outputs._completed)
                  and implies(m in t.state.outputs._completed,
                              t.state.outputs._completed[m] == old(t.state.outputs._completed[m])), m="str")


@spec
def state_same(t):
    return (t.state.status == old(t.state.status) and t.state.is_held == old(t.state.is_held)
            and t.state.is_queued == old(t.state.is_queued) and t.state.is_runahead == old(t.state.is_runahead))


@spec
def completed_out(o, m):
    return m in o._completed and o._completed[m]


@uninterp(sorts=('str',), result='str')
def msg_output(message):
    """the output part of a job message: 'failed/ERR' -> 'failed'"""
    return message.split('/', 1)[0]


# ------------------------------------------------------------------ small pieces
contract(S + 'is_gt',
         sorts={'self': 'TaskState', 'status': 'str', 'result': 'bool'},
         requires=['is_status(status)'],
         ensures={'lifecycle-order': 'result == (rank(self.status) > rank(status))'},
         pure=True, props=PROPS)
contract(S + 'is_gte',
         sorts={'self': 'TaskState', 'status': 'str', 'result': 'bool'},
         requires=['is_status(status)'],
         ensures={'lifecycle-order': 'result == (rank(self.status) >= rank(status))'},
         pure=True, props=PROPS)

contract('cylc.flow.task_message:split_run_signal',
         sorts={'message': 'str', 'result': 'tuple[str,opt[str]]'},
         ensures={'prefix': 'result[0] == msg_output(message)',
                  'no-signal': 'implies(result[1] is None, result[0] == message)',
                  'signal': 'implies(result[1] is not None, message == result[0] + "/" + result[1])'},
         pure=True, assumed=True, props=PROPS,
         note='message.split("/", 1): starred unpacking, outside the verified subset; checked by doctest')
contract('logging:getLevelName', sorts={'level': 'int', 'result': 'str'}, pure=True, assumed=True,
         props=PROPS, note='stdlib')
contract('cylc.flow.id:Tokens.duplicate', sorts={'self': 'Tokens', 'result': 'Tokens'},
         pure=True, fresh=True, assumed=True, props=PROPS, note='copy of an identifier (C23)')


def _noop(target, **kw):
    contract(target, assumed=True, props=PROPS,
             note='collaborator (data store / DB / event handlers / job bookkeeping): assumed not to '
                  'touch task status, outputs, flags or retry timers', **kw)


for _m in ('_db_events_insert', '_insert_task_job'):
    _noop(E + _m)
_noop('cylc.flow.workflow_db_mgr:WorkflowDatabaseManager.put_update_task_jobs')
for _m in ('delta_job_msg', 'delta_job_time', 'delta_job_state', 'delta_job_attr'):
    _noop('cylc.flow.data_store_mgr:DataStoreMgr.' + _m)
contract('cylc.flow.task_proxy:TaskProxy.set_summary_time',
         sorts={'self': 'TaskProxy', 'event_key': 'str', 'time_str': 'opt[str]'},
         ensures={'time-set':
                      'implies(event_key == "started", '
                      '(self.summary["started_time"] is None) == (time_str is None)) and '
                      'implies(event_key == "finished", '
                      '(self.summary["finished_time"] is None) == (time_str is None)) and '
                      'implies(event_key == "submitted", '
                      '(self.summary["submitted_time"] is None) == (time_str is None))',
                  'other-times-kept':
                      'implies(event_key != "started", '
                      'self.summary["started_time"] == old(self.summary["started_time"])) and '
                      'implies(event_key != "finished", '
                      'self.summary["finished_time"] == old(self.summary["finished_time"])) and '
                      'implies(event_key != "submitted", '
                      'self.summary["submitted_time"] == old(self.summary["submitted_time"]))'},
         modifies=['self.summary.started_time', 'self.summary.finished_time', 'self.summary.submitted_time'],
         assumed=True, props=PROPS,
         note='str2time() of the event time; the *_time_string entries (texts) are not modelled')
contract('cylc.flow.task_outputs:TaskOutputs.get_trigger',
         sorts={'self': 'TaskOutputs', 'message': 'str', 'result': 'str'}, pure=True, assumed=True,
         props=PROPS, note='lookup for the log text / handler name')

contract('cylc.flow.task_outputs:TaskOutputs.get_incomplete_implied',
         sorts={'self': 'TaskOutputs', 'message': 'str', 'result': 'list[str]', 'implied': 'list[str]'},
         ensures={'only-earlier-standard-outputs':
                  'forall(lambda j: implies(0 <= j and j < len(result), '
                  'result[j] == "submitted" or result[j] == "started"))',
                  'at-most-two': 'len(result) <= 2',
                  # started implies submitted; succeeded and failed imply submitted and started
                  'submitted-is-implied-unless-complete':
                      'exists(lambda j: 0 <= j and j < len(result) and result[j] == "submitted") == '
                      '((message == "succeeded" or message == "failed" or message == "started") '
                      'and not completed_out(self, "submitted"))',
                  'started-is-implied-unless-complete':
                      'exists(lambda j: 0 <= j and j < len(result) and result[j] == "started") == '
                      '((message == "succeeded" or message == "failed") '
                      'and not completed_out(self, "started"))'},
         pure=True, fresh=True, props=PROPS)

contract(E + 'spawn_children',
         sorts={'self': 'TaskEventsManager', 'itask': 'TaskProxy', 'output': 'str', 'forced': 'bool'},
         modifies=['all:[*]', 'all:TaskState.status', 'all:TaskState.is_held', 'all:TaskState.is_queued',
                   'all:TaskState.is_runahead', 'all:TaskState.is_updated', 'all:TaskState.kill_failed',
                   'all:TaskState.time_updated', 'all:TaskProxy.transient',
                   'all:TaskProxy.waiting_on_job_prep', 'all:TaskProxy.is_manual_submit',
                   'all:TaskPool.active_tasks_changed', 'all:TaskPool.tasks_removed'],
         ensures={'this-task-state-kept': 'state_same(itask)',
                  'this-task-outputs-kept': 'outputs_same(itask)'},
         assumed=True, props=PROPS,
         note='TaskPool.spawn_on_output through a callback: may add/merge OTHER tasks and remove this one '
              'from the pool (remove_if_complete); it does not change this task\'s status or outputs')

_MSG_MOD = (['all:TaskActionTimer.delay', 'all:TaskActionTimer.timeout', 'all:TaskActionTimer.num',
             'itask.job_vacated', 'itask.state.outputs._forced[*]', 'itask.tdef.elapsed_times[*]',
             'itask.summary.started_time', 'itask.summary.finished_time', 'itask.summary.submitted_time']
            + _ITASK_STATE)

contract(E + '_process_message_check',
         sorts={'self': 'TaskEventsManager', 'itask': 'TaskProxy', 'severity': 'str', 'message': 'str',
                'event_time': 'str', 'flag': 'str', 'submit_num': 'int', 'forced': 'bool', 'result': 'bool',
                'timestamp': 'str', 'severity_lvl': 'int'},
         ensures={'rejects-exactly-stale-and-overtaken-messages':
                  'result == (not ignored(itask, message, flag, submit_num, forced))'},
         pure=True, props=PROPS, options={'merge_ifs': True})

contract(E + '_process_message_started',
         sorts={'self': 'TaskEventsManager', 'itask': 'TaskProxy', 'event_time': 'str', 'forced': 'bool'},
         ensures={'running-unless-forced': 'implies(not forced, itask.state.status == "running")',
                  'forced-never-active': 'implies(forced, itask.state.status == old(itask.state.status))',
                  'outputs-untouched': 'outputs_same(itask)'},
         modifies=_MSG_MOD, props=PROPS)

contract(E + '_process_message_succeeded',
         sorts={'self': 'TaskEventsManager', 'itask': 'TaskProxy', 'event_time': 'str', 'forced': 'bool'},
         ensures={'succeeded': 'itask.state.status == "succeeded"',
                  'outputs-untouched': 'outputs_same(itask)'},
         modifies=_MSG_MOD, props=PROPS)

contract(E + '_process_message_expired',
         sorts={'self': 'TaskEventsManager', 'itask': 'TaskProxy', 'event_time': 'str', 'forced': 'bool'},
         ensures={'expired': 'itask.state.status == "expired"',
                  'never-queued': 'not itask.state.is_queued and not itask.state.is_runahead',
                  'outputs-untouched': 'outputs_same(itask)'},
         modifies=_MSG_MOD, props=PROPS)

contract(E + '_process_message_submitted',
         sorts={'self': 'TaskEventsManager', 'itask': 'TaskProxy', 'event_time': 'str'},
         ensures={'only-preparing-advances':
                  'itask.state.status == ("submitted" if old(itask.state.status) == "preparing" '
                  'else old(itask.state.status))',
                  'outputs-untouched': 'outputs_same(itask)'},
         modifies=_MSG_MOD, props=PROPS)


# ------------------------------------------------------------------ the dispatcher
@spec
def sn_of(t, submit_num):
    return t.submit_num if submit_num is None else submit_num


_PM_MOD = ['all:[*]', 'all:TaskState.status', 'all:TaskState.is_held', 'all:TaskState.is_queued',
           'all:TaskState.is_runahead', 'all:TaskState.is_updated', 'all:TaskState.kill_failed',
           'all:TaskState.time_updated', 'all:TaskProxy.transient', 'all:TaskProxy.submit_num',
           'all:TaskProxy.waiting_on_job_prep', 'all:TaskProxy.is_manual_submit',
           'all:TaskProxy.job_vacated', 'all:RecSummary.started_time', 'all:RecSummary.finished_time',
           'all:RecSummary.submitted_time',
           'all:TaskActionTimer.delay', 'all:TaskActionTimer.timeout', 'all:TaskActionTimer.num',
           'all:TaskPool.active_tasks_changed', 'all:TaskPool.tasks_removed']

_BACKWARD = {
    # "a received message that would move a task's status backwards triggers a poll instead of a
    # state change": the state-changing handler is never reached with such a message
    '_process_message_started': [
        'not (flag == "(received)" and rank(itask.state.status) > rank("running"))'],
    '_process_message_failed': [
        'not (flag == "(received)" and rank(itask.state.status) > rank("failed"))'],
    '_process_message_submit_failed': [
        'not (flag == "(received)" and rank(itask.state.status) > rank("submit-failed"))'],
    '_process_message_submitted': [
        'not (flag == "(received)" and rank(itask.state.status) >= rank("submitted"))',
        'not forced'],
    # C02: children of failed / submit-failed are spawned only when no retry remains (the handler
    # then left the task in that final state); C09: children of a standard output are spawned only
    # when the task is in the matching state (or the output was set by hand)
    # C09: "whenever succeeded or failed is complete, submitted and started are complete too": the
    # implied earlier outputs are looked up for the OUTPUT the message completes (the message with
    # its signal stripped, "failed" for an abort), and every one of them is then processed
    'get_incomplete_implied': [
        'a_message == ("failed" if (run_signal is not None and msg_output(message) == "aborted") '
        'else msg_output(message))'],
    'spawn_children': [
        'implies(a_output == "failed", forced or itask.state.status == "failed")',
        'implies(a_output == "submit-failed", forced or itask.state.status == "submit-failed")',
        'implies(a_output == "succeeded" and message == "succeeded", itask.state.status == "succeeded")',
        'implies(a_output == "expired" and message == "expired", itask.state.status == "expired")',
        'a_forced == forced and a_itask is itask'],
}

for _v, _sev in (('int', 'int'), ('str', 'str')):
    contract(E + 'process_message', variant=_v,
             sorts={'self': 'TaskEventsManager', 'itask': 'TaskProxy', 'severity': _sev, 'message': 'str',
                    'event_time': 'opt[str]', 'flag': 'str', 'submit_num': 'opt[int]', 'forced': 'bool',
                    'result': 'bool', 'lseverity': 'str', 'task_output': 'str', 'run_signal': 'opt[str]',
                    'job_aborted': 'bool', 'output_completed': 'opt[bool]', 'msg': 'str', 'trigger': 'str',
                    'implied': 'str'},
             requires=['implies(message == "expired" and not forced, expirable(itask))'],
             ensures={
                 'ignored-messages-change-nothing':
                     'implies(old(ignored(itask, message, flag, sn_of(itask, submit_num), forced)), '
                     'not result and state_same(itask) and outputs_same(itask))',
                 'outputs-are-monotone': 'outputs_monotone(itask)',
                 'a-poll-only-answers-a-received-message': 'implies(result, flag == "(received)")',
                 'back-to-waiting-only-by-retry':
                     'implies(itask.state.status == "waiting" and old(itask.state.status) != "waiting", '
                     'not (message == "submitted" or message == "started" or message == "succeeded" '
                     'or message == "expired"))',
             },
             loops={0: dict(invariant=[
                 'outputs_monotone(itask)',
                 'implies(itask.state.status == "waiting", old(itask.state.status) == "waiting")'],
                 modifies=['all:heap[*]'] + _PM_MOD[1:])},
             callsite=_BACKWARD,
             modifies=_PM_MOD, props=PROPS, options={'weight': 30, 'merge_ifs': True},
             tier='quick' if _v == 'int' else 'thorough')
