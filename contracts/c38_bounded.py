"""C38 - `cylc clean` deletes only inside the workflow.  BOUNDED stand-in, not a proof.

init_clean / clean / _clean_using_glob / glob_in_run_dir and pathutil.parse_rm_dirs / remove_dir_and_target /
remove_dir_or_file are file-system code (glob.iglob with ** recursion, os.readlink, realpath, shutil.rmtree,
symlink tests on pathlib objects): a proof would be relative to a file-system model that re-states exactly these
calls.  The contract is therefore checked at run time: the REAL init_clean (local part: --local-only, which runs
parse_rm_dirs and then clean) is run on generated directory trees in a scratch HOME, with a full snapshot
(every path below the scratch root: type, link target, sha1 of file contents) taken before and after, and compared
with an INDEPENDENT oracle (own logical tree walk + own glob matcher, written from the property text).

Vocabulary: "standard symlink dirs" of a workflow are the run dir itself, log, log/job, share, share/cycle, work
when they are symlinks to <somewhere>/cylc-run/<id>/<dir>.  Every other symlink is "non-standard".

Contract clauses (one result record each):
  (1) containment: every path that existed before and is gone afterwards was inside the run directory or inside
      the target of one of ITS standard symlink dirs (descending only through real directories and standard
      symlink dirs); everything else below the scratch root - canary trees, targets of non-standard symlinks,
      sibling workflows, the same-named areas of sibling workflows on the symlink file systems - is byte-for-byte
      unchanged and nothing new appears there.  Housekeeping allowance (documented behaviour of cylc clean,
      outside the letter of the property, kept as tight as possible): the `runN` link of the cleaned run when the
      run is gone, `_cylc-install` when nothing else is left beside it, and EMPTY ancestor directories between
      `cylc-run/` and the run dir / a standard symlink target (emptiness is implied: all their former content
      must itself be a permitted removal).
  (2) non-standard symlinks are never followed: with --rm, every removed path is a path matched by the pattern
      under the most generous reading of glob semantics (wildcards may match dot files, `x/**` may match x itself,
      a trailing slash may match a link to a directory) or lies physically below one (again descending only
      through real directories and standard symlink dirs) - so the target of a non-standard link survives unless
      it is matched in its own right; the link itself may go.
  (3) completeness: every path matched by an accepted pattern under strict shell-glob semantics relative to the
      run dir (wildcards do not match dot files, no traversal of non-standard links, trailing slash = real
      directories only) is gone together with everything physically below it, including the targets of standard
      symlink dirs below it; with no --rm the run dir, everything in it and the targets of all its standard
      symlink dirs are gone.
  (4) rejection: a --rm list containing an absolute path or a part that lexically normalises to `.`, `..` or
      `../...` is refused with an error and NOTHING below the scratch root changes.
  (5) the two primitives called directly on every path of one rich tree: remove_dir_or_file(p) removes exactly p
      and what is physically below it (never a link target); remove_dir_and_target(p) removes exactly p, what is
      physically below it and, if p is a symlink to a directory, the tree of its resolved target - and refuses
      non-directories without changing anything.

Not exercised: remote clean (ssh), the workflow database / platform lookup, a running scheduler's contact file,
permission errors, NFS retry, concurrent modification, symlink cycles that make `**` globbing branch (a link to
the parent of a numbered run: python's recursive glob follows it exponentially - excluded, see rule)."""
import fnmatch
import hashlib
import itertools
import os
import posixpath
import shutil
import tempfile

STD_DIRS = ('', 'log', 'log/job', 'share', 'share/cycle', 'work')
BASE = {'': 'e_run', 'log': 'e_log', 'log/job': 'e_job', 'share': 'e_share', 'share/cycle': 'e_cycle',
        'work': 'e_work'}

# name -> (standard dirs that are symlinks, those whose target is missing, work is a link to the wrong place)
CONFIGS = {
    'none': ((), (), False),
    'share': (('share',), (), False),
    'cycle': (('share/cycle',), (), False),
    'share+cycle': (('share', 'share/cycle'), (), False),
    'log': (('log',), (), False),
    'job': (('log/job',), (), False),
    'log+job': (('log', 'log/job'), (), False),
    'work': (('work',), (), False),
    'run': (('',), (), False),
    'run+share+cycle': (('', 'share', 'share/cycle'), (), False),
    'all5': (('log', 'log/job', 'share', 'share/cycle', 'work'), (), False),
    'all6': (STD_DIRS, (), False),
    'brokenshare': (('share', 'work'), ('share',), False),
    'badwork': (('share',), (), True),
}
QUICK_CONFIGS = ('none', 'cycle', 'share+cycle', 'log+job', 'run', 'all6', 'brokenshare', 'badwork')
# every subset of the six standard dirs (thorough tier, with all hazard groups)
SUBSETS = {'set:' + ','.join(d or 'run' for d in s): (s, (), False)
           for n in range(len(STD_DIRS) + 1) for s in itertools.combinations(STD_DIRS, n)}
ALL_CONFIGS = dict(CONFIGS, **SUBSETS)

ACCEPT = [
    None,                                   # wholesale clean
    ['share'], ['share/cycle'], ['share/cycle/'], ['work/*'], ['*.txt'], ['**/*.txt'], ['*'], ['**'],
    ['log/job'], ['log/**'], ['lnk*'], ['lnk_cdir/*'], ['lnk_cdir/'], ['*/lnk_cdir'], ['**/lnk_*'],
    ['sub/deep/f.txt'], ['sub/*/*.dat'], ['lnk_parent/sib'], ['lnk_sib/share'], ['share/lnk_cdir/sub'],
    ['lnk_in/x.txt'], ['work:share/cycle'], ['log', 'work/1'], ['[.][.]/sib'], ['.service'], ['.*'],
    ['nonexistent'], ['lnk_broken'], ['sub/deep/../x.txt'], ['*/'], ['share/./data.txt'],
    ['$HOME/precious.txt'], ['~/precious.txt'], ['work/1/lnk_home/keep.txt'], ['sub/lnk_deep'],
    ['**/cycle'], ['*/*/lnk*'],
]
REJECT = [
    ['@ABS@'], ['..'], ['../sib'], ['.'], ['share/../..'], ['*/../..'], ['share:../sib'], ['./'],
    [' ../sib '], ['share/../../sib'], ['work', '@ABS@'], ['lnk_cdir/..'],
]


# ------------------------------------------------------------------------------------------------- tree

def _plan(R, sc):
    """the scratch world of scenario sc as an ordered manifest {absolute PHYSICAL path: ('d',) | ('f', text) |
    ('l', target)} (parents before children), and the absolute (logical) run dir"""
    wid = sc['id']
    cfg, broken, badwork = ALL_CONFIGS[sc['cfg']]
    haz = sc['haz']
    top = wid.split('/')[0]
    J = os.path.join
    M = {}

    def mkdir(p):
        if p == R or p in M:
            return
        mkdir(os.path.dirname(p))
        M[p] = ('d',)

    def put(p, text):
        mkdir(os.path.dirname(p))
        M[p] = ('f', text)

    def link(p, target):
        mkdir(os.path.dirname(p))
        M[p] = ('l', target)

    put(J(R, 'home', 'precious.txt'), 'precious')
    put(J(R, 'home', 'precious_dir', 'keep.txt'), 'keep me')
    put(J(R, 'home', 'cylc-run', 'top.txt'), 'top')
    put(J(R, 'home', 'cylc-run', 'sib', 'flow.cylc'), 'sibling')
    put(J(R, 'home', 'cylc-run', 'sib', 'share', 'data.txt'), 'sibling share')
    put(J(R, 'home', 'cylc-run', 'sib', 'work', 'w.txt'), 'sibling work')
    put(J(R, 'canary', 'data.txt'), 'canary data')
    put(J(R, 'canary', 'dir', 'a.txt'), 'canary a')
    put(J(R, 'canary', 'dir', 'sub', 'b.txt'), 'canary b')
    put(J(R, 'canary', 'src', 'flow.cylc'), 'source')
    put(J(R, 'canary', 'wk', 'x.txt'), 'not a work dir')
    mkdir(J(R, 'conf'))
    for rel, base in BASE.items():
        if rel in cfg or rel == 'log/job':
            put(J(R, base, 'other', 'data.txt'), 'other data on ' + base)
            if rel != 'work':           # (on e_work this workflow is alone in cylc-run/, which must still survive)
                put(J(R, base, 'cylc-run', 'sib', rel or 'x', 's.txt'), 'sibling on ' + base)

    run = J(R, 'home', 'cylc-run', wid)
    no_content = set(broken) | ({'work'} if badwork else set())
    std_target = {}                     # standard dir (logical) -> physical directory holding its content

    def blocked(rel):
        parts = rel.split('/')
        return any('/'.join(parts[:i]) in no_content for i in range(1, len(parts)))

    def phys(rel):
        """physical path of the logical run-dir path rel (last component not resolved)"""
        parts = rel.split('/')
        cur = std_target.get('', run)
        for i, comp in enumerate(parts):
            pre = '/'.join(parts[:i + 1])
            if i < len(parts) - 1 and pre in std_target:
                cur = std_target[pre]
            else:
                cur = J(cur, comp)
        return cur

    if '' in cfg:
        target = J(R, BASE[''], 'cylc-run', wid)
        mkdir(target)
        std_target[''] = target
        link(run, target)
    else:
        mkdir(run)
    for rel in STD_DIRS[1:]:                     # shallow before deep
        if blocked(rel):
            continue
        if rel in cfg:
            target = J(R, BASE[rel], 'cylc-run', wid, rel)
            if rel not in broken:
                mkdir(target)
                std_target[rel] = target
            link(phys(rel), target)
        elif rel == 'work' and badwork:
            link(phys(rel), J(R, 'canary', 'wk'))
        else:
            mkdir(phys(rel))

    def w(rel, text):
        if not blocked(rel):
            put(phys(rel), text)

    def ln(rel, target):
        if not blocked(rel):
            link(phys(rel), target)

    w('flow.cylc', '[scheduling]')
    w('notes.txt', 'notes')
    w('.hidden.txt', 'hidden')
    w('.service/db', 'not really a database')
    w('log/scheduler/log', 'scheduler log')
    w('log/job/1/a/01/job.out', 'job out')
    ln('log/job/1/a/NN', '01')                    # cylc's own relative link inside the job log dir
    w('share/data.txt', 'share data')
    w('share/bin/tool', '#!/bin/sh')
    w('share/cycle/1/out.txt', 'cycle out')
    w('work/1/a/file.txt', 'work file')
    w('work/1/a/tmp.dat', 'work tmp')
    w('sub/x.txt', 'sub x')
    w('sub/deep/f.txt', 'deep f')
    w('sub/deep/g.dat', 'deep g')
    if 'top' in haz:
        ln('lnk_cfile', J(R, 'canary', 'data.txt'))
        ln('lnk_txt.txt', J(R, 'canary', 'data.txt'))
        ln('lnk_cdir', J(R, 'canary', 'dir'))
        ln('lnk_broken', J(R, 'nowhere', 'at', 'all'))
        ln('lnk_loop', 'lnk_loop')
        ln('lnk_sib', J(R, 'home', 'cylc-run', 'sib'))
        ln('lnk_in', 'sub')
    if 'parent' in haz:
        # a way back in: python's recursive glob follows it ~40 levels deep (slow, hence its own group; flat id
        # only: for a numbered run the parent holds run1 AND runN -> run1 and the two ways back in make the
        # recursive glob exponential - excluded from the bound)
        ln('lnk_parent', J(R, 'home', 'cylc-run'))
    if 'std' in haz:
        ln('share/lnk_cdir', J(R, 'canary', 'dir'))
        ln('share/lnk.txt', J(R, 'canary', 'data.txt'))
        ln('share/cycle/lnk_sib', J(R, 'home', 'cylc-run', 'sib', 'share'))
        ln('work/lnk_cdir', J(R, 'canary', 'dir'))
        ln('work/1/lnk_home', J(R, 'home', 'precious_dir'))
        ln('log/job/lnk_cdir', J(R, 'canary', 'dir'))
        ln('log/lnk_broken', '/nonexistent/verif_c38')
        ln('log/job/lnk_other', J(R, BASE['log/job'], 'other'))
    if 'deep' in haz:
        ln('sub/deep/lnk_cdir', J(R, 'canary', 'dir'))
        ln('sub/deep/lnk_g', 'g.dat')
        ln('sub/lnk_deep', 'deep')
        ln('sub/lnk_cfile.dat', J(R, 'canary', 'data.txt'))
    if '/' in wid:
        parent = os.path.dirname(run)
        link(J(parent, 'runN'), os.path.basename(run))
        link(J(parent, '_cylc-install', 'source'), J(R, 'canary', 'src'))
        if sc['anc']:
            put(J(parent, 'other.txt'), 'something else in the workflow name dir')
    if sc['anc']:
        for rel in cfg:
            if rel == '' and '/' not in wid:
                continue                        # that directory IS the run dir target
            put(J(R, BASE[rel], 'cylc-run', top, 'keep.txt'), 'beside the symlink target')
    return M, run


def _materialise(M):
    """create whatever of the manifest is missing (manifest order: parents first)"""
    for p, e in M.items():
        if os.path.lexists(p):
            continue
        if e[0] == 'd':
            os.mkdir(p)
        elif e[0] == 'l':
            os.symlink(e[1], p)
        else:
            with open(p, 'w') as f:
                f.write(e[1])


def _snap(R):
    """{path relative to R: ('d',) | ('f', sha1) | ('l', target)} for everything below R, no link followed"""
    out = {}
    stack = [R]
    cut = len(R) + 1
    while stack:
        d = stack.pop()
        with os.scandir(d) as it:
            entries = list(it)
        for e in entries:
            rel = e.path[cut:]
            if e.is_symlink():
                out[rel] = ('l', os.readlink(e.path))
            elif e.is_dir(follow_symlinks=False):
                out[rel] = ('d',)
                stack.append(e.path)
            else:
                with open(e.path, 'rb') as f:
                    out[rel] = ('f', hashlib.sha1(f.read()).hexdigest())
    return out


class _World:
    """one scenario tree on disk; restored to its pristine state (verified by snapshot) between cleans"""

    def __init__(self, R, sc):
        self.R, self.sc = R, sc
        self.M, self.run = _plan(R, sc)
        self.pristine = None
        self.fresh()

    def fresh(self):
        shutil.rmtree(self.R, ignore_errors=True)
        os.makedirs(self.R)
        _materialise(self.M)
        snap = _snap(self.R)
        want = {p[len(self.R) + 1:]: (e if e[0] != 'f' else ('f', hashlib.sha1(e[1].encode()).hexdigest()))
                for p, e in self.M.items()}
        if snap != want:
            raise RuntimeError('scratch tree does not equal its manifest')
        self.pristine = snap

    def restore(self, current):
        """bring the tree back to pristine given the snapshot `current` of what is there now"""
        if current == self.pristine:
            return
        if set(current) <= set(self.pristine) and all(current[q] == self.pristine[q] for q in current):
            _materialise(self.M)               # only deletions: re-create what is missing
            if _snap(self.R) == self.pristine:
                return
        self.fresh()

    def close(self):
        shutil.rmtree(self.R, ignore_errors=True)


# ----------------------------------------------------------------------------------------------- oracle

def _kind(rel, phys, std):
    if os.path.islink(phys):
        return 'S' if rel in std else 'l'
    return 'd' if os.path.isdir(phys) else 'f'


def _kids(node, std):
    """logical children of a node: real directories and standard symlink dirs are entered, nothing else"""
    rel, phys, kind = node
    if kind not in 'dS':
        return []
    d = phys if kind == 'd' else os.path.realpath(phys)
    if not os.path.isdir(d):
        return []
    out = []
    for n in sorted(os.listdir(d)):
        r = n if rel == '' else rel + '/' + n
        p = os.path.join(d, n)
        out.append((r, p, _kind(r, p, std)))
    return out


def _closure(node, std, acc):
    """physical paths that go when this logical node is deleted without following non-standard links"""
    acc.add(node[1])
    if node[2] == 'S':
        t = os.path.realpath(node[1])
        if os.path.lexists(t):
            acc.add(t)
    for k in _kids(node, std):
        _closure(k, std, acc)


def _parts(patterns):
    out = []
    for item in patterns:
        for part in item.split(':'):
            part = part.strip()
            if part:
                out.append(part)
    return out


def _must_reject(patterns):
    for part in _parts(patterns):
        n = posixpath.normpath(part)
        if posixpath.isabs(n) or n in ('.', '..') or n.startswith('../'):
            return True
    return False


def _match(root, pattern, std, lenient):
    """own glob: nodes (below the run dir) matched by one pattern; strict = shell semantics (lower bound of
    what must go), lenient = most generous reading (upper bound of what may go)"""
    dir_only = pattern.endswith('/')
    segs = posixpath.normpath(pattern).split('/')
    hits = {}

    def hit(k):
        if dir_only:
            if lenient:
                ok = k[2] != 'f'
            else:
                ok = k[2] == 'd' or (k[2] == 'S' and os.path.isdir(os.path.realpath(k[1])))
            if not ok:
                return
        hits[k[1]] = k

    def rec(node, segs):
        seg, rest = segs[0], segs[1:]
        kids = _kids(node, std)
        if seg == '**':
            if rest:
                rec(node, rest)
            elif lenient:
                hit(node)
            for k in kids:
                name = k[0].rsplit('/', 1)[-1]
                if name.startswith('.') and not lenient:
                    continue
                if not rest:
                    hit(k)
                if k[2] in 'dS':
                    rec(k, segs)
        else:
            for k in kids:
                name = k[0].rsplit('/', 1)[-1]
                if not fnmatch.fnmatchcase(name, seg):
                    continue
                if name.startswith('.') and not seg.startswith('.') and not lenient:
                    continue
                if rest:
                    if k[2] in 'dS':
                        rec(k, rest)
                else:
                    hit(k)

    rec(root, segs)
    return list(hits.values())


# --------------------------------------------------------------------------------------------- scenario

def _short(paths, n=6):
    paths = sorted(paths)
    return paths[:n] + (['... %d more' % (len(paths) - n)] if len(paths) > n else [])


def _scenario(world, pats, loop):
    """(pristine tree on disk) oracle, real clean, snapshot, judge, restore.
    Returns dict(problems={clause: [...]}, ...)"""
    from optparse import Values
    from cylc.flow.clean import init_clean
    from cylc.flow.exceptions import InputError, WorkflowFilesError
    R, sc, run = world.R, world.sc, world.run
    os.environ['HOME'] = os.path.join(R, 'home')
    os.environ['CYLC_CONF_PATH'] = os.path.join(R, 'conf')
    if pats is not None:
        pats = [p.replace('@ABS@', os.path.join(R, 'canary', 'dir')) for p in pats]
    cfg, _broken, badwork = ALL_CONFIGS[sc['cfg']]
    std = set(cfg)
    wid = sc['id']
    before = world.pristine
    cut = len(R) + 1
    rp = lambda p: p[cut:]  # noqa: E731
    root = ('', run, 'S' if '' in std else 'd')
    area = set()
    _closure(root, std, area)
    area = {rp(p) for p in area}
    reject = pats is not None and _must_reject(pats)
    must = may = None
    if pats is None:
        must, may = set(area), set(area)
    elif not reject:
        must, may = set(), set()
        for part in _parts(pats):
            for m in _match(root, part, std, False):
                _closure(m, std, must)
            for m in _match(root, part, std, True):
                _closure(m, std, may)
        must, may = {rp(p) for p in must}, {rp(p) for p in may}
    # housekeeping allowance
    parent = os.path.dirname(run)
    house_dirs = set()
    p = parent
    for _ in range(len(wid.split('/')) - 1):
        house_dirs.add(rp(p))
        p = os.path.dirname(p)
    for rel in std:
        t = os.path.join(R, BASE[rel], 'cylc-run', wid, rel) if rel else os.path.join(R, BASE[''], 'cylc-run', wid)
        p = os.path.dirname(t)
        for _ in range(len(wid.split('/')) + (len(rel.split('/')) if rel else 0) - 1):
            house_dirs.add(rp(p))
            p = os.path.dirname(p)
    run_n = rp(os.path.join(parent, 'runN'))
    inst = rp(os.path.join(parent, '_cylc-install'))
    has_run_n = '/' in wid and before.get(run_n) == ('l', os.path.basename(run))

    opts = Values(dict(rm_dirs=pats, local_only=True, remote_only=False, no_scan=False, remote_timeout='120',
                       force=False, skip_interactive=True))
    exc = None
    try:
        loop.run_until_complete(init_clean(wid, opts))
    except Exception as e:  # noqa: BLE001 (judged below)
        exc = e
    after = _snap(R)
    world.restore(after)

    removed = set(before) - set(after)
    added = set(after) - set(before)
    changed = {q for q in before if q in after and before[q] != after[q]}
    prob = {1: [], 2: [], 3: [], 4: []}
    res = dict(problems=prob, removed=len(removed), must=len(must or ()), refused=False,
               exc=(type(exc).__name__ + ': ' + str(exc)[:120]) if exc else None, rejected=reject,
               patterns=pats)
    untouched = not (removed or added or changed)
    if reject:
        if exc is None:
            prob[4].append(dict(observed='pattern list accepted', demanded='refused with an error'))
        elif not isinstance(exc, InputError):
            prob[4].append(dict(observed='raised ' + res['exc'], demanded='InputError'))
        if not untouched:
            prob[4].append(dict(observed=dict(removed=_short(removed), added=_short(added),
                                              changed=_short(changed)),
                                demanded='nothing changes when the pattern list is refused'))
        return res
    if exc is not None and untouched and (
            isinstance(exc, InputError) or (badwork and isinstance(exc, WorkflowFilesError))):
        res['refused'] = True
        res['expected_refusal'] = badwork and isinstance(exc, WorkflowFilesError)
        return res

    # (1) containment
    def in_house(q):
        if q == run_n:
            return has_run_n and rp(run) not in after
        if q == inst or q.startswith(inst + '/'):
            par = rp(parent)
            left = [x for x in after if x.startswith(par + '/') and x != inst and not x.startswith(inst + '/')]
            return '/' in wid and not left
        return q in house_dirs and before[q] == ('d',)
    out1 = [q for q in removed if q not in area and not in_house(q)]
    if out1:
        prob[1].append(dict(observed='removed outside the workflow: %s' % _short(out1),
                            demanded='only paths in the run dir / targets of its standard symlink dirs go'))
    if changed:
        prob[1].append(dict(observed='content or type changed: %s' % _short(changed),
                            demanded='surviving paths are byte-for-byte untouched'))
    new_out = [q for q in added if q not in area]
    if new_out:
        prob[1].append(dict(observed='new paths outside the workflow: %s' % _short(new_out),
                            demanded='nothing appears outside the workflow'))
    # (2) no following of non-standard links (targeted clean)
    if pats is not None:
        out2 = [q for q in removed if q not in may and not in_house(q)]
        if out2:
            prob[2].append(dict(
                observed='removed although neither matched nor physically below a match: %s' % _short(out2),
                demanded='only matched paths and what lies below them without following non-standard '
                         'links may go'))
    # (3) completeness
    left = [q for q in must if q in after]
    if left:
        prob[3].append(dict(observed='still there: %s' % _short(left),
                            demanded='every matched path (and everything below it) is gone'))
    if exc is not None:
        prob[3].append(dict(observed='clean raised ' + res['exc'], demanded='clean completes'))
    return res


def _primitives(T):
    """clause 5: remove_dir_or_file / remove_dir_and_target on every path of one rich tree"""
    from cylc.flow.pathutil import remove_dir_and_target, remove_dir_or_file
    R = os.path.join(T, 'p')
    sc = dict(id='wf/run1', cfg='all5', haz=('top', 'std', 'deep'), anc=True)
    world = _World(R, sc)
    try:
        before = world.pristine
        runrel = world.run[len(R) + 1:]
        targets = sorted(q for q in before if q.startswith(runrel) or q.split('/')[0] in ('e_share', 'e_cycle'))
        n, bad, kinds = 0, [], set()
        for q in targets:
            for fn in (remove_dir_or_file, remove_dir_and_target):
                p = os.path.join(R, q)
                below = {x for x in before if x == q or x.startswith(q + '/')}
                kind = before[q][0]
                is_dirlink = kind == 'l' and os.path.isdir(p)
                expect_exc = False
                if fn is remove_dir_or_file or kind == 'd':
                    expect = below
                elif is_dirlink:
                    t = os.path.realpath(p)[len(R) + 1:]
                    expect = {q} | {x for x in before if x == t or x.startswith(t + '/')}
                elif kind == 'l' and not os.path.exists(p):
                    expect = {q}
                else:
                    expect, expect_exc = set(), True
                exc = None
                try:
                    fn(p)
                except Exception as e:  # noqa: BLE001
                    exc = e
                after = _snap(R)
                world.restore(after)
                removed = set(before) - set(after)
                changed = {x for x in before if x in after and before[x] != after[x]}
                n += 1
                kinds.add((fn.__name__, kind, is_dirlink))
                if (removed != expect or changed or set(after) - set(before)
                        or (exc is not None) != expect_exc) and len(bad) < 12:
                    bad.append(dict(call='%s(<root>/%s)' % (fn.__name__, q), path_type=before[q],
                                    observed=dict(removed_unexpectedly=_short(removed - expect),
                                                  not_removed=_short(expect - removed), changed=_short(changed),
                                                  raised=repr(exc)[:120] if exc else None),
                                    demanded='removes exactly the path, what is physically below it'
                                             + (' and the resolved target tree' if is_dirlink and fn is
                                                remove_dir_and_target else '')
                                             + ('; refuses a non-directory' if expect_exc else '')))
        return n, bad, len(targets), len(kinds)
    finally:
        world.close()


# ------------------------------------------------------------------------------------------------ check

def _worlds(tier):
    ids = ('wf', 'wf/run1')
    groups = ('top', 'std', 'deep')
    if tier == 'quick':
        cfgs = QUICK_CONFIGS
        hazs = [(), groups, ('top',), ('std', 'deep')]
        ancs = lambda cfg, haz: (cfg in ('all6', 'share+cycle') and haz == groups,)  # noqa: E731
    else:
        cfgs = tuple(CONFIGS)
        hazs = [tuple(g for g, on in zip(groups, bits) if on) for bits in itertools.product((0, 1), repeat=3)]
        ancs = lambda cfg, haz: (False, True)  # noqa: E731
    for wid, cfg, haz in itertools.product(ids, cfgs, hazs):
        for anc in ancs(cfg, haz):
            yield dict(id=wid, cfg=cfg, haz=haz, anc=anc)
    # the link to the cylc-run parent (flat id only)
    for cfg in (('none', 'run', 'all6') if tier == 'quick' else cfgs):
        for haz in ([groups] if tier == 'quick' else [h for h in hazs if 'top' in h]):
            yield dict(id='wf', cfg=cfg, haz=haz + ('parent',), anc=False)
    if tier != 'quick':
        for wid, cfg in itertools.product(ids, SUBSETS):
            yield dict(id=wid, cfg=cfg, haz=groups, anc=False)


def check(tier='quick', seed=0):
    import asyncio
    import logging
    T = os.path.realpath(tempfile.mkdtemp(prefix='verif_c38_', dir='/var/tmp'))
    saved_env = {k: os.environ.get(k) for k in ('HOME', 'CYLC_CONF_PATH', 'PYTHONUNBUFFERED')}
    cwd = os.getcwd()
    log = logging.getLogger('cylc')
    saved_level = log.level
    saved_handlers = list(log.handlers)
    loop = asyncio.new_event_loop()
    names = {
        1: 'bounded::cylc clean removes only paths inside the run directory or inside the targets of its standard '
           'symlink dirs; everything else in the scratch world is byte-for-byte unchanged',
        2: 'bounded::cylc clean --rm never follows a non-standard symlink: whatever goes is a matched path or lies '
           'physically below one',
        3: 'bounded::cylc clean removes every path the accepted --rm pattern matches (no --rm: the whole run dir '
           'and the targets of its standard symlink dirs)',
        4: 'bounded::--rm lists with an absolute path or a part pointing at the run dir or above are refused and '
           'nothing changes',
        5: 'bounded::remove_dir_or_file / remove_dir_and_target remove exactly the path, what is physically below '
           'it and (the latter, for a link to a directory) the resolved target tree',
    }
    n_eval = {1: 0, 2: 0, 3: 0, 4: 0}
    bad = {1: [], 2: [], 3: [], 4: []}
    samples = {1: [], 2: [], 3: [], 4: []}
    distinct = {1: set(), 2: set(), 3: set(), 4: set()}
    intended = executed = harness_err = effective = nonvac3 = unexpected_refusals = expected_refusals = 0
    harness_msgs = []
    n5, bad5, paths5, kinds5 = 0, [], 0, 0
    try:
        log.setLevel(logging.CRITICAL)
        i = 0
        for sc in _worlds(tier):
            requests = ACCEPT + REJECT
            try:
                # (glob metacharacters in the path of the run dir: they must be taken literally)
                world = _World(os.path.join(T, 'r[o]ot*'), sc)
            except Exception as e:  # noqa: BLE001
                intended += len(requests)
                harness_err += len(requests)
                if len(harness_msgs) < 3:
                    harness_msgs.append('%s: %r' % (sc, e))
                continue
            try:
                for pats in requests:
                    i += 1
                    intended += 1
                    label = dict(workflow_id=sc['id'], standard_symlinks=sc['cfg'], hazard_groups=list(sc['haz']),
                                 ancestor_canaries=sc['anc'], rm=pats)
                    try:
                        res = _scenario(world, pats, loop)
                    except Exception as e:  # noqa: BLE001  harness failure, not a verdict
                        harness_err += 1
                        if len(harness_msgs) < 3:
                            harness_msgs.append('%s: %r' % (label, e))
                        world.fresh()
                        continue
                    executed += 1
                    label['rm'] = res['patterns']
                    key = str(sorted(label.items()))
                    if res['rejected']:
                        clauses = (4,)
                    elif res['refused']:
                        clauses = (1,)
                        if res.get('expected_refusal'):
                            expected_refusals += 1
                        else:
                            unexpected_refusals += 1
                            if len(harness_msgs) < 3:
                                harness_msgs.append('refused an acceptable request %s: %s' % (label, res['exc']))
                    else:
                        clauses = (1, 3) if pats is None else (1, 2, 3)
                        if res['removed']:
                            effective += 1
                        if res['must']:
                            nonvac3 += 1
                    for c in clauses:
                        n_eval[c] += 1
                        distinct[c].add(key)
                        if res['problems'][c]:
                            if len(bad[c]) < 12:
                                bad[c].append(dict(
                                    scenario=label, problems=res['problems'][c],
                                    how='materialise contracts/c38_bounded._plan(root, scenario) in a scratch '
                                        'HOME, then init_clean(id, opts(local_only=True, rm_dirs=rm))'))
                        elif len(samples[c]) < 3 and (i % 37 == 5 or c == 4) and (res['removed'] or c == 4):
                            samples[c].append(dict(label, paths_removed=res['removed'],
                                                   paths_demanded_gone=res['must']))
            finally:
                world.close()
        n5, bad5, paths5, kinds5 = _primitives(T)
    finally:
        loop.close()
        for k, v in saved_env.items():
            if v is None:
                os.environ.pop(k, None)
            else:
                os.environ[k] = v
        os.chdir(cwd)
        log.setLevel(saved_level)
        for h in list(log.handlers):
            if h not in saved_handlers:
                log.removeHandler(h)
        try:
            from cylc.flow.cfgspec.glbl_cfg import glbl_cfg
            glbl_cfg(reload=True)
        except Exception:  # noqa: BLE001
            pass
        shutil.rmtree(T, ignore_errors=True)

    n_cfg = len(QUICK_CONFIGS) if tier == 'quick' else len(CONFIGS)
    rule = (
        f'tier {tier}: every combination of workflow id (wf | wf/run1 with runN and _cylc-install/source -> canary) '
        f'x {n_cfg} standard-symlink configurations ({", ".join(QUICK_CONFIGS if tier == "quick" else CONFIGS)}; '
        'targets <fs>/cylc-run/<id>/<dir> on six separate scratch areas, one with a missing target, one with `work` '
        'linked to a wrong place) x '
        + ('4 hazard choices (none, all, top, std+deep)' if tier == 'quick' else 'all 8 subsets of hazard groups')
        + ' (top: links in the run dir to a canary file/dir, broken, self-loop, sibling workflow, a dir inside; '
        'std: links inside share, share/cycle, work, log, log/job to canaries, sibling, HOME dir, other data on '
        'the target fs; deep: links in plain sub dirs) x '
        + ('ancestor canaries on for two configurations' if tier == 'quick' else 'ancestor canaries off/on')
        + ', plus a link from the run dir to the ~/cylc-run parent (flat id only) '
        + ('for configurations none, run, all6 with all hazard groups' if tier == 'quick'
           else 'for every configuration x the 4 hazard subsets containing top; plus both ids x all 64 subsets of '
                'the six standard dirs as symlinks with all hazard groups')
        + f' x {len(ACCEPT)} accepted requests (no --rm, names, *, **, nested, trailing slash, colon lists, '
        f'patterns through links, dot patterns, $HOME, ~) and {len(REJECT)} requests that must be refused; fixed '
        'file population of ~25 files; HOME path contains the glob metacharacters [ ] *; '
        'real init_clean(local_only) -> parse_rm_dirs -> clean; full snapshot of '
        'the scratch root before/after. Not exercised: remote clean, DB, contact file, permission errors, a link '
        'to the parent of a numbered run (recursive glob blow-up), random trees (seed unused: enumeration is '
        'deterministic)')
    out = []
    short_run = executed < 0.98 * intended or harness_err
    for c in (1, 2, 3, 4):
        base = dict(name=names[c], kind='bounded', evaluations=n_eval[c], distinct=len(distinct[c]), rule=rule,
                    samples=samples[c][:3], exhaustive=True)
        if bad[c]:
            out.append(dict(base, verdict='refuted', witness=bad[c],
                            detail=f'{len(bad[c])}+ scenarios break clause {c}'))
            continue
        detail = (f'{n_eval[c]} scenarios (of {executed} executed, {intended} intended); {effective} cleans removed '
                  f'something, {nonvac3} had a non-empty demanded set, {expected_refusals} refused for the '
                  f'wrong-target work link')
        verdict = 'proved'
        if short_run or n_eval[c] == 0:
            verdict = 'unknown'
            detail = f'harness: {harness_err} scenario(s) could not run {harness_msgs}; ' + detail
        elif c in (2, 3) and unexpected_refusals:
            verdict = 'unknown'
            detail = (f'{unexpected_refusals} acceptable requests were refused (nothing deleted, so clause not '
                      f'evaluated) {harness_msgs}; ' + detail)
        elif c in (1, 2, 3) and (effective < 0.4 * n_eval[3] or nonvac3 < 0.4 * n_eval[3]):
            verdict = 'unknown'
            detail = 'too few scenarios deleted anything (vacuous); ' + detail
        out.append(dict(base, verdict=verdict, witness=[], detail=detail))
    base5 = dict(name=names[5], kind='bounded', evaluations=n5, distinct=paths5,
                 rule='one tree (wf/run1, all five sub dirs symlinked, all hazard groups, ancestor canaries): each '
                      f'of the {paths5} paths in the run dir and in the share / share/cycle target areas x the two '
                      f'functions, the tree restored (and verified) each time ({kinds5} distinct function/path-type '
                      'cases)',
                 samples=[], exhaustive=True)
    if bad5:
        out.append(dict(base5, verdict='refuted', witness=bad5, detail=f'{len(bad5)}+ calls break the contract'))
    elif n5 < 100:
        out.append(dict(base5, verdict='unknown', witness=[], detail=f'only {n5} calls executed'))
    else:
        out.append(dict(base5, verdict='proved', witness=[], detail=f'{n5} calls'))
    return out
