"""What MANIFEST.json claims (tools/mkmanifest.py regenerates it from here)."""

_PROOF_NOTE = ('Trusted: z3/cvc5; the pyvc encoding of the Python subset (DESIGN 2.3); Python ints as '
               'mathematical integers (exact); LOG.* calls dropped; assumed contracts and trusted clauses '
               'listed in the evidence file (coverage.assumed_contracts_all, coverage.trusted_clauses). ')

CLAIMS = {
    'C05': dict(
        category='proof',
        text='Per-call contracts of LimitedTaskQueue.{push_task,push_task_if_limited,remove,release} are proved '
             'against the real bodies for all queues, limits, counters and deque contents: release never exceeds '
             'the limit (A0 + released <= limit), never releases a held task, releases in queue order (ghost '
             'positions strictly decreasing), stops only at the limit or when every remaining entry is held, '
             'conserves entries. Unbounded: loop invariants, no bound on deque length.',
        note=_PROOF_NOTE + 'Not yet under contract: IndepQueueManager._make_indep/_expand_families (membership '
             'uniqueness), TaskPool.count_active_tasks/release_queued_tasks/queue_or_trigger; the sum over the '
             'member set uses a ghost enumeration order of the set (deterministic for an unchanged set).'),
    'C16': dict(
        category='other',
        text='IntegerSequence: all 10 query methods are proved to agree with the set pts(self) denoted by the '
             'fields (membership, least/greatest element clauses with quantified postconditions) under the '
             'representation invariant wf_iseq, and __init__ is proved, per documented recurrence row - ten of '
             'the eleven rows: NOT Rn/START/END, which stays undecided (bounded companion only) - to '
             'establish wf_iseq and pts(self) == documented arithmetic progression clipped to [initial, final] '
             'minus exclusions, for all integers (no bound). Deviations of the query methods from the strict '
             'statement are isolated by `domain` clauses, proved refuted by z3 on the strict variant, replayed '
             'on the real code and listed in known_findings.json; seven defects were repaired by fix: commits. '
             'A bounded companion enumerates every form with exclusion points and exclusion sequences in a small '
             'box. Level "other" because discharged < obligations while known findings remain.',
        note=_PROOF_NOTE + 'Assumed: ExclusionBase.__contains__ / IntegerExclusions.__init__ (abstract exclusion '
             'set xin), parse_exclusion (string splitting), the regex table summarised by ghost functions '
             'row_match/grp with the group-shape axioms of contracts/c16_init.py (checked natively by the '
             'replay catalog, not proved); termination of the exclusion recursions (partial correctness). '
             'Rows Rn/START/INTV and Rn/INTV/END of __init__ are verified only by the thorough command (minutes '
             'each). Row Rn/START/END is not under contract (z3 returns a model over the uninterpreted text / '
             'number functions that no concrete input reproduces: undecided). The strict variants of __init__ are '
             'not run (DESIGN 11.5, correction 14); what they showed - a one-off point outside [initial, final] is '
             'kept; START == END with n > 1 gives a zero step - is recorded there.'),
    'C18': dict(
        category='other',
        text='IntegerPoint / IntegerInterval and the shared PointBase / IntervalBase plumbing: every method is '
             'proved against its body to compute on the integer view (int(value)), down to the string level '
             '(str/int/replace/regex axioms instantiated); trichotomy, transitivity, add-then-subtract round '
             'trip, standardise idempotence and hash consistency for standardised points are proved as client '
             'lemmas over those contracts. One known finding (hash of non-standardised equal points).',
        note=_PROOF_NOTE + 'String facts A-STRINT/A-REPL/A-STRFLOAT/A-REGEX of pyvc/pymodel.py are axioms. '
             'ISO8601 points/intervals delegate to metomi.isodatetime and are not covered (only the shared '
             'base-class plumbing, instantiated at the integer classes).'),
}

CLAIMS['C26'] = dict(
    category='proof',
    text='TaskPool.{add_to_pool, remove, _swap_out, get_task, _get_task_by_id, get_tasks} are proved against '
         'their real bodies to preserve the pool view (point text, identity) -> proxy and the representation '
         'invariant wf_pool: never two proxies under one key (the key of an entry is the identity/point of the '
         'stored proxy), no empty cycle bucket after add/remove, and the cached list returned by get_tasks is a '
         'duplicate-free enumeration of exactly the pool contents whenever active_tasks_changed is False '
         '(every writer marks it stale). A census obligation (syntactic scan of the whole package) shows that '
         'active_tasks, _active_tasks_list and active_tasks_changed are written only by those functions. '
         'All pools, all task sets: quantified contracts, no bound.',
    note=_PROOF_NOTE + 'Cycle points are dictionary keys through their text (equal standardised points have '
         'equal text: C18 lemma; assumption A-STD-POINTS: pooled points are standardised). Collaborators called '
         'from add_to_pool/remove (data store, DB manager, xtrigger manager, queue manager, '
         'spawn_next_parentless) have assumed frame contracts justified by the census. The database sentence '
         'of the property (task_pool table == pool after each iteration): only the first half of '
         'WorkflowDatabaseManager.put_task_pool is under contract (fragment before the insert loop: the '
         'delete-everything request for the task_pool and prerequisites tables is queued unconditionally); the '
         'rows inserted are compared with the live pool by the bounded checks of C19 / C30 only.')

CLAIMS['C08'] = dict(
    category='proof',
    text='FlowMgr.get_flow (new / given number), FlowMgr.load_from_db and TaskProxy.merge_flows are proved '
         'against their bodies with the ghost set used = numbers ever written to the workflow_flows table: '
         'under the class invariant J (keys of flows are used; every used number is <= counter or a key of '
         'flows) a new flow number is > counter, was never used before, is recorded, and J is preserved; '
         'load_from_db re-establishes J after a restart from the two SQL facts (MAX is an upper bound of the '
         'table, selected rows are rows of the table), so numbers used before a restart are never handed out '
         'again; merge_flows yields exactly the union. Unbounded (loop invariant for the skip loop).',
    note=_PROOF_NOTE + 'Assumed: put_insert_workflow_flows records the number (definition of the ghost set), '
         'the two DAO selects (SQL), the wall clock. Not under contract: cli_to_flow_nums integer branch '
         '(effectful comprehension), TaskPool.merge_flows / spawn_on_output flow propagation and the '
         '"finished and complete in a flow is not re-run" clause (spawn_task) - not covered by this check.')

CLAIMS['C09'] = dict(
    category='proof',
    text='Second and third-sentence mechanisms proved per call: TaskOutputs.set_message_complete is monotone '
         '(no completed output is un-completed, only the given message changes, tri-state result), '
         'TaskOutputs.add/is_message_complete, and a census showing _completed is written only by __init__, '
         'add and set_message_complete. TaskState.reset / TaskProxy.state_reset / TaskState.__call__ are '
         'proved functionally: forced resets never yield submitted/running, requested values are taken, '
         'unrequested kept, the result says whether anything changed, expired clears the queued and '
         'runahead flags. All states, no bound.',
    note=_PROOF_NOTE + 'Also verified here (contracts/c10_messages.py): process_message and its handlers - '
         'outputs monotone on every path, back to waiting only through the retry branch, expired clears the queue '
         'flags, a received message never moves the status backwards, get_incomplete_implied returns exactly the '
         'incomplete earlier outputs and is asked about the output the message completes. NOT covered (needs '
         'message histories, see DESIGN 5 C09): that status only moves along the lifecycle for internal and '
         'polled messages (always believed by design) and in prep_submit_task_jobs; that the implied outputs end '
         'up complete after the recursive calls is not a stated postcondition.')

CLAIMS['C11'] = dict(
    category='proof',
    text='TaskPool.remove_if_complete is proved against its body (for an arbitrary pool, task and both values of '
         'the Cylc 7 compatibility flag): a task is removed exactly when it is finished and is_complete() holds, '
         'otherwise the pool is untouched; the stop-task flag is set. The second sentence (what the generated '
         'completion expression means) is a BOUNDED stand-in, not a proof: get_completion_expression is '
         'compared with the specification through the real evaluator for every optionality assignment of the '
         'six standard outputs plus one (quick) or two (thorough) custom outputs and every completed-subset.',
    note=_PROOF_NOTE + 'Assumed: TaskOutputs.is_complete returns the truth value of the stored expression over '
         'the completed outputs (CompletionEvaluator; safety half is C24); TaskPool.remove under its C26 contract. '
         'The bounded stand-in is listed in coverage.bounded_standins_not_proofs and is not counted in '
         'obligations/discharged.')

CLAIMS['C32'] = dict(
    category='proof',
    text='TaskProxy.clock_expire is proved: True iff an expiry time is configured, the task is not already '
         'expired and the clock has reached it. TaskPool.clock_expire_tasks is proved to send the "expired" '
         'message only for tasks that are not manually triggered, waiting and past their expiry time: the '
         'condition is a precondition of the message sink process_message and is discharged at the call site '
         'for every pool. TaskProxy.state_reset("expired") clears the queued and runahead flags and the task '
         'was taken out of its queue just before (so the queue cannot release it). A census lists every '
         'sender of the expired message in the package.',
    note=_PROOF_NOTE + 'Assumed: the wall clock is constant during one call (A-CLOCK); process_message is an '
         'assumed sink (its expired branch - state reset then spawn_children(expired) only - is not verified '
         'against the 250-line body); the experimental expire_triggers suicide branch of spawn_on_output '
         'expires tasks by design and is listed by the census, not proved.')

CLAIMS['C02'] = dict(
    category='proof',
    text='TaskActionTimer.next is proved: it hands out delays[num] and increments num exactly while '
         'num < len(delays), and grants nothing (None, num unchanged) afterwards, so a timer with N delays '
         'grants at most N retries between resets. _process_message_failed and _process_message_submit_failed '
         'are proved against their bodies: the result is "no retry left" (forced, no timer, or timer exhausted), '
         'a granted retry consumes exactly one delay and leaves the task waiting with the failed/submit-failed '
         'output untouched, and only the definitive branch sets failed/submit-failed. A census shows the retry '
         'counter is assigned only by the timer itself and where a job has started or been vacated. '
         'TaskPool._get_task_history (the finished-in-flow lookup behind "not submitted more than once per flow") '
         'is proved for every content of the task_states table: largest recorded submit number; no status exactly '
         'when no recorded instance shares a flow; and whenever a recorded instance sharing a flow is finished, a '
         'finished status is returned (a flow merge leaves a stale unfinished row beside the finished one).',
    note=_PROOF_NOTE + 'NOT covered: the (N+1)*(M+1) bound is the arithmetic consequence of the per-timer '
         'facts over a history, not itself an obligation. That spawn_children(failed / submit-failed) is reached '
         'only after the handler reported "no retry left" is a call-site obligation of process_message, '
         'discharged under C10. spawn_task (what it does with the history) is not under contract. _retry_task, '
         'the event-handler/job-bookkeeping helpers and the SQL SELECT behind select_prev_instances are assumed.')

CLAIMS['C47'] = dict(
    category='proof',
    text='get_host_from_platform and get_platform_from_group are proved against their bodies for every platform '
         '/ group definition and every set of unreachable hosts: the selected host belongs to the platform and is '
         'not in bad_hosts; NoHostsError is raised exactly when every host is bad (or there is none); definition '
         'order returns the first good host; the selected platform is a member of the group that still has a '
         'reachable host, and NoPlatformsError is raised exactly when every member is exhausted. '
         'List comprehensions are modelled as order-preserving selections, random.choice as "some element".',
    note=_PROOF_NOTE + 'Assumed: platform_from_name is a pure function of the name (its regex matching of names '
         'against the global configuration - the "last-defined matching platform" sentence - is NOT covered); '
         'random.choice returns an element of its non-empty argument; configuration dictionaries have the '
         'documented keys (record-dictionary model).')

CLAIMS['C24'] = dict(
    category='proof',
    text='RestrictedNodeVisitor.visit is proved against its body to raise before anything else when the node is '
         'not whitelisted and to return normally only if the whole subtree is whitelisted (structural induction '
         'carried by its own contract through ast.NodeVisitor.visit). The eval call in '
         'restricted_evaluator._eval (verified on the real closure CompletionEvaluator) is a sink with three '
         'obligations, discharged on every path: the compiled object is compile(<the parsed node>, ..., "eval") '
         'of a node for which visit returned normally; globals are the literal {"__builtins__": {}}; locals are '
         'exactly the **variables of the call. A scan checks the completion whitelist is a subset of '
         '{Expression, Name, Load, BoolOp, And, Or, BinOp}.',
    note=_PROOF_NOTE + 'Assumed: ast.NodeVisitor.visit/generic_visit call self.visit on every child node and '
         'return normally only if all of them do; ast.parse returns a tree or raises SyntaxError; CPython '
         'evaluates a tree of only those node types without calls, attribute access or subscripts. Other '
         'evaluator instances (host ranking) share the same _eval code; only the closure is verified.')

CLAIMS['C13'] = dict(
    category='other',
    text='Two parts. PROVED (all states, no bound): the Prerequisite class against its bodies - is_satisfied() '
         'returns exactly Sat(self) = "no keys, or the conditional expression over the truthy keys if there is one, '
         'else every recorded value truthy"; the cache field is either empty or equal to Sat(self) after '
         '__setitem__ (text and bool values), satisfy_me, set_satisfied and unset_naturally_satisfied, so the '
         'answer after each satisfy_me is never a stale cached value; satisfy_me satisfies exactly the given '
         'recorded outputs and changes nothing else. The expression is an abstract MONOTONE function CE(text, set '
         'of truthy keys). BOUNDED stand-in, not a proof: that the text produced by GraphParser -> generate_triggers '
         '-> Dependency.get_prerequisite -> set_conditional_expr denotes the user\'s boolean expression is compared '
         'natively for every and/or tree with <= 3 (quick) / 4 (thorough) atoms drawn from a name-collision pool '
         '(prefix/suffix/substring names, names with -+%@, custom outputs, offsets, negative integer points, '
         'time-zoned datetime points), after every single satisfy_me along a random order. A second bounded '
         'enumeration (every sequence of <= 3 operations on the real class over <= 3 keys, all expressions and '
         'initial states) accompanies the proved part only to supply a failing input when a changed body makes a '
         'quantified obligation undecidable for the solver; it is not counted. Level "other" because the property '
         'as a whole rests on the bounded part.',
    note=_PROOF_NOTE + 'Assumed: A-MONO (trigger expressions contain and/or only, so more satisfied keys never turn '
         'the expression false; instantiated between every two CE terms on a path); False is modelled as the empty '
         'text; PrereqTuple.coerce is the identity on text keys; precondition wf (an expression comes with recorded '
         'keys and is only set after all keys are recorded) is checked on every prerequisite the bounded stand-in '
         'builds but is not proved of Dependency.get_prerequisite. The bounded stand-in found two defects (graph '
         'parser name boundary, message-in-message rewriting), repaired by fix: commits d849c4a and 9ba9084.')

CLAIMS['C10'] = dict(
    category='proof',
    text='TaskEventsManager.process_message (the 250-line dispatcher) and _process_message_check are proved '
         'against their real bodies, with TaskState.is_gt/is_gte, get_incomplete_implied and the handlers '
         '_process_message_started/_succeeded/_expired/_submitted. First sentence: _process_message_check returns '
         'False exactly for a received message of another submit number and for a late message while a retry is '
         'lined up (unless forced / transient); process_message then returns False with the task\'s status, flags '
         'and outputs unchanged. Second sentence: assertions placed before EVERY call of a state-changing handler '
         '(call-site obligations, also for calls added later) show that a received message whose status lies '
         'behind the current one never reaches the handler - the function asks for a poll instead - and a poll '
         'request is only ever the answer to a received message. Also proved on every path: outputs are monotone, '
         'a return to waiting happens only through the failed / submit-failed retry branch, children of failed / '
         'submit-failed are spawned only when the handler reported "no retry left", implied outputs are looked '
         'up for the output the message completes. Recursion (implied outputs) is verified against the '
         'function\'s own contract; the loop has an invariant; no bound on anything.',
    note=_PROOF_NOTE + 'NOT covered: the third sentence (for any interleaving the final status matches the latest '
         'job\'s outcome) is a whole-history statement; TaskJobManager._poll_task_job_callback is not under '
         'contract; Scheduler.process_queued_task_messages (which collects the poll requests) has a BOUNDED '
         'companion only (contracts/c10_bounded.py: every queue of <= 4 messages x every answer pattern, '
         'recording stubs; reported under bounded_standins_not_proofs). Assumed: split_run_signal (starred '
         'unpacking), spawn_children (callback into the pool: may change other tasks, not this task\'s status '
         'or outputs), data-store / DB / event-handler collaborators, TaskState.status is one of the eight '
         'statuses and retry counters are >= 0 (type invariants, checked at every write under contract). The '
         'str-severity variant of process_message is verified by the thorough command only.')

CLAIMS['C07'] = dict(
    category='proof',
    text='The spawn path of the pool is proved against the real bodies: TaskDef.is_valid_point (on one of the '
         'task\'s sequences), TaskPool.can_be_spawned (True only for a defined task, at a point within '
         '[initial, final] and on one of its sequences), TaskPool._load_db_task_proxy (a proxy only when '
         'can_be_spawned), TaskPool.spawn_task (returns a proxy only for an instance inside the graph, with that '
         'point and definition; returns nothing that has a prerequisite beyond the stop point - the loop over '
         'the target points is cut by an invariant) and TaskPool.get_or_spawn_task (a new proxy only for an '
         'instance that is absent from the pool and inside the graph). For every configuration, point, flow set '
         'and task-history table; 338 paths of spawn_task.',
    note=_PROOF_NOTE + 'Sequences are abstract (interface contract SequenceBase.is_valid; IntegerSequence is '
         'proved to denote its recurrence under C16, ISO8601Sequence is not covered). Assumed: the TaskProxy '
         'constructor stores what it is given; get_taskdef returns the definition of a defined task and an '
         'implicit definition has no sequences. NOT covered: the callers of add_to_pool (spawn_on_output, '
         'spawn_next_parentless, load_from_point, _set_prereqs_tdef) are not under contract - that they add only '
         'what get_or_spawn_task returned is not an obligation; the restart loader re-creates what the database '
         'recorded; second sentence (nothing beyond the stop point is SUBMITTED) is the runahead cap (C04) plus '
         'main-loop order.')

CLAIMS['C46'] = dict(
    category='proof',
    text='TaskPool.spawn_task is proved (all paths, all histories) to return nothing for an instance before the '
         'start point when the flow set contains the original flow 1, the instance has no recorded history in '
         'these flows, and it was not manually triggered (pre_start_tasks_to_trigger). The comparison is on the '
         'integer value of the points (PointBase ordering, C18). "Dependencies on them count as satisfied": '
         'Dependency.get_prerequisite is proved against its body - every value it records (assertions before '
         'every Prerequisite.__setitem__ call) is True exactly when the trigger has an offset and its target '
         'point lies before the initial point, or before the start point while the dependent instance does '
         'not; the target is the offset applied to the initial point for [^..] triggers and to the '
         'dependent\'s own point otherwise.',
    note=_PROOF_NOTE + 'A bounded native enumeration of get_prerequisite (1890 combinations, listed under '
         'coverage.bounded_standins_not_proofs, not counted) accompanies the proof only to supply a failing '
         'input when a changed body makes the solver give up on the text arithmetic of points. The offset '
         'arithmetic itself (get_point_relative) is an uninterpreted function here. NOT covered: '
         'spawn_next_parentless (returns early before the start point; not under contract), start tasks '
         '(Scheduler._load_pool_from_tasks).')

CLAIMS['C06'] = dict(
    category='proof',
    text='Per call, for every pool and task state: TaskProxy.is_ready_to_run is False for a held task; the queue '
         'sink TaskPool.queue_task requires "not held (or manually triggered)" and the obligation is discharged at '
         'every call site under contract (queue_if_ready, release_held_active_task); LimitedTaskQueue.release '
         'never hands out a held task (C05 contracts, re-verified here); hold_active_task / '
         'release_held_active_task set / clear the flag and record / forget the instance in tasks_to_hold '
         'without forgetting other holds, and re-queue only a task that is ready and not runahead-limited; '
         'set_hold_point stores the point and holds every pooled task beyond it (loop invariant over the pool '
         'list); spawn_task holds an instance when it spawns if it was held beforehand or lies beyond the hold '
         'point ("holding an instance that is not yet in the pool takes effect when it spawns").',
    note=_PROOF_NOTE + 'NOT covered: a task already released from the queue (waiting_on_job_prep) that is held '
         'afterwards - the preparing transition in prep_submit_task_jobs has no held check, this is a history '
         'fact; hold_tasks / release_held_tasks (identifier matching) and release_hold_point are not under '
         'contract; "survive a restart" is SQL (put_tasks_to_hold / load_db_tasks_to_hold are assumed).')

CLAIMS['C03'] = dict(
    category='proof',
    text='The safety half, as a chain of call contracts each proved against its real body for an arbitrary '
         'pool: TaskPool.log_incomplete_tasks returns True exactly when some pooled task is finished and its '
         'completion expression is false; TaskPool.is_stalled returns True exactly when no pooled task is '
         'preparing / submitted / running, no waiting task that is released from the runahead pool has all its '
         'prerequisites satisfied, and some task is incomplete or partially satisfied within the stop point; '
         'Scheduler.check_workflow_stalled keeps a reported stall, never reports a new one while paused, '
         'otherwise reports what the pool says; Scheduler.check_auto_shutdown returns True only if the workflow '
         'is not paused, not in the restart-timeout wait, not stalled, and the pool holds no active task, no '
         'released waiting task, no finished-but-incomplete task and no partially satisfied prerequisite '
         'within the stop point (the first sentence of the property). The pool is unchanged by all of them. '
         'Quantified contracts over the pool view, loop invariants, generator expressions as exists/forall.',
    note=_PROOF_NOTE + 'The contract of TaskPool.log_unsatisfied_prereqs (True exactly when some task within the '
         'stop point waits on something within it) is USED at its call site but is an ASSUMED contract: its '
         'verification (three nested loops over a dictionary of lists) did not finish within an hour; a bounded '
         'native enumeration (contracts/c03_replay.py) compares the real function with the contract. NOT covered: the liveness half ("never '
         'leaves a ready task unsubmitted indefinitely", "reports a stall only when no task can progress" over '
         'time) - whole-history statements. Prerequisite satisfaction is a ghost function of the task (what '
         'is_satisfied() returns is C13); xtriggers do not enter is_stalled in the code and are not part of '
         'the contract.')

CLAIMS['C04'] = dict(
    category='proof',
    text='The clause "extended by the largest future-trigger offset among pooled tasks and capped at the stop '
         'point": (1) the last statements of TaskPool.compute_runahead (every top-level statement after the '
         'if/elif/else that picks the un-adjusted limit out of sorted(sequence_points), down to `return True`, '
         'taken mechanically from the real FunctionDef) are verified as a FRAGMENT for an '
         'arbitrary un-adjusted limit: the limit stored is min(limit + max_future_offset if any, stop point if '
         'any), in particular never beyond the stop point; (2) TaskPool.set_max_future_offset is verified whole '
         'against its body (loop invariant over the pool list): the offset stored is the largest '
         'max_future_prereq_offset among the pooled tasks\' definitions, None exactly when no pooled task has '
         'one, and whenever the stored offset changed the limit is recomputed (ghost counter advanced by '
         'compute_runahead). Integer cycling; all pools, offsets and points.',
    note=_PROOF_NOTE + 'What the fragment drops: everything in compute_runahead before the marker - the base '
         'point, the sequence points and the (n+1)-th earliest point (first half of the first sentence): NOT '
         'covered; nor are TaskPool.release_runahead_tasks (nested comprehension over the pool) and '
         'WorkflowConfig.process_runahead_limit. "Never prevents the workflow from finishing" is liveness. '
         'compute_runahead as seen by set_max_future_offset is an assumed contract (a call is a recomputation).')

_BOUNDED_TECH = ('bounded stand-in for contract-based verification: the contract (pre/postcondition, stated in the '
                 'module docstring) is checked at run time on the real functions over an exhaustively enumerated '
                 'small scope; labelled bounded, not a proof (no obligation is discharged by a solver)')
_BOUNDED_NOTE = ('BOUNDED, not proved: the functions are outside the verifier generator\'s reach (reason in the '
                 'module docstring of contracts/{mod}.py); the bound is stated in coverage.rule of the evidence '
                 'file. Trusted: CPython; the independent oracle written in the same module. ')


def _bounded(pid, mod, text, extra=''):
    CLAIMS[pid] = dict(category='exploration', text=text, technique=_BOUNDED_TECH,
                       note=_BOUNDED_NOTE.format(mod=mod) + extra)


_bounded('C23', 'c23_bounded',
         'For every prefix-closed assignment of user / workflow / cycle / task / job tokens and selectors over a '
         'small vocabulary (globs, hierarchical workflow names, un-padded job numbers): tokenise(detokenise(T)) '
         'equals T with the job number zero-padded (equal and hash-equal Tokens), detokenise(tokenise(S)) == S '
         'for the canonical strings produced, relative and absolute forms agree on cycle / task / job, and legacy '
         'task.cycle and cycle/task identifiers upgrade to the same tokens.',
         'Regex-based parsing: no SMT semantics for the ID regexes (look-arounds, named groups).')
_bounded('C35', 'c35_bounded',
         'For every runtime hierarchy of <= 5 namespaces (each with every ordered list of distinct earlier '
         'namespaces as parents) and every namespace in it: C3.mro returns exactly the MRO Python computes for '
         'the equivalent class hierarchy, and raises exactly when Python refuses the hierarchy.',
         'Second result: the real WorkflowConfig.compute_family_tree (which feeds C3 from the [runtime] section, '
         'implicit inheritance from root) on every section of <= 4 namespaces besides root stores exactly the '
         'linearization Python computes. compute_inheritance (the replication of settings along it) is not '
         'covered.')
_bounded('C37', 'c37_bounded',
         'For every literal text of a small grammar that eval_var accepts (ints, floats incl. overflow / underflow / '
         '-0.0, quoted strings with quotes, newlines and non-ASCII, bytes, None, bools, complex, and lists / tuples '
         '/ dicts / sets of them to depth 2): the value stored by the real put_workflow_template_vars and restored by '
         'the real Scheduler._load_template_vars has the identical type, value and repr, and a key given again on '
         'the command line keeps the command-line value. One known finding (values containing a float infinity).',
         'The round trip is repr() + ast.literal_eval(): CPython code, not /repo code.')
_bounded('C39', 'c39_bounded',
         'For every string of <= 4 characters over {a 1 . / - _ ~ +} and every "/"-join of <= 4 components from a '
         'vocabulary of ordinary, ".", "..", empty and reserved components (346 200 name / flag pairs): whenever '
         'validate_workflow_name returns normally, the name resolves strictly inside the cylc-run directory '
         '(independent component-walk oracle and os.path.normpath agree) and, with check_reserved_names, has no '
         'reserved or run<N> component.',
         'WorkflowNameValidator is a table of regular expressions.')
_bounded('C40', 'c40_bounded',
         'For 15 task patterns x 7 cycle patterns x status selector x flow filter against 50 recorded instances '
         'whose names differ by case, "_" and "%", on a real in-memory SQLite database: workflow_state_query '
         'returns exactly the recorded instances that match, "*" matching any sequence and every other character '
         'only itself, case-sensitively. The LIKE defect this check found was repaired (fix: 47ebe18).',
         'SQL text is opaque to the verifier; the output / trigger / message selectors (task_outputs table, '
         '_selector_in_outputs) are not covered.')
_bounded('C42', 'c42_bounded',
         'For 5 fixed and 36 (quick) seeded batches of <= 3 short / failing / slow / hanging / jobs-submit commands, '
         'each with the stop request before the first command, in the middle and after the last, with pool size 1 '
         '(drained by process()) and size 2 (ended by terminate()), using real child processes: every command gets '
         'exactly one callback (at most one for a child that terminate() had to kill), never more than `size` '
         'children run at once, and no jobs-submit command is started once the pool is stopping. The '
         'dropped-callback defect this work found was repaired (fix: b73e6fd).',
         'Heterogeneous list entries and process polling are outside the modelled subset. Seeded sampling of the '
         'batches (VERIF_SEED); timing-dependent: generous 4 s deadline per scenario.')
_bounded('C48', 'c48_bounded',
         'For every sequence of <= 4 operations (quick; 5 thorough) from numbered install, install --run-name, clean '
         'the latest numbered run, clean the oldest, on the real install_workflow / clean in a scratch HOME: a '
         'successful install never returns an existing directory, runN points to the most recently installed '
         'numbered run that still exists (and exists after every numbered install), and no number is handed out '
         'twice - one known finding: the number of a cleaned highest run is reused.',
         'File-system code (glob, readlink, rsync subprocess). Reinstall is not exercised.')

_bounded('C21', 'c21_bounded',
         'On the real CylcWorkflowDAO / WorkflowDatabaseManager with real SQLite files: for batches of <= 3 '
         'insert / update / delete operations over three tables and a sqlite3.Error injected at every statement '
         'position and at commit, the error propagates from the private write and the private database content '
         'afterwards equals the content before the batch; a failed public write does not raise, keeps the batch '
         'queued and counts the attempt; after the next successful write - or recover_pub_from_pri at the '
         'threshold - the public content equals the private content and the queues are empty; also when nothing '
         'new is queued before the retry. Two directed histories (recovery followed by an idle write; two failed '
         'batches retried together): one defect repaired (621cabe), one known finding (merged retry runs deletes '
         'before inserts).',
         'SQLite transaction semantics (close without commit = rollback) are SQLite\'s. A process crash in the '
         'middle of a transaction is not simulated (C20 is not applicable).')
_bounded('C22', 'c22_bounded',
         'On the real BroadcastMgr with the real WorkflowDatabaseManager and SQLite: for 150 (quick) seeded '
         'histories of put / clear (by point, namespace, setting) / expire operations over 3 points x 3 namespaces '
         'x 6 single-leaf settings, after every operation the stored state equals an independent model (clear and '
         'expire remove exactly the targets; expire never touches all-cycle broadcasts), get_broadcast for three '
         'task instances equals the merge in precedence order (all-cycle root..task, then own-cycle root..task), '
         'and at the end a fresh manager loaded from the database has the identical state.',
         'Settings with several leaves in one dict are outside put_broadcast\'s domain (clients send one leaf per '
         'dict; get_broadcast_change_iter records only the first leaf). Seeded sampling (VERIF_SEED).')
_bounded('C33', 'c33_bounded',
         'On the real XtriggerManager (real collator and SubFuncContext, recording process pool, virtual clock): '
         'for every sequence of <= 5 events starting with a call, over call_xtriggers_async for one of three tasks '
         '(two labels sharing a function signature, one task-specific), clock advances below / above the 10 s '
         'interval, completion of the oldest call in progress (success or not) and housekeeping (14 043 sequences): '
         'never two calls of one signature in progress, consecutive calls >= the interval apart, no call after '
         'success while the result is remembered, and a task depending on a succeeded signature is satisfied the '
         'next time it is looked at.',
         'The wall-clock branch and broadcast of results are not exercised.')
_bounded('C41', 'c41_bounded',
         'The script text written by the real JobFileWriter._write_runtime_environment is evaluated by /bin/bash: '
         'for every value of <= 3 characters over 20 ordinary and shell-special characters (blanks, newline, '
         'quote, glob, redirection, grouping, history, %; none of $ ` \\ " and no leading ~) - 8000 values - the '
         'exported variable equals the value exactly; and A=1, B=$A/2, C=${B}-$A evaluate in configuration order.',
         'Parameter-template interpolation (%(x)s) and the tilde forms are not exercised.')
_bounded('C44', 'c44_bounded',
         'PROVED relative to a POSIX model (a created file gets mode & ~umask; os.umask / os.chmod do what they '
         'say; contracts/c44_private.py): in create_server_keys every call that creates a key file '
         '(zmq.auth.create_certificates, shutil.copyfile - the client private key is a copy of the server one) '
         'is a sink reached only with the process umask at 0o177, also for calls a later change adds or moves, '
         'and the umask found at entry is restored; WorkflowDatabaseManager.on_workflow_start ends, on both the '
         'first-start and the restart path, with the private database path chmod-ed to 0o600 after the file was '
         '(re)created and nothing touching its mode afterwards. BOUNDED (that the libraries behave like the '
         'model): for 8 umasks (000 ... 277): after the real WorkflowDatabaseManager.on_workflow_start (first start, and '
         'restart over an existing world-readable database) the private database has no group/other permission '
         'bit; after the real create_server_keys the server and client private keys have none and the process '
         'umask is restored.',
         'Not a proof about the window between file creation and chmod ("once start-up completes" is what the '
         'property says). 24 cases: a sample of umasks, not exhaustive over all 512.')

_bounded('C12', 'c12_bounded',
         'For every and/or completion expression with <= 3 (quick; 4 thorough) distinct leaves from {succeeded, '
         'failed, x, y, expired, submit_failed} - all tree shapes, all leaf assignments - the real '
         'get_optional_outputs classifies each output required exactly when an independent tree evaluator finds '
         'the expression false with only that output (and expired, submit-failed) missing, optional when referenced '
         'and not required, None when unreferenced; TaskOutputs.iter_required_messages yields exactly the required '
         'messages; and the default skip-mode outputs contain submitted, started, every required output of the '
         'success branch and exactly one of succeeded / failed.',
         'The classification runs the restricted evaluator on expression strings (no token-tree model was built). '
         'Second result (contracts/c12_validation_bounded.py): the real '
         'WorkflowConfig._check_completion_expression accepts a user expression exactly when it is consistent '
         'with the graph per the documented table, for all 243 required / optional / unmentioned declarations of '
         '5 outputs x 66 expressions of <= 2 leaves (quick).')
_bounded('C17', 'c17_bounded',
         'For 44 recurrence templates (all documented formats, truncated and relative points, exclusion points and '
         'exclusion sequences) x 2 context windows (one across the end of February) x 4 calendar modes x 3 time '
         'zones (7 of the 12 mode pairs in the quick tier): is_valid, get_next_point, get_prev_point, '
         'get_nearest_prev_point, get_first_point at ~45 probe points on, between and around the points, and '
         'get_start_point / get_stop_point, all agree with the list obtained by iterating the library recurrence '
         'over the window and removing the excluded points; a fresh object asked in reversed and shuffled orders, '
         'and the same object asked twice, give the same answers. The get_stop_point defect this check found '
         '(several trailing excluded points; everything excluded) was repaired (fix: in known_findings.json).',
         'The recurrence arithmetic is metomi.isodatetime (third party), which also serves as the enumeration '
         'oracle: the check decides consistency of Cylc\'s wrappers and caches with it, not the calendar '
         'arithmetic. Recurrences Cylc rejects are skipped (counted in coverage.rule). Seeded shuffles (VERIF_SEED).')

_MIXED_TECH = ('contract-based deductive verification of the per-call mechanisms named in the claim (verification '
               'conditions generated from the real function bodies, discharged by z3 / cvc5), plus a bounded '
               'stand-in for the whole-scheduler part: the contract clauses taken from the property statement are '
               'checked at run time on real in-process Scheduler runs over an enumerated scope - labelled bounded, '
               'never counted as proved')


def _mixed(pid, mod, text, extra=''):
    CLAIMS[pid] = dict(category='other', text=text, technique=_MIXED_TECH,
                       note=_PROOF_NOTE + _BOUNDED_NOTE.format(mod=mod) + extra)


_mixed('C27', 'c27_bounded',
       'PROVED: the copy step of TaskProxy.copy_to_reload_successor (every statement of the real body before the '
       'prerequisite carry-over, verified as a fragment) gives the successor the old submit number, flow-wait and '
       'manual-trigger flags, the very same outputs object (completed outputs stay completed), the held and '
       'runahead flags and the job bookkeeping, and leaves status and the old proxy alone. BOUNDED: real Scheduler '
       'runs of 4 workflows reloaded after every main-loop iteration k < 8 (quick) with unchanged / extended / '
       'shrunk definitions, and copy_to_reload_successor on 6144 constructed states: status, flows, submit number, '
       'held / runahead flags, outputs, kept prerequisites, new prerequisites satisfied iff already recorded, '
       'orphans dropped only if not started. Two defects found and repaired (95f839b, 7f3f789); two known findings '
       '(queued flag not carried; forced output not recognised for a new prerequisite).',
       'NOT under contract: the prerequisite carry-over loop and TaskPool._reload_taskdefs (bounded only).')
_mixed('C29', 'c29_bounded',
       'PROVED (contracts of C09, tagged C29): TaskState.reset / TaskProxy.state_reset with forced=True never '
       'yield submitted or running; TaskOutputs.set_message_complete(forced) completes exactly the given output. '
       'BOUNDED: the real `cylc set` command (validation + TaskPool.set_prereqs_and_outputs) on a paused in-process '
       'Scheduler for 137 output selections + 100 natural twins + 63 prerequisite selections over 3 generated '
       'graphs and every target state (not spawned / waiting / submitted / running / failed / succeeded, pooled '
       'or loaded from the DB): exactly the requested outputs and their documented implied outputs complete; '
       'exactly the graph children of those outputs spawn with that prerequisite satisfied; the target never '
       'becomes submitted / running and no job is recorded; defaults; only real prerequisites are satisfied and '
       'the task runs once all are.',
       'Implied outputs follow `cylc set --help` (started implies submitted; succeeded / failed imply started). '
       'NOT under contract: set_prereqs_and_outputs, _set_outputs_itask, _set_prereqs_itask (bounded only).')
_mixed('C30', 'c30_bounded',
       'PROVED (contract of C13, tagged C30): Prerequisite.unset_naturally_satisfied unsets exactly the entries of '
       'the named task that are satisfied and not force-satisfied, leaves every other entry and the key set alone, '
       'reports whether anything changed and leaves no stale cached answer - for every prerequisite, no bound. '
       'BOUNDED: the real `cylc remove` on in-process Schedulers: 173 removals (quick) over 8 generated graphs x '
       'preludes (second flow, merged flows, set --pre) x 0-3 iterations x flow selection: flows taken off, pool '
       'and history rows, only naturally satisfied child entries unset, children without any satisfied '
       'prerequisite removed, everything else unchanged; re-run after removal. Two known findings (multi-flow corner '
       'cases of commands._remove_matched_tasks).',
       'NOT under contract: commands._remove_matched_tasks, remove_task_from_flows (SQL) - bounded only.')
_mixed('C31', 'c31_bounded',
       'PROVED (contracts of C16, tagged C31): IntegerSequence.get_nearest_prev_point returns the greatest point '
       'of the sequence below the argument, for every sequence and every point - also beyond a repetition-limited '
       'recurrence, after the repair a648767 (the defect let two instances of a sequential task run at once); '
       'the next-instance lookup get_next_point is proved under C16 (repair a731fc5). BOUNDED: (P) the real TaskState of every instance of a sequential task '
       'on one or two recurrences (16 integer, 15 datetime recurrences; singles and pairs) has exactly the '
       'prerequisite <previous point of the union>/task:succeeded; (C) its succeeded output lists the next union '
       'point as child; (R) 12 real simulation runs: never two active instances, each submitted only after the '
       'previous one succeeded.',
       'TaskState._add_prerequisites and generate_graph_children are bounded only. generate_graph_parents (data '
       'store display) disagrees with the union reading for one-off recurrences: evaluated, not part of the claim.')
_bounded('C19', 'c19_bounded',
         'Real Scheduler runs of 6 integer-cycling workflows (flows {1},{2},{1,2}, hold point, broadcasts, custom '
         'outputs, xtriggers, retry, stop task, stop point, suicide triggers, preparing task) stopped with the real '
         'stop command (clean / now) at selected main-loop iterations and restarted on the same run directory - 37 '
         'runs, 67 restarts incl. a chain of 6 (quick); every iteration x 3 modes + chains (thorough): live '
         'snapshot before the stop == live snapshot after start-up for (1) task set, status, flows, held, submit '
         'number (preparing -> waiting, same number) - holds; (2) outputs, (3) prerequisite / xtrigger '
         'satisfaction, (4) hold point, stop point, stop task, broadcasts, flow counter, (5) same final result as '
         'the uninterrupted run - six known findings, each with its own classifier; two more defects found by '
         'this check were repaired (f3ea905 stop task lost on a second restart, f727af3 custom outputs restored '
         'by label).',
         'Six SQL tables and start-up code: outside the verifier. Simulation mode; stop --kill and reload not '
         'exercised.')
_bounded('C38', 'c38_bounded',
         'The real init_clean(local_only) / clean / glob_in_run_dir / _clean_using_glob / parse_rm_dirs / '
         'remove_dir_and_target / remove_dir_or_file on 3350 generated scratch trees (quick): 2 workflow ids x 8 '
         'symlink-dir configurations x 4 hazard-link groups (links to canary files / dirs, broken, loops, sibling '
         'workflow, cylc-run itself; inside share, work, log) x 38 accepted + 12 refused --rm requests: only paths '
         'inside the run directory or its standard symlink targets disappear, canaries are byte-identical, other '
         'symlinks are not followed, everything matched is gone, refused patterns change nothing.',
         'File-system code. Remote clean is not exercised. `--rm "**"` with a link back to cylc-run inside a '
         'numbered run may not terminate (Python glob follows links): excluded from the box, noted in DESIGN.')
_mixed('C43', 'c43_bounded',
       'PROVED per call, for every pool: TaskPool.set_stop_point stores the point, lowers a runahead limit beyond '
       'it to it and puts every pooled waiting task beyond it behind the runahead limit AND out of its queue '
       '(unless manually triggered), changing nothing else (loop invariant); TaskPool.can_stop is False without a '
       'request, True for now-now, False while event handlers are pending, for clean / kill exactly when no pooled '
       'task is submitted / running without a failed kill, for --now regardless of active jobs; stop_task_done is '
       'True exactly once after the stop task was flagged and forgets it; remove_if_complete flags the stop task '
       'only when it SUCCEEDED; the tail of compute_runahead keeps the limit <= stop point (C04). BOUNDED: 72 real '
       'Scheduler starts (quick) of 4 workflows with stop --cycle-point / config / --stopcp, stop --task, clean '
       'stop, --now, restarts. Two defects found and repaired (3e8d127, 83ae7e2).',
       'NOT under contract: commands.stop, Scheduler.workflow_shutdown (check_auto_shutdown is, under C03).')
_mixed('C45', 'c45_bounded',
       'PROVED: TaskPool.load_abs_outputs_for_restart records every row of the abs_outputs table in '
       'abs_outputs_done and forgets nothing. BOUNDED: 16 generated workflows (quick) with foo[^], foo[2], '
       'foo[^+P1], custom outputs, & and | combinations, dependants on several recurrences, small runahead limits, '
       'manual trigger / set --pre / flow merge, warm start; the real main loop driven one iteration at a time, '
       'restarts after selected iterations: every pooled instance of every dependant has the prerequisite '
       'satisfied exactly from the moment the absolute output is completed, also instances spawned later and '
       'after a restart; the abs_outputs table holds exactly the completed absolute outputs. One defect found and '
       'repaired (98e6ddf).',
       'The child loop of spawn_on_output (where the output is recorded) could not be brought under contract '
       '(DESIGN 11): bounded only.')

# C38: parse_rm_dirs under contract (contracts/c38_rm.py)
CLAIMS['C38'] = dict(CLAIMS['C38'], category='other', technique=_MIXED_TECH,
                     text='PROVED relative to an os.path model (isabs(p) == p.startswith("/"); normpath an '
                          'arbitrary function): pathutil.parse_rm_dirs - the gate between the --rm arguments and '
                          'the deleting code - returns, for every argument list, only strings n or n + "/" '
                          'with n = normpath(part) not absolute, not ".", not ".." and not starting with "../"; '
                          'anything else raises InputError (nested loops, invariants). BOUNDED: '
                          + CLAIMS['C38']['text'],
                     note=_PROOF_NOTE + CLAIMS['C38']['note'])
# C39: validate_workflow_name under contract (contracts/c39_names.py)
CLAIMS['C39'] = dict(CLAIMS['C39'], category='other', technique=_MIXED_TECH,
                     text='PROVED relative to the same os.path model: workflow_files.validate_workflow_name returns '
                          'normally only for a name that is not absolute and whose normalised form does not start '
                          'with "." (so not ".", "..", "../x"), and - with check_reserved_names - only after '
                          'check_reserved_dir_names accepted the normalised name; every other name raises '
                          'WorkflowFilesError. BOUNDED (what normpath does to concrete strings, the character '
                          'rules, the reserved-name scan): ' + CLAIMS['C39']['text'],
                     note=_PROOF_NOTE + CLAIMS['C39']['note'])
# C44 (text above, with the bounded ones) has a proved part since contracts/c44_private.py
CLAIMS['C44'] = dict(CLAIMS['C44'], category='other', technique=_MIXED_TECH,
                     note=_PROOF_NOTE + CLAIMS['C44']['note'])

NOT_APPLICABLE = {
    'C01': 'equality between the set of instances submitted over a whole run and the spawn-on-demand closure, for '
           'every schedule: a whole-history property; no postcondition of one call states it. Its per-call '
           'mechanisms are contracts of other properties (DESIGN 5, C01).',
    'C14': 'GraphParser is ~600 lines of re.sub/re.findall/str.split text rewriting; the property compares parses of '
           'different renderings of the same graph. No SMT theory here gives Python regexes with groups and '
           'look-arounds a usable semantics, and a contract that abstracts them away has nothing left to say.',
    'C15': 'same code path as C14 (family expansion rewrites the trigger expression with re.sub); the finite '
           'member-trigger tables do not decide the property on their own.',
    'C20': 'quantifies over instants of process death, including inside a transaction, and relates a killed run to '
           'an uninterrupted one; a contract states what one call does to the (ghost) database, not what half a '
           'main-loop iteration followed by start-up code yields.',
    'C25': 'absence of drift between the task pool and the published protobuf store after arbitrary histories of '
           'deltas: an invariant relating two large mutable structures across every mutator of a 3000-line module.',
    'C28': 'ordering of group members across later main-loop iterations (history); _force_trigger_tasks is an '
           'async generator over pool state. The per-call part (queue_or_trigger) belongs to C05.',
    'C34': 'regex group extraction, str.replace and %-template formatting carry the semantics; the regex-free '
           'recursion skeleton has a contract that would restate the recursion.',
    'C36': 'file parsing, include-file inlining and Jinja2: file contents in, nested dict out; no contract over '
           'values within reach of the verifier.',
}

NOT_BUILT = {}
