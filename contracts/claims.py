"""What MANIFEST.json claims (tools/mkmanifest.py regenerates it from here)."""

_PROOF_NOTE = ('Trusted: z3/cvc5; the pyvc encoding of the Python subset (DESIGN 2.3); Python ints as '
               'mathematical integers (exact); LOG.* calls dropped; assumed contracts and trusted clauses '
               'listed in the evidence file (coverage.assumed_contracts_all, coverage.trusted_clauses). ')

CLAIMS = {
    'C05': dict(
        category='proof',
        text='Per-call contracts of LimitedTaskQueue.{push_task,push_task_if_limited,remove,release} are proved '
             'against the real bodies for all queues, limits, counters and deque contents: release never exceeds '
             'the limit (A0 + released <= limit), never releases a held task, releases in queue order (ghost '
             'positions strictly decreasing), stops only at the limit or when every remaining entry is held, '
             'conserves entries. Unbounded: loop invariants, no bound on deque length.',
        note=_PROOF_NOTE + 'Not yet under contract: IndepQueueManager._make_indep/_expand_families (membership '
             'uniqueness), TaskPool.count_active_tasks/release_queued_tasks/queue_or_trigger; the sum over the '
             'member set uses a ghost enumeration order of the set (deterministic for an unchanged set).'),
    'C16': dict(
        category='other',
        text='IntegerSequence: all 10 query methods are proved to agree with the set pts(self) denoted by the '
             'fields (membership, least/greatest element clauses with quantified postconditions) under the '
             'representation invariant wf_iseq, and __init__ is proved, per documented recurrence row, to '
             'establish wf_iseq and pts(self) == documented arithmetic progression clipped to [initial, final] '
             'minus exclusions, for all integers (no bound). Deviations of the real code from the strict '
             'statement are isolated by `domain` clauses, proved refuted by z3 on the strict variant, replayed '
             'on the real code and listed in known_findings.json; five defects were repaired by fix: commits. '
             'Level "other" because discharged < obligations while known findings remain.',
        note=_PROOF_NOTE + 'Assumed: ExclusionBase.__contains__ / IntegerExclusions.__init__ (abstract exclusion '
             'set xin), parse_exclusion (string splitting), the regex table summarised by ghost functions '
             'row_match/grp with the group-shape axioms of contracts/c16_init.py (checked natively by the '
             'replay catalog, not proved); termination of the exclusion recursions (partial correctness). '
             'Rows Rn/START/END, Rn/START/INTV and Rn/INTV/END of __init__ and the strict variants of '
             '__init__ are verified only by the thorough command (minutes each).'),
    'C18': dict(
        category='other',
        text='IntegerPoint / IntegerInterval and the shared PointBase / IntervalBase plumbing: every method is '
             'proved against its body to compute on the integer view (int(value)), down to the string level '
             '(str/int/replace/regex axioms instantiated); trichotomy, transitivity, add-then-subtract round '
             'trip, standardise idempotence and hash consistency for standardised points are proved as client '
             'lemmas over those contracts. One known finding (hash of non-standardised equal points).',
        note=_PROOF_NOTE + 'String facts A-STRINT/A-REPL/A-STRFLOAT/A-REGEX of pyvc/pymodel.py are axioms. '
             'ISO8601 points/intervals delegate to metomi.isodatetime and are not covered (only the shared '
             'base-class plumbing, instantiated at the integer classes).'),
}

CLAIMS['C26'] = dict(
    category='proof',
    text='TaskPool.{add_to_pool, remove, _swap_out, get_task, _get_task_by_id, get_tasks} are proved against '
         'their real bodies to preserve the pool view (point text, identity) -> proxy and the representation '
         'invariant wf_pool: never two proxies under one key (the key of an entry is the identity/point of the '
         'stored proxy), no empty cycle bucket after add/remove, and the cached list returned by get_tasks is a '
         'duplicate-free enumeration of exactly the pool contents whenever active_tasks_changed is False '
         '(every writer marks it stale). A census obligation (syntactic scan of the whole package) shows that '
         'active_tasks, _active_tasks_list and active_tasks_changed are written only by those functions. '
         'All pools, all task sets: quantified contracts, no bound.',
    note=_PROOF_NOTE + 'Cycle points are dictionary keys through their text (equal standardised points have '
         'equal text: C18 lemma; assumption A-STD-POINTS: pooled points are standardised). Collaborators called '
         'from add_to_pool/remove (data store, DB manager, xtrigger manager, queue manager, '
         'spawn_next_parentless) have assumed frame contracts justified by the census. The database sentence '
         'of the property (task_pool table == pool after each iteration) is not covered: SQL is opaque.')

CLAIMS['C08'] = dict(
    category='proof',
    text='FlowMgr.get_flow (new / given number), FlowMgr.load_from_db and TaskProxy.merge_flows are proved '
         'against their bodies with the ghost set used = numbers ever written to the workflow_flows table: '
         'under the class invariant J (keys of flows are used; every used number is <= counter or a key of '
         'flows) a new flow number is > counter, was never used before, is recorded, and J is preserved; '
         'load_from_db re-establishes J after a restart from the two SQL facts (MAX is an upper bound of the '
         'table, selected rows are rows of the table), so numbers used before a restart are never handed out '
         'again; merge_flows yields exactly the union. Unbounded (loop invariant for the skip loop).',
    note=_PROOF_NOTE + 'Assumed: put_insert_workflow_flows records the number (definition of the ghost set), '
         'the two DAO selects (SQL), the wall clock. Not under contract: cli_to_flow_nums integer branch '
         '(effectful comprehension), TaskPool.merge_flows / spawn_on_output flow propagation and the '
         '"finished and complete in a flow is not re-run" clause (spawn_task) - not covered by this check.')

CLAIMS['C09'] = dict(
    category='proof',
    text='Second and third-sentence mechanisms proved per call: TaskOutputs.set_message_complete is monotone '
         '(no completed output is un-completed, only the given message changes, tri-state result), '
         'TaskOutputs.add/is_message_complete, and a census showing _completed is written only by __init__, '
         'add and set_message_complete. TaskState.reset / TaskProxy.state_reset / TaskState.__call__ are '
         'proved functionally: forced resets never yield submitted/running, requested values are taken, '
         'unrequested kept, the result says whether anything changed, expired clears the queued and '
         'runahead flags. All states, no bound.',
    note=_PROOF_NOTE + 'NOT covered (needs message histories, see DESIGN 5 C09): that status only moves along '
         'the lifecycle (the transitions in process_message / prep_submit_task_jobs carry no local guard), and '
         'the implied-outputs clause (succeeded/failed imply submitted and started) which lives in '
         'process_message; those functions are not under contract.')

CLAIMS['C11'] = dict(
    category='proof',
    text='TaskPool.remove_if_complete is proved against its body (for an arbitrary pool, task and both values of '
         'the Cylc 7 compatibility flag): a task is removed exactly when it is finished and is_complete() holds, '
         'otherwise the pool is untouched; the stop-task flag is set. The second sentence (what the generated '
         'completion expression means) is a BOUNDED stand-in, not a proof: get_completion_expression is '
         'compared with the specification through the real evaluator for every optionality assignment of the '
         'six standard outputs plus one (quick) or two (thorough) custom outputs and every completed-subset.',
    note=_PROOF_NOTE + 'Assumed: TaskOutputs.is_complete returns the truth value of the stored expression over '
         'the completed outputs (CompletionEvaluator; safety half is C24); TaskPool.remove under its C26 contract. '
         'The bounded stand-in is listed in coverage.bounded_standins_not_proofs and is not counted in '
         'obligations/discharged.')

CLAIMS['C32'] = dict(
    category='proof',
    text='TaskProxy.clock_expire is proved: True iff an expiry time is configured, the task is not already '
         'expired and the clock has reached it. TaskPool.clock_expire_tasks is proved to send the "expired" '
         'message only for tasks that are not manually triggered, waiting and past their expiry time: the '
         'condition is a precondition of the message sink process_message and is discharged at the call site '
         'for every pool. TaskProxy.state_reset("expired") clears the queued and runahead flags and the task '
         'was taken out of its queue just before (so the queue cannot release it). A census lists every '
         'sender of the expired message in the package.',
    note=_PROOF_NOTE + 'Assumed: the wall clock is constant during one call (A-CLOCK); process_message is an '
         'assumed sink (its expired branch - state reset then spawn_children(expired) only - is not verified '
         'against the 250-line body); the experimental expire_triggers suicide branch of spawn_on_output '
         'expires tasks by design and is listed by the census, not proved.')

CLAIMS['C02'] = dict(
    category='proof',
    text='TaskActionTimer.next is proved: it hands out delays[num] and increments num exactly while '
         'num < len(delays), and grants nothing (None, num unchanged) afterwards, so a timer with N delays '
         'grants at most N retries between resets. _process_message_failed and _process_message_submit_failed '
         'are proved against their bodies: the result is "no retry left" (forced, no timer, or timer exhausted), '
         'a granted retry consumes exactly one delay and leaves the task waiting with the failed/submit-failed '
         'output untouched, and only the definitive branch sets failed/submit-failed. A census shows the retry '
         'counter is assigned only by the timer itself and where a job has started or been vacated.',
    note=_PROOF_NOTE + 'NOT covered: the (N+1)*(M+1) bound is the arithmetic consequence of the per-timer '
         'facts over a history, not itself an obligation; process_message (that spawn_children(failed) is reached '
         'only after a True return), spawn_task/_get_task_history (not re-run when finished and complete) are '
         'not under contract. _retry_task and the event-handler/job-bookkeeping helpers are assumed.')

CLAIMS['C47'] = dict(
    category='proof',
    text='get_host_from_platform and get_platform_from_group are proved against their bodies for every platform '
         '/ group definition and every set of unreachable hosts: the selected host belongs to the platform and is '
         'not in bad_hosts; NoHostsError is raised exactly when every host is bad (or there is none); definition '
         'order returns the first good host; the selected platform is a member of the group that still has a '
         'reachable host, and NoPlatformsError is raised exactly when every member is exhausted. '
         'List comprehensions are modelled as order-preserving selections, random.choice as "some element".',
    note=_PROOF_NOTE + 'Assumed: platform_from_name is a pure function of the name (its regex matching of names '
         'against the global configuration - the "last-defined matching platform" sentence - is NOT covered); '
         'random.choice returns an element of its non-empty argument; configuration dictionaries have the '
         'documented keys (record-dictionary model).')

CLAIMS['C24'] = dict(
    category='proof',
    text='RestrictedNodeVisitor.visit is proved against its body to raise before anything else when the node is '
         'not whitelisted and to return normally only if the whole subtree is whitelisted (structural induction '
         'carried by its own contract through ast.NodeVisitor.visit). The eval call in '
         'restricted_evaluator._eval (verified on the real closure CompletionEvaluator) is a sink with three '
         'obligations, discharged on every path: the compiled object is compile(<the parsed node>, ..., "eval") '
         'of a node for which visit returned normally; globals are the literal {"__builtins__": {}}; locals are '
         'exactly the **variables of the call. A scan checks the completion whitelist is a subset of '
         '{Expression, Name, Load, BoolOp, And, Or, BinOp}.',
    note=_PROOF_NOTE + 'Assumed: ast.NodeVisitor.visit/generic_visit call self.visit on every child node and '
         'return normally only if all of them do; ast.parse returns a tree or raises SyntaxError; CPython '
         'evaluates a tree of only those node types without calls, attribute access or subscripts. Other '
         'evaluator instances (host ranking) share the same _eval code; only the closure is verified.')

CLAIMS['C13'] = dict(
    category='other',
    text='Two parts. PROVED (all states, no bound): the Prerequisite class against its bodies - is_satisfied() '
         'returns exactly Sat(self) = "no keys, or the conditional expression over the truthy keys if there is one, '
         'else every recorded value truthy"; the cache field is either empty or equal to Sat(self) after '
         '__setitem__ (text and bool values), satisfy_me, set_satisfied and unset_naturally_satisfied, so the '
         'answer after each satisfy_me is never a stale cached value; satisfy_me satisfies exactly the given '
         'recorded outputs and changes nothing else. The expression is an abstract MONOTONE function CE(text, set '
         'of truthy keys). BOUNDED stand-in, not a proof: that the text produced by GraphParser -> generate_triggers '
         '-> Dependency.get_prerequisite -> set_conditional_expr denotes the user\'s boolean expression is compared '
         'natively for every and/or tree with <= 3 (quick) / 4 (thorough) atoms drawn from a name-collision pool '
         '(prefix/suffix/substring names, names with -+%@, custom outputs, offsets, negative integer points, '
         'time-zoned datetime points), after every single satisfy_me along a random order. A second bounded '
         'enumeration (every sequence of <= 3 operations on the real class over <= 3 keys, all expressions and '
         'initial states) accompanies the proved part only to supply a failing input when a changed body makes a '
         'quantified obligation undecidable for the solver; it is not counted. Level "other" because the property '
         'as a whole rests on the bounded part.',
    note=_PROOF_NOTE + 'Assumed: A-MONO (trigger expressions contain and/or only, so more satisfied keys never turn '
         'the expression false; instantiated between every two CE terms on a path); False is modelled as the empty '
         'text; PrereqTuple.coerce is the identity on text keys; precondition wf (an expression comes with recorded '
         'keys and is only set after all keys are recorded) is checked on every prerequisite the bounded stand-in '
         'builds but is not proved of Dependency.get_prerequisite. The bounded stand-in found two defects (graph '
         'parser name boundary, message-in-message rewriting), repaired by fix: commits d849c4a and 9ba9084.')

NOT_APPLICABLE = {
    'C01': 'equality between the set of instances submitted over a whole run and the spawn-on-demand closure, for '
           'every schedule: a whole-history property; no postcondition of one call states it. Its per-call '
           'mechanisms are contracts of other properties (DESIGN 5, C01).',
    'C14': 'GraphParser is ~600 lines of re.sub/re.findall/str.split text rewriting; the property compares parses of '
           'different renderings of the same graph. No SMT theory here gives Python regexes with groups and '
           'look-arounds a usable semantics, and a contract that abstracts them away has nothing left to say.',
    'C15': 'same code path as C14 (family expansion rewrites the trigger expression with re.sub); the finite '
           'member-trigger tables do not decide the property on their own.',
    'C20': 'quantifies over instants of process death, including inside a transaction, and relates a killed run to '
           'an uninterrupted one; a contract states what one call does to the (ghost) database, not what half a '
           'main-loop iteration followed by start-up code yields.',
    'C25': 'absence of drift between the task pool and the published protobuf store after arbitrary histories of '
           'deltas: an invariant relating two large mutable structures across every mutator of a 3000-line module.',
    'C28': 'ordering of group members across later main-loop iterations (history); _force_trigger_tasks is an '
           'async generator over pool state. The per-call part (queue_or_trigger) belongs to C05.',
    'C34': 'regex group extraction, str.replace and %-template formatting carry the semantics; the regex-free '
           'recursion skeleton has a contract that would restate the recursion.',
    'C36': 'file parsing, include-file inlining and Jinja2: file contents in, nested dict out; no contract over '
           'values within reach of the verifier.',
}

NOT_BUILT = {}
