"""C13 — prerequisite satisfaction equals the trigger expression's truth
(proof part: the Prerequisite class; the regex rewriting of
set_conditional_expr is a bounded stand-in, contracts/c13_bounded.py).

_satisfied : dict[(point, task, output) -> 'satisfied ...' | False]
("False" is modelled as the empty - falsy - text).

The conditional expression (present only with '|') is abstract:
    ce(self) = CE(expression text, {key | key recorded and its value truthy})
CE is an arbitrary MONOTONE function of the set of satisfied keys (graph
trigger expressions contain and / or only, no negation: assumption A-MONO,
instantiated between every two CE terms of a path).

Sat(self)   := no keys, or (ce(self) if there is an expression else every value truthy)
Cache(self) := _cached_satisfied is None or _cached_satisfied == Sat(self)"""
import z3

from pyvc.spec import (contract, schema, spec, uninterp, implies, iff, forall, exists, REG)
from pyvc.core import SV
from pyvc.kinds import BOOL, sort_of, parse_kind

Q = 'cylc.flow.prerequisite:Prerequisite.'
KEY = 'tuple[str,str,str]'

schema('Prerequisite', 'cylc.flow.prerequisite:Prerequisite', fields={
    '_satisfied': f'dict[{KEY},str]', '_cached_satisfied': 'opt[bool]',
    'conditional_expression': 'opt[str]', 'point': 'any'})
schema('RecTokens', '', fields={'cycle': 'str', 'task': 'str', 'task_sel': 'str'})


def ce(prereq):
    """native twin: evaluate the conditional expression as the real code does"""
    self = prereq   # the expression text refers to `self._satisfied[...]`
    return bool(eval(prereq.conditional_expression))  # nosec - replay of the code under test


def _ce_model(eng, args, kwargs):
    p = eng.p
    pre = eng.force(args[0])
    exprv = eng.read_field(pre, 'conditional_expression')
    os_ = sort_of(exprv.kind)
    expr = os_.val(exprv.t)
    d = eng.read_field(pre, '_satisfied')
    ks = sort_of(d.kind.key)
    has, vals = eng.dict_has(d), eng.dict_vals(d)
    k = z3.Const('k!ce', ks)
    # satmap[k] <=> key k is recorded with a truthy value (a named array, defined pointwise)
    key_ = ('satmap', has.get_id(), vals.get_id())
    cache = p.__dict__.setdefault('_satmaps', {})
    if key_ in cache:
        satmap = cache[key_]
    else:
        satmap = p.fresh('satmap', z3.ArraySort(ks, z3.BoolSort()))
        p.assume(z3.ForAll([k], z3.Select(satmap, k) ==
                           z3.And(z3.Select(has, k), z3.Length(z3.Select(vals, k)) > 0),
                           patterns=[z3.Select(satmap, k)]))
        cache[key_] = satmap
        p.__dict__.setdefault('_keep', []).extend([has, vals])
    CE = z3.Function('CE', z3.StringSort(), z3.ArraySort(ks, z3.BoolSort()), z3.BoolSort())
    t = CE(expr, satmap)
    seen = p.__dict__.setdefault('_ce_terms', [])
    for (e2, m2, t2) in seen:
        # A-MONO: more satisfied keys never make the expression false
        le12 = z3.ForAll([k], z3.Implies(z3.Select(satmap, k), z3.Select(m2, k)))
        le21 = z3.ForAll([k], z3.Implies(z3.Select(m2, k), z3.Select(satmap, k)))
        p.assume(z3.Implies(z3.And(expr == e2, le12), z3.Implies(t, t2)))
        p.assume(z3.Implies(z3.And(expr == e2, le21), z3.Implies(t2, t)))
    seen.append((expr, satmap, t))
    return SV(BOOL, t)


REG.externals[ce] = _ce_model


def _eval_sink(eng, e):
    """eval(self.conditional_expression) inside Prerequisite._eval_satisfied"""
    import ast
    if not (len(e.args) == 1 and isinstance(e.args[0], ast.Attribute)
            and e.args[0].attr == 'conditional_expression'
            and isinstance(e.args[0].value, ast.Name) and e.args[0].value.id == 'self'):
        from pyvc.core import Unsupported
        raise Unsupported('eval of something other than self.conditional_expression')
    for exc in (SyntaxError, ValueError):
        if eng.p.choose(eng.p.fresh('evalraises', z3.BoolSort())):
            eng.raise_(exc, 'eval')
    return _ce_model(eng, [eng.frame.locals['self']], {})


REG.externals[('sink', 'eval', 'Prerequisite._eval_satisfied')] = _eval_sink


def _prereq_tuple(eng, args, kwargs):
    """PrereqTuple(point, task, output): a 3-tuple of texts"""
    items = list(args) + [kwargs[n] for n in ('point', 'task', 'output') if n in kwargs]
    return eng.make_tuple(items[:3])


from cylc.flow.prerequisite import PrereqTuple  # noqa: E402
REG.externals[PrereqTuple] = _prereq_tuple
REG.tuple_classes[repr(parse_kind(KEY))] = PrereqTuple

contract('cylc.flow.prerequisite:PrereqTuple.coerce',
         sorts={'tuple_': KEY, 'result': KEY},
         ensures={'identity': 'result == tuple_'}, pure=True, assumed=True, props=['C13'],
         note='keys already carry the point as text (PrereqTuple / str(point))')


@spec
def truthy_at(pre, k):
    return k in pre._satisfied and pre._satisfied[k] != ""


@spec
def has_expr(pre):
    return pre.conditional_expression is not None and pre.conditional_expression != ""


@spec
def sat(pre):
    return (forall(lambda k: k not in pre._satisfied, k=KEY)
            or (ce(pre) if has_expr(pre)
                else forall(lambda k: implies(k in pre._satisfied, pre._satisfied[k] != ""), k=KEY)))


@spec
def anykey(pre):
    return exists(lambda k: k in pre._satisfied, k=KEY)


@spec
def alltrue(pre):
    return forall(lambda k: implies(k in pre._satisfied, pre._satisfied[k] != ""), k=KEY)


@spec
def cached(pre):
    return pre._cached_satisfied is not None


# Cache(self), stated case by case (each case is one small obligation):
@spec
def cache_expr(pre):
    return implies(cached(pre) and anykey(pre) and has_expr(pre), pre._cached_satisfied == ce(pre))


@spec
def cache_all(pre):
    return implies(cached(pre) and anykey(pre) and not has_expr(pre), pre._cached_satisfied == alltrue(pre))


@spec
def cache_empty(pre):
    return implies(cached(pre) and not anykey(pre), pre._cached_satisfied)


@spec
def cache_ok(pre):
    return cache_expr(pre) and cache_all(pre) and cache_empty(pre)


@spec
def wf(pre):
    """an expression refers to recorded keys: get_prerequisite records every
    key before set_conditional_expr, and no method removes a key"""
    return implies(has_expr(pre), anykey(pre))


_CACHE = {'wf-kept': 'wf(self)', 'cache-valid[expression]': 'cache_expr(self)', 'cache-valid[all-of]': 'cache_all(self)',
          'cache-valid[no-keys]': 'cache_empty(self)'}

_OPT = {'false_as_empty_str': True}

contract(Q + '_eval_satisfied',
         sorts={'self': 'Prerequisite', 'result': 'bool', 'res': 'bool'},
         ensures={'value': 'result == (ce(self) if has_expr(self) else '
                           'forall(lambda k: implies(k in self._satisfied, self._satisfied[k] != ""), '
                           f'k="{KEY}"))'},
         may_raise=['TriggerExpressionError'], pure=True, options=_OPT, props=['C13'])

contract(Q + 'is_satisfied',
         sorts={'self': 'Prerequisite', 'result': 'bool'},
         requires=['wf(self)', 'cache_ok(self)'],
         ensures={'equals-the-expression': 'result == sat(self)',
                  **_CACHE},
         may_raise=['TriggerExpressionError'],
         modifies=['self._cached_satisfied'], options=_OPT, props=['C13'])

contract(Q + '__setitem__', variant='str',
         sorts={'self': 'Prerequisite', 'key': KEY, 'value': 'str'},
         requires=['wf(self)', 'cache_ok(self)'],
         ensures={
             'stored': 'key in self._satisfied and self._satisfied[key] == value',
             'others-kept': 'forall(lambda k: implies(k != key, (k in self._satisfied) == '
                            'old(k in self._satisfied) and implies(k in self._satisfied, '
                            f'self._satisfied[k] == old(self._satisfied[k]))), k="{KEY}")',
             # the point of the cache logic: it is dropped unless provably still right
             **_CACHE,
         },
         modifies=['self._satisfied[*]', 'self._cached_satisfied'], options=_OPT, props=['C13'])

contract(Q + '__setitem__', variant='bool',
         sorts={'self': 'Prerequisite', 'key': KEY, 'value': 'bool'},
         requires=['wf(self)', 'cache_ok(self)'],
         ensures={
             'stored': 'key in self._satisfied and '
                       'self._satisfied[key] == ("satisfied naturally" if value else "")',
             'others-kept': 'forall(lambda k: implies(k != key, (k in self._satisfied) == '
                            'old(k in self._satisfied) and implies(k in self._satisfied, '
                            f'self._satisfied[k] == old(self._satisfied[k]))), k="{KEY}")',
             **_CACHE,
         },
         modifies=['self._satisfied[*]', 'self._cached_satisfied'], options=_OPT, props=['C13', 'C30'])

contract(Q + 'set_satisfied',
         sorts={'self': 'Prerequisite'},
         requires=['wf(self)', 'cache_ok(self)'],
         ensures={
             'all-truthy': f'forall(lambda k: implies(k in self._satisfied, self._satisfied[k] != ""), k="{KEY}")',
             'same-keys': f'forall(lambda k: (k in self._satisfied) == old(k in self._satisfied), k="{KEY}")',
             'already-satisfied-kept':
                 'forall(lambda k: implies(old(truthy_at(self, k)), '
                 f'self._satisfied[k] == old(self._satisfied[k])), k="{KEY}")',
             'newly-satisfied-are-forced':
                 'forall(lambda k: implies(k in self._satisfied and not old(truthy_at(self, k)), '
                 f'self._satisfied[k] == "force satisfied"), k="{KEY}")',
             **_CACHE,
         },
         loops={0: dict(invariant=[
             f'forall(lambda k: (k in self._satisfied) == old(k in self._satisfied), k="{KEY}")',
             'forall(lambda k: implies(k in self._satisfied and indexof(self._satisfied, k) < _i, '
             f'self._satisfied[k] != ""), k="{KEY}")',
             'forall(lambda k: implies(old(truthy_at(self, k)), '
             f'self._satisfied[k] == old(self._satisfied[k])), k="{KEY}")',
             'forall(lambda k: implies(k in self._satisfied and not old(truthy_at(self, k)), '
             f'self._satisfied[k] == "force satisfied" or self._satisfied[k] == ""), k="{KEY}")',
         ], modifies=['self._satisfied[*]'])},
         may_raise=['TriggerExpressionError'],
         modifies=['self._satisfied[*]', 'self._cached_satisfied'], options=_OPT, props=['C13', 'C29'])


@spec
def tup(o):
    return (o['cycle'], o['task'], o['task_sel'])


@uninterp([KEY], 'str')
def key_id(k):
    """PrereqTuple.get_id(): relative id 'point/task' of a key"""
    return f'{k[0]}/{k[1]}'


contract('cylc.flow.prerequisite:PrereqTuple.get_id',
         sorts={'self': KEY, 'result': 'str'},
         ensures={'id': 'result == key_id(self)'}, pure=True, assumed=True, props=['C13'],
         note='quick_relative_id(point, task); only its being a function of the key matters')

contract(Q + 'satisfy_me',
         sorts={'self': 'Prerequisite', 'outputs': 'list[RecTokens]', 'mode': 'any', 'forced': 'bool'},
         requires=['wf(self)', 'cache_ok(self)'],
         ensures={
             'same-keys': f'forall(lambda k: (k in self._satisfied) == old(k in self._satisfied), k="{KEY}")',
             'given-outputs-satisfied':
                 'forall(lambda j: implies(0 <= j and j < len(outputs) and tup(outputs[j]) in self._satisfied, '
                 'self._satisfied[tup(outputs[j])] != ""))',
             'only-given-outputs-change':
                 'forall(lambda k: implies(k in self._satisfied and self._satisfied[k] != old(self._satisfied[k]), '
                 'old(self._satisfied[k]) == "" and self._satisfied[k] != "" and '
                 f'exists(lambda j: 0 <= j and j < len(outputs) and tup(outputs[j]) == k)), k="{KEY}")',
             **_CACHE,
         },
         loops={0: dict(invariant=[
             'wf(self)', 'cache_ok(self)',
             f'forall(lambda k: (k in self._satisfied) == old(k in self._satisfied), k="{KEY}")',
             'forall(lambda j: implies(0 <= j and j < _i and tup(outputs[j]) in self._satisfied, '
             'self._satisfied[tup(outputs[j])] != ""))',
             'forall(lambda k: implies(k in self._satisfied and self._satisfied[k] != old(self._satisfied[k]), '
             'old(self._satisfied[k]) == "" and self._satisfied[k] != "" and '
             f'exists(lambda j: 0 <= j and j < _i and tup(outputs[j]) == k)), k="{KEY}")',
         ], modifies=['self._satisfied[*]', 'self._cached_satisfied'])},
         modifies=['self._satisfied[*]', 'self._cached_satisfied'], options=_OPT, props=['C13'])

contract(Q + 'unset_naturally_satisfied',
         sorts={'self': 'Prerequisite', 'id_': 'str', 'result': 'bool'},
         requires=['wf(self)', 'cache_ok(self)'],
         ensures={
             'same-keys': f'forall(lambda k: (k in self._satisfied) == old(k in self._satisfied), k="{KEY}")',
             'matching-natural-unset':
                 'forall(lambda k: implies(k in self._satisfied and key_id(k) == id_ and '
                 f'old(self._satisfied[k]) != "force satisfied", self._satisfied[k] == ""), k="{KEY}")',
             'others-kept':
                 'forall(lambda k: implies(k in self._satisfied and not (key_id(k) == id_ and '
                 'old(self._satisfied[k]) != "force satisfied"), '
                 f'self._satisfied[k] == old(self._satisfied[k])), k="{KEY}")',
             'changed': 'result == exists(lambda k: k in self._satisfied and key_id(k) == id_ and '
                        'old(self._satisfied[k]) != "" and old(self._satisfied[k]) != "force satisfied", '
                        f'k="{KEY}")',
             **_CACHE,
         },
         loops={0: dict(invariant=[
             'wf(self)', 'cache_ok(self)',
             f'forall(lambda k: (k in self._satisfied) == old(k in self._satisfied), k="{KEY}")',
             'forall(lambda j: implies(0 <= j and j < _i and key_id(keyat(self._satisfied, j)) == id_ and '
             'old(self._satisfied[keyat(self._satisfied, j)]) != "force satisfied", '
             'self._satisfied[keyat(self._satisfied, j)] == ""))',
             'forall(lambda k: implies(k in self._satisfied and not (key_id(k) == id_ and '
             'old(self._satisfied[k]) != "force satisfied"), '
             f'self._satisfied[k] == old(self._satisfied[k])), k="{KEY}")',
             'forall(lambda j: implies(_i <= j and j < len(self._satisfied), '
             'self._satisfied[keyat(self._satisfied, j)] == old(self._satisfied[keyat(self._satisfied, j)])))',
             'changed == exists(lambda j: 0 <= j and j < _i and key_id(keyat(self._satisfied, j)) == id_ and '
             'old(self._satisfied[keyat(self._satisfied, j)]) != "" and '
             'old(self._satisfied[keyat(self._satisfied, j)]) != "force satisfied")',
         ], modifies=['self._satisfied[*]', 'self._cached_satisfied'])},
         modifies=['self._satisfied[*]', 'self._cached_satisfied'], options=_OPT, props=['C13', 'C30'])
