"""C13, bounded companion (NOT a proof) of the Prerequisite class contracts of
contracts/c13_prereq.py.

Why it exists.  The class contracts are quantified over all keys; when a
change of the code breaks one of them z3 usually answers `unknown` (no model
for a quantified path condition) rather than `sat`, and an `unknown` is never
reported as a violation (DESIGN 2.6).  This enumeration is the native search
that turns such a case into a failing input of the REAL class - or finds none.
On the unchanged tree it adds nothing to the proof and is reported under
coverage.bounded_standins_not_proofs.

What is enumerated (exhaustively, no sampling):
  * key sets of 1..3 recorded outputs, including two outputs of one task
    (same id for unset_naturally_satisfied);
  * no conditional expression (all-of) and every and/or tree over the keys that
    contains an `|`, installed through the real set_conditional_expr;
  * every initial state of each key (unsatisfied / naturally / force satisfied);
  * every sequence of <= L operations out of
      is_satisfied(), satisfy_me([k]) natural / forced / skip mode,
      set_satisfied(), unset_naturally_satisfied(id), self[k] = False / True
    on the real object.
After every operation the recorded states are compared with the operation's
specification (the ensures clauses of the contract, restated natively), and at
the end of every sequence is_satisfied() is compared with Sat(self) computed
from scratch from the recorded states and the user's expression tree.

Scope quick: <= 2 keys with L = 3, 3 keys with L = 2; thorough: 3 keys with L = 3."""
import itertools

NAT, FORCED, SKIP = 'satisfied naturally', 'force satisfied', 'satisfied by skip mode'

KEYSETS = [
    [('1', 'a', 'succeeded')],
    [('1', 'a', 'succeeded'), ('1', 'b', 'succeeded')],
    [('1', 'a', 'succeeded'), ('1', 'a', 'failed')],
    [('1', 'a', 'succeeded'), ('1', 'a', 'the x message'), ('2', 'b', 'succeeded')],
]


def _trees(n):
    def build(lo, hi):
        if hi - lo == 1:
            yield lo
            return
        for mid in range(lo + 1, hi):
            for left in build(lo, mid):
                for right in build(mid, hi):
                    for op in '&|':
                        yield (op, left, right)
    return list(build(0, n))


def _has_or(tree):
    return not isinstance(tree, int) and (tree[0] == '|' or _has_or(tree[1]) or _has_or(tree[2]))


def _text(tree, keys):
    if isinstance(tree, int):
        return '%s/%s %s' % keys[tree]
    op, a, b = tree
    return f'({_text(a, keys)}{op}{_text(b, keys)})'


def _truth(tree, val):
    if isinstance(tree, int):
        return val[tree]
    op, a, b = tree
    return (_truth(a, val) and _truth(b, val)) if op == '&' else (_truth(a, val) or _truth(b, val))


def _ops(keys):
    ids = sorted({f'{k[0]}/{k[1]}' for k in keys})
    ops = [('is_satisfied',), ('set_satisfied',)]
    for i in range(len(keys)):
        ops += [('satisfy_me', i, 'natural'), ('satisfy_me', i, 'forced'), ('satisfy_me', i, 'skip'),
                ('setitem', i, False), ('setitem', i, True)]
    ops += [('unset', id_) for id_ in ids]
    return ops


def _apply(pre, keys, op, RunMode):
    """run one operation on the real object; return a description of a broken
    per-operation clause, or None"""
    before = {k: pre._satisfied[k] for k in keys}
    if op[0] == 'is_satisfied':
        pre.is_satisfied()
        want = dict(before)
    elif op[0] == 'set_satisfied':
        pre.set_satisfied()
        want = {k: (v if v else FORCED) for k, v in before.items()}
    elif op[0] == 'satisfy_me':
        k = keys[op[1]]
        tok = {'cycle': k[0], 'task': k[1], 'task_sel': k[2]}
        pre.satisfy_me([tok], mode=(RunMode.SKIP if op[2] == 'skip' else None), forced=(op[2] == 'forced'))
        new = FORCED if op[2] == 'forced' else SKIP if op[2] == 'skip' else NAT
        want = dict(before)
        if not before[k]:
            want[k] = new
    elif op[0] == 'setitem':
        k = keys[op[1]]
        pre[k] = op[2]
        want = dict(before)
        want[k] = NAT if op[2] else False
    else:
        res = pre.unset_naturally_satisfied(op[1])
        want = {k: (False if (f'{k[0]}/{k[1]}' == op[1] and v and v != FORCED) else v)
                for k, v in before.items()}
        if bool(res) != (want != before):
            return f'unset_naturally_satisfied({op[1]!r}) returned {res!r}'
    got = {tuple(k): v for k, v in pre._satisfied.items()}
    if got != want:
        return f'recorded states after {op} are {got}, specified {want}'
    return None


def check(tier='quick', seed=0):
    from cylc.flow.cycling.integer import IntegerPoint
    from cylc.flow.prerequisite import Prerequisite
    from cylc.flow.run_modes import RunMode
    n_seq = n_cmp = bad = 0
    witnesses = []
    outcomes = set()

    def fail(**w):
        nonlocal bad
        bad += 1
        if len(witnesses) < 5:
            witnesses.append(w)

    for keys in KEYSETS:
        n = len(keys)
        depth = 3 if (n <= 2 or tier != 'quick') else 2
        ops = _ops(keys)
        exprs = [None] + [t for t in _trees(n) if _has_or(t)]
        for tree in exprs:
            for init in itertools.product([False, NAT, FORCED], repeat=n):
                for length in range(1, depth + 1):
                    for seq in itertools.product(ops, repeat=length):
                        pre = Prerequisite(IntegerPoint('1'))
                        for k, v in zip(keys, init):
                            pre[k] = v
                        if tree is not None:
                            pre.set_conditional_expr(_text(tree, keys))
                        n_seq += 1
                        broken = None
                        try:
                            for op in seq:
                                broken = _apply(pre, keys, op, RunMode)
                                if broken:
                                    break
                            if broken is None:
                                val = [bool(pre._satisfied[k]) for k in keys]
                                want = _truth(tree, val) if tree is not None else all(val)
                                got = pre.is_satisfied()
                                n_cmp += 1
                                outcomes.add((n, tree is not None, bool(got)))
                                if got is not want:
                                    broken = (f'is_satisfied() == {got!r}, the expression over the recorded '
                                              f'states is {want!r}')
                        except Exception as ex:    # noqa: BLE001
                            broken = f'raised {ex!r}'
                        if broken:
                            fail(keys=keys, expression=None if tree is None else _text(tree, keys),
                                 initial=list(init), operations=[list(o) for o in seq], failure=broken)
    res = dict(name='bounded::Prerequisite operations keep is_satisfied() equal to the expression over the '
                    'recorded states',
               kind='bounded', backend='native-enumeration', evaluations=n_cmp,
               distinct_outcomes=len(outcomes),
               detail=f'{n_seq} operation sequences on the real class, {n_cmp} compared at their end; '
                      f'exhaustive: key sets {[len(k) for k in KEYSETS]}, all and/or trees with an "|" and the '
                      'all-of form, all initial states, all sequences of is_satisfied / satisfy_me / '
                      'set_satisfied / unset_naturally_satisfied / __setitem__ up to length '
                      f'{3 if tier != "quick" else "3 (<= 2 keys) / 2 (3 keys)"}; NOT a proof')
    res['verdict'] = 'refuted' if bad else 'proved'
    if bad:
        res['witness'] = witnesses
        res['failures'] = bad
    return [res]
