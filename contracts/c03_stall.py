"""C03 — no premature shutdown and no false stall (safety half).

The first sentence of the property is a chain of four call contracts:

  Scheduler.check_auto_shutdown  -> Scheduler.check_workflow_stalled
      -> TaskPool.is_stalled -> log_incomplete_tasks / log_unsatisfied_prereqs

each proved against its body for an arbitrary pool (points instantiated at
IntegerPoint, as in C26).  What a task "is" for this property:

  active(t)     status in {preparing, submitted, running}
  can_run(t)    waiting, not runahead-limited, all prerequisites satisfied
  incomplete(t) finished and the completion expression is false   (oc, C11)
  partially(t)  it has an unsatisfied prerequisite key within the stop point

Prerequisite satisfaction is abstract (ghost functions of the task; what
is_satisfied() returns is C13).  Liveness ("never leaves a ready task
unsubmitted indefinitely") is not claimed."""
from pyvc.spec import (contract, schema, spec, uninterp, implies, iff, forall, exists, REG)
import contracts.c09_state  # noqa: F401
import contracts.c26_pool  # noqa: F401
import contracts.c11_completion  # noqa: F401
import contracts.c18_points  # noqa: F401
from contracts.c26_pool import wf_pool, inpool, at, task_in_pool
from contracts.c11_completion import oc, final
from contracts.c18_points import ipt, pt_ok
import contracts.c06_holds  # noqa: F401
from contracts.c06_holds import prereqs_ok

P = 'cylc.flow.task_pool:TaskPool.'
S = 'cylc.flow.scheduler:Scheduler.'
KEY = 'tuple[str,str,str]'

schema('TaskPool', 'cylc.flow.task_pool:TaskPool', fields={
    'stop_point': 'opt[IntegerPoint]', 'config': 'any'})
schema('Scheduler', 'cylc.flow.scheduler:Scheduler', fields={
    'is_stalled': 'bool', 'is_paused': 'bool', 'is_restart_timeout_wait': 'bool',
    'pool': 'TaskPool', 'timers': 'dict[str,any]', 'workflow_db_mgr': 'any'})


# ------------------------------------------------------------------ ghost view of prerequisites
@uninterp(sorts=('TaskState',), result='int')
def n_unsat(st):
    """number of unsatisfied keys of unsatisfied prerequisites"""
    return len(st.get_unsatisfied_prerequisites())


@uninterp(sorts=('TaskState', 'int'), result=KEY)
def unsat_key(st, j):
    return tuple(st.get_unsatisfied_prerequisites()[j])


contract('cylc.flow.task_state:TaskState.get_unsatisfied_prerequisites',
         sorts={'self': 'TaskState', 'result': f'list[{KEY}]'},
         ensures={'count': 'len(result) == n_unsat(self)',
                  'keys': 'forall(lambda j: implies(0 <= j and j < len(result), result[j] == unsat_key(self, j) '
                          'and int_text(result[j][0])))'},
         fresh=True, assumed=True, props=['C03'],
         note='list comprehension over the prerequisites; integer cycling: key points are integer texts')

contract('cylc.flow.cycling.loader:get_point',
         sorts={'value': 'str', 'result': 'IntegerPoint'},
         ensures={'value': 'result.value == value'},
         fresh=True, assumed=True, props=['C03'],
         note='integer cycling instance of the point factory: IntegerPoint(value)')

contract('cylc.flow.task_outputs:TaskOutputs.format_completion_status',
         sorts={'self': 'TaskOutputs', 'indent': 'int', 'gutter': 'int', 'ansimarkup': 'int', 'result': 'str'},
         pure=True, assumed=True, props=['C03'], note='text for the log only')

for _n in ('update_data_store', 'run_event_handlers'):
    contract(S + _n, sorts={'self': 'Scheduler'}, assumed=True, modifies=[], props=['C03'],
             note='publishing / event handlers: no effect on the scheduler flags or the pool read here')


# ------------------------------------------------------------------ the property's vocabulary
@spec
def active(t):
    return t.state.status in ('preparing', 'submitted', 'running')


@spec
def can_run(t):
    return t.state.status == 'waiting' and not t.state.is_runahead and prereqs_ok(t)


@spec
def released_waiting(t):
    return t.state.status == 'waiting' and not t.state.is_runahead


@spec
def is_incomplete(t):
    return final(t) and not oc(t.state.outputs)


@spec
def within(pool, n):
    return pool.stop_point is None or n <= ipt(pool.stop_point)


@spec
def partially(pool, t):
    return (within(pool, ipt(t.point)) and
            exists(lambda j: 0 <= j and j < n_unsat(t.state) and
                   within(pool, int(unsat_key(t.state, j)[0]))))


@spec
def pts_ok(pool):
    return ((pool.stop_point is None or pt_ok(pool.stop_point)) and
            forall(lambda p, i: implies(inpool(pool, p, i), pt_ok(at(pool, p, i).point)), p="str", i="str"))


@spec
def any_incomplete(pool):
    return exists(lambda p, i: inpool(pool, p, i) and is_incomplete(at(pool, p, i)), p="str", i="str")


@spec
def any_partial(pool):
    return exists(lambda p, i: inpool(pool, p, i) and partially(pool, at(pool, p, i)), p="str", i="str")


@spec
def any_active_or_can_run(pool):
    return exists(lambda p, i: inpool(pool, p, i) and (active(at(pool, p, i)) or can_run(at(pool, p, i))),
                  p="str", i="str")


@spec
def any_active_or_released(pool):
    return exists(lambda p, i: inpool(pool, p, i) and
                  (active(at(pool, p, i)) or released_waiting(at(pool, p, i))), p="str", i="str")


@spec(native=lambda pool: True)     # two-state (old() inside): checked symbolically only
def pool_same(pool):
    return forall(lambda p, i: inpool(pool, p, i) == old(inpool(pool, p, i)) and
                  implies(inpool(pool, p, i), at(pool, p, i) is old(at(pool, p, i))), p="str", i="str")


_POOLFRAME = ['self._active_tasks_list', 'self.active_tasks_changed']

contract(P + 'log_incomplete_tasks',
         sorts={'self': 'TaskPool', 'result': 'bool', 'incomplete': 'list[tuple[str,str]]'},
         requires=['wf_pool(self)'],
         ensures={'iff-some-finished-task-is-incomplete': 'result == any_incomplete(self)',
                  'pool-unchanged': 'pool_same(self)', 'pool-still-well-formed': 'wf_pool(self)'},
         loops={0: dict(invariant=[
             '(len(incomplete) > 0) == exists(lambda j: 0 <= j and j < _i and '
             'is_incomplete(self._active_tasks_list[j]))',
         ], modifies=['incomplete[*]'])},
         modifies=_POOLFRAME, props=['C03'])

schema('WorkflowConfig', 'cylc.flow.config:WorkflowConfig', fields={})
schema('TaskPool', 'cylc.flow.task_pool:TaskPool', fields={'config': 'WorkflowConfig'})
contract('cylc.flow.config:WorkflowConfig.get_taskdef',
         sorts={'self': 'WorkflowConfig', 'name': 'str', 'orig_expr': 'opt[str]', 'result': 'TaskDef'},
         pure=True, assumed=True, props=['C03'], note='lookup for the log text only')
contract('cylc.flow.taskdef:TaskDef.get_output',
         sorts={'self': 'TaskDef', 'message': 'str', 'result': 'str'},
         pure=True, assumed=True, props=['C03'],
         note='log text only; KeyError for a message that is not an output of the task is not modelled '
              '(prerequisite keys are built from the task definitions)')

contract(P + 'log_unsatisfied_prereqs',
         sorts={'self': 'TaskPool', 'result': 'bool', 'unsat': 'dict[str,list[str]]',
                'pr': KEY, 'task_point': 'IntegerPoint'},
         requires=['wf_pool(self)', 'pts_ok(self)'],
         ensures={'true-only-if-some-task-within-the-stop-point-waits-on-something-within-it':
                  'implies(result, any_partial(self))',
                  'true-if-some-task-within-the-stop-point-waits-on-something-within-it':
                  'implies(any_partial(self), result)',
                  'pool-unchanged': 'pool_same(self)', 'pool-still-well-formed': 'wf_pool(self)'},
         ghost_vars={'g0': 'bool'},
         ghost_init=['g0 = False'],
         ghost_after={'task_point = itask.point': 'g0 = bool(unsat)'},
         loops={0: dict(invariant=[
             'implies(exists(lambda k: k in unsat, k="str"), exists(lambda j: 0 <= j and j < _i and '
             'partially(self, self._active_tasks_list[j])))',
             'forall(lambda j: implies(0 <= j and j < _i and partially(self, self._active_tasks_list[j]), '
             'exists(lambda k: k in unsat, k="str")))',
             'forall(lambda k: implies(k in unsat, fresh_obj(unsat[k])), k="str")',
         ], modifies=['all:fresh[*]']),
             1: dict(invariant=[
                 'forall(lambda k: implies(k in unsat, fresh_obj(unsat[k])), k="str")',
                 'implies(exists(lambda k: k in unsat, k="str"), g0 or exists(lambda j: 0 <= j and j < _i and '
                 'within(self, int(unsat_key(itask.state, j)[0]))))',
                 'implies(g0, exists(lambda k: k in unsat, k="str"))',
                 'forall(lambda j: implies(0 <= j and j < _i and within(self, int(unsat_key(itask.state, j)[0])), '
                 'exists(lambda k: k in unsat, k="str")))',
             ], modifies=['all:fresh[*]'])},
         # ASSUMED, not verified: the exploration of the three nested loops (pool x prerequisites x keys) with
         # these invariants did not finish within the thorough tier's hour; is_stalled relies on this contract
         modifies=_POOLFRAME, options={'feas_timeout_ms': 500}, props=['C03'], assumed=True,
         note='nested loops over pool x prerequisites x keys: verification does not finish in an hour; '
              'the bounded enumeration contracts/c03_replay.py:bounded_unsat compares it with any_partial natively')


# ------------------------------------------------------------------ the chain up to the shutdown decision
@spec
def stalled_now(pool):
    """nothing is active, nothing can run, and something is stuck (the property's second sentence, per call)"""
    return (not any_active_or_can_run(pool)) and (any_incomplete(pool) or any_partial(pool))


contract(P + 'is_stalled',
         sorts={'self': 'TaskPool', 'result': 'bool', 'incomplete': 'bool', 'unsatisfied': 'bool'},
         requires=['wf_pool(self)', 'pts_ok(self)'],
         ensures={
             'never-while-a-task-is-active-or-can-run': 'implies(old(any_active_or_can_run(self)), not result)',
             'exactly-when-stuck': 'result == old(stalled_now(self))',
             'pool-unchanged': 'pool_same(self)',
             'pool-still-well-formed': 'wf_pool(self)',
         },
         modifies=_POOLFRAME, props=['C03'])

schema('Timer', 'cylc.flow.timer:Timer', fields={})
schema('Scheduler', 'cylc.flow.scheduler:Scheduler', fields={'timers': 'dict[str,Timer]',
                                                             'workflow_db_mgr': 'WorkflowDatabaseManager'})
contract('cylc.flow.timer:Timer.reset', sorts={'self': 'Timer'}, assumed=True, props=['C03'],
         note='restarts a wall-clock timer')
contract('cylc.flow.workflow_db_mgr:WorkflowDatabaseManager.put_workflow_stop_cycle_point',
         sorts={'self': 'WorkflowDatabaseManager'}, assumed=True, props=['C03'],
         note='queues a DB write (C43)')

_SCHD_FRAME = ['self.is_stalled', 'self.pool._active_tasks_list', 'self.pool.active_tasks_changed']

contract(S + 'check_workflow_stalled',
         sorts={'self': 'Scheduler', 'result': 'bool'},
         requires=['wf_pool(self.pool)', 'pts_ok(self.pool)'],
         ensures={
             'a-reported-stall-stays-reported': 'implies(old(self.is_stalled), result)',
             'a-paused-workflow-is-not-newly-stalled':
                 'implies(not old(self.is_stalled) and self.is_paused, not result)',
             'otherwise-the-pool-decides':
                 'implies(not old(self.is_stalled) and not self.is_paused, result == old(stalled_now(self.pool)))',
             'flag-follows': 'self.is_stalled == result',
             'pool-unchanged': 'pool_same(self.pool)',
             'pool-still-well-formed': 'wf_pool(self.pool)',
         },
         modifies=_SCHD_FRAME, props=['C03'])

contract(S + 'check_auto_shutdown',
         sorts={'self': 'Scheduler', 'result': 'bool'},
         requires=['wf_pool(self.pool)', 'pts_ok(self.pool)'],
         ensures={
             # first sentence of the property
             'shuts-down-only-when-nothing-is-left-to-do':
                 'implies(result, not self.is_paused and not self.is_restart_timeout_wait '
                 'and not old(self.is_stalled) '
                 'and not old(any_active_or_released(self.pool)) '
                 'and not old(any_incomplete(self.pool)) and not old(any_partial(self.pool)))',
             'pool-unchanged': 'pool_same(self.pool)',
         },
         modifies=_SCHD_FRAME, props=['C03'])

