"""C16 - bounded companion for exclusion sequences (the deductive contracts of c16_integer / c16_init keep
the exclusion object abstract: `point in self.exclusions` is an uninterpreted membership).  BOUNDED.

Contract checked at run time on the REAL IntegerSequence, for every recurrence of the box in `rule`:

    S := (arithmetic progression of the recurrence form, computed by the independent oracle below)
         intersected with [initial, final], minus the exclusion points, minus the points of each exclusion
         sequence (itself a recurrence read in the context [first, last point of the parent])
    is_valid(p) == (p in S); get_next_point(p) == min{q in S | q > p}; get_prev_point(p) (p in S) and
    get_nearest_prev_point(p) == max{q in S | q < p}; get_first_point(p) == min{q in S | q >= p};
    get_start_point() == min S; get_stop_point() == max S  (None where there is none)."""
import itertools

LO, HI = -3, 30


def _prog(form, c0, c1):
    """points of a recurrence form before clipping, as a finite list inside [LO-40, HI+40]"""
    kind = form[0]
    big = range(0, 80)
    if kind == 'Rn/S/E':
        _, n, s, e = form
        if n == 1:
            return [s]
        step = (e - s) // (n - 1)
        return [s + i * step for i in range(n)]
    if kind == 'S/Pk':
        _, s, k = form
        return [s + i * k for i in big]
    if kind == 'Pk':
        _, k = form
        return [c0 + i * k for i in big]
    if kind == 'Pk/E':
        _, k, e = form
        return [e - i * k for i in big]
    if kind == 'Rn/S/Pk':
        _, n, s, k = form
        return [s + i * k for i in range(max(n, 1))]
    if kind == 'Rn/Pk/E':
        _, n, k, e = form
        return [e - i * k for i in range(max(n, 1))]
    if kind == 'Rn/Pk':
        _, n, k = form
        return [c1 - i * k for i in range(max(n, 1))]
    if kind == 'R1':
        return [c0]
    if kind == 'R1/S':
        return [form[1]]
    if kind == 'R1//E':
        return [form[1]]
    raise KeyError(kind)


def _text(form, c0, c1, rel=False):
    """recurrence text; with rel, START / END are written relative to the context (+Pj / -Pj)"""
    def S(v):
        return ('+P%d' % (v - c0)) if rel and v >= c0 else str(v)

    def E(v):
        return ('-P%d' % (c1 - v)) if rel and v <= c1 else str(v)
    kind = form[0]
    if kind == 'Rn/S/E':
        return f'R{form[1]}/{S(form[2])}/{E(form[3])}'
    if kind == 'S/Pk':
        return f'{S(form[1])}/P{form[2]}'
    if kind == 'Pk':
        return f'P{form[1]}'
    if kind == 'Pk/E':
        return f'P{form[1]}/{E(form[2])}'
    if kind == 'Rn/S/Pk':
        return f'R{form[1]}/{S(form[2])}/P{form[3]}'
    if kind == 'Rn/Pk/E':
        return f'R{form[1]}/P{form[2]}/{E(form[3])}'
    if kind == 'Rn/Pk':
        return f'R{form[1]}/P{form[2]}'
    if kind == 'R1':
        return 'R1'
    if kind == 'R1/S':
        return f'R1/{S(form[1])}'
    if kind == 'R1//E':
        return f'R1//{E(form[1])}'
    raise KeyError(kind)


def _forms(c0, c1, small):
    pts = [c0 - 2, c0, c0 + 1, c0 + 3, c1 - 2, c1, c1 + 2] if not small else [c0, c0 + 2, c1 - 1]
    steps = [1, 2, 3] if not small else [1, 2]
    reps = [1, 2, 3] if not small else [2, 3]
    out = [('R1',)]
    for k in steps:
        out += [('Pk', k)]
        out += [('S/Pk', s, k) for s in pts] + [('Pk/E', k, e) for e in pts]
        out += [('Rn/Pk', n, k) for n in reps]
        out += [('Rn/S/Pk', n, s, k) for n in reps for s in pts]
        out += [('Rn/Pk/E', n, k, e) for n in reps for e in pts]
    out += [('R1/S', s) for s in pts] + [('R1//E', e) for e in pts]
    for n in reps:
        for s, e in itertools.product(pts, pts):
            if n == 1 or (e >= s and (e - s) % (n - 1) == 0 and (e > s)):
                out.append(('Rn/S/E', n, s, e))
    return out


def _in_domain(seq, name, p, c0, c1):
    """The domains of the deductive contracts in c16_integer (outside them lie the known findings
    already listed for C16 in known_findings.json: one-off sequences outside the context or with their only
    point excluded, queries more than one step outside the bounds, empty clipped sets)."""
    start, stop = int(seq.p_start), (int(seq.p_stop) if seq.p_stop is not None else None)
    step = int(seq.i_step) if seq.i_step else None
    if stop is not None and stop < start:
        return False                                     # kf_empty_set
    if step is None and not (c0 <= start <= c1):
        return False                                     # kf_oneoff_unclipped
    if step is None and seq.exclusions is not None and seq.p_start in seq.exclusions:
        return False                                     # kf_oneoff_excluded
    if name in ('get_prev_point', 'get_nearest_prev_point'):
        if step is None and p > start:
            return False                                 # kf_prev_far_or_oneoff (one-off part)
    return True


def _clip(points, c0, c1):
    return sorted({p for p in points if c0 <= p <= c1})


def check(tier='quick', seed=0):
    from cylc.flow.cycling.integer import IntegerSequence, IntegerPoint
    contexts = [(1, 12), (0, 7)] if tier == 'quick' else [(1, 12), (0, 7), (5, 20), (-2, 9)]
    n_eval, n_seq, bad, samples, distinct, rejected = 0, 0, [], [], set(), 0
    for c0, c1 in contexts:
        parents = _forms(c0, c1, small=False)
        for parent in parents:
            base = _clip(_prog(parent, c0, c1), c0, c1)
            if not base:
                continue
            p_lo, p_hi = base[0], base[-1]
            # exclusions: none, points, and sequences read in the context [p_lo, p_hi]
            excls = [((), ())]
            excls += [((x,), ()) for x in {p_lo, p_hi, base[len(base) // 2]}]
            if len(base) >= 2:
                excls.append(((base[-1], base[-2]), ()))
                excls.append(((base[0], base[1]), ()))
            for ef in _forms(p_lo, p_hi, small=True):
                excls.append(((), (ef,)))
            excls.append(((p_lo,), (('Pk', 2),)))
            for rel in (False, True):
                for xpts, xseqs in excls:
                    if rel and (xpts or xseqs) and tier == 'quick' and (len(xseqs) and xseqs[0][0] not in
                                                                           ('Rn/S/Pk', 'S/Pk', 'Pk/E')):
                        continue
                    removed = set(xpts)
                    for ef in xseqs:
                        removed |= set(_clip(_prog(ef, p_lo, p_hi), p_lo, p_hi))
                    S = [p for p in base if p not in removed]
                    text = _text(parent, c0, c1, rel)
                    items = [str(x) for x in xpts] + [_text(ef, p_lo, p_hi, rel) for ef in xseqs]
                    if len(items) == 1:
                        text += '!' + items[0]
                    elif items:
                        text += '!(' + ','.join(items) + ')'
                    try:
                        seq = IntegerSequence(text, c0, c1)
                    except Exception:     # noqa: BLE001 - a form Cylc rejects is outside the property
                        rejected += 1
                        continue
                    n_seq += 1
                    where = dict(recurrence=text, initial=c0, final=c1, expected_points=S)
                    for name in ('get_start_point', 'get_stop_point'):
                        if not _in_domain(seq, name, None, c0, c1):
                            continue
                        got = getattr(seq, name)()
                        got = int(got) if got is not None else None
                        want = (S[0] if name == 'get_start_point' else S[-1]) if S else None
                        n_eval += 1
                        if got != want and len(bad) < 12:
                            bad.append(dict(where, query=name, got=got, expected=want))
                    for p in range(c0 - 3, c1 + 4):
                        pt = IntegerPoint(p)
                        for name in ('is_valid', 'get_next_point', 'get_prev_point', 'get_nearest_prev_point',
                                     'get_first_point'):
                            if name == 'get_prev_point' and p not in S:
                                continue
                            if not _in_domain(seq, name, p, c0, c1):
                                continue
                            got = getattr(seq, name)(pt)
                            if name == 'is_valid':
                                got, want = bool(got), p in S
                            else:
                                got = int(got) if got is not None else None
                                if name == 'get_next_point':
                                    c = [q for q in S if q > p]
                                    want = c[0] if c else None
                                elif name == 'get_first_point':
                                    c = [q for q in S if q >= p]
                                    want = c[0] if c else None
                                else:
                                    c = [q for q in S if q < p]
                                    want = c[-1] if c else None
                            n_eval += 1
                            distinct.add((text, name, got))
                            if got != want and len(bad) < 12:
                                bad.append(dict(where, query=name, point=p, got=got, expected=want))
                    if len(samples) < 3 and xseqs and len(S) >= 2:
                        samples.append(dict(where))
    name = ('bounded::integer recurrences with exclusion points and exclusion sequences: membership, next / '
            'previous / first / nearest-previous, start and stop agree with the clipped progression minus exclusions')
    rule = (f'contexts {contexts}; parent forms Rn/S/E, S/Pk, Pk, Pk/E, Rn/S/Pk, Rn/Pk/E, Rn/Pk, R1, R1/S, R1//E '
            'with START/END in {initial-2, initial, +1, +3, final-2, final, final+2}, steps 1-3, repetitions 1-3, '
            'absolute and +P/-P relative spelling; exclusions: none, 1-2 points (first, last, middle, the last two, '
            'the first two), one exclusion sequence of every form with narrower bounds, point + sequence; every '
            f'point in [initial-3, final+3]: {n_seq} sequences ({rejected} rejected by Cylc: skipped); exhaustive '
            'inside that box; distinct = distinct (recurrence, query, answer)')
    base_d = dict(name=name, kind='bounded', evaluations=n_eval, distinct=len(distinct), rule=rule, samples=samples,
                  exhaustive=True)
    if n_seq < 1000:
        return [dict(base_d, verdict='unknown', detail=f'only {n_seq} sequences accepted')]
    if bad:
        return [dict(base_d, verdict='refuted', witness=bad, detail=f'{len(bad)} disagreements')]
    return [dict(base_d, verdict='proved', detail=f'{n_eval} answers over {n_seq} sequences')]
