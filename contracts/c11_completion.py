"""C11 — tasks are retained exactly when incomplete (proof part: the removal
decision; the meaning of the generated completion expression is the bounded
stand-in contracts/c11_bounded.py)."""
from pyvc.spec import (contract, schema, spec, uninterp, implies, iff, forall, exists, REG)
import contracts.c09_state  # noqa: F401
from contracts.c26_pool import inpool, at, wf_entries, has_bucket  # noqa: F401

P = 'cylc.flow.task_pool:TaskPool.'
REG.symbolic_globals['cylc.flow.flags:cylc7_back_compat'] = 'bool'

schema('TaskPool', 'cylc.flow.task_pool:TaskPool', fields={
    'stop_task_id': 'opt[str]', 'stop_task_finished': 'bool'})


@uninterp(sorts=('TaskOutputs',), result='bool')
def oc(outputs):
    """the completion expression of these outputs evaluates true over the completed outputs"""
    return outputs.is_complete()


contract('cylc.flow.task_outputs:TaskOutputs.is_complete',
         sorts={'self': 'TaskOutputs', 'result': 'bool'},
         ensures={'ghost': 'result == oc(self)'},
         pure=True, assumed=True, props=['C11', 'C03'],
         note='CompletionEvaluator(expr, **completed): the restricted evaluator returns the truth value of '
              'the expression (its safety half is C24); the expression itself: contracts/c11_bounded.py')


@spec
def final(t):
    return t.state.status in ('expired', 'failed', 'submit-failed', 'succeeded')


contract(P + 'remove_if_complete',
         sorts={'self': 'TaskPool', 'itask': 'TaskProxy', 'output': 'opt[str]', 'result': 'bool',
                'ret': 'bool'},
         requires=['wf_entries(self)'],
         ensures={
             # Cylc 8: removed exactly when finished and complete, otherwise retained
             'removed-iff-finished-and-complete':
                 'implies(not cylc.flow.flags.cylc7_back_compat, '
                 'result == (final(itask) and oc(itask.state.outputs)))',
             # Cylc 7 compatibility mode: removed exactly when finished and not (submit-)failed
             'compat-mode':
                 'implies(cylc.flow.flags.cylc7_back_compat, result == (final(itask) and '
                 'itask.state.status != "failed" and itask.state.status != "submit-failed"))',
             'removed-means-gone': 'implies(result, not inpool(self, itask.point.value, itask.identity))',
             'retained-means-untouched':
                 'implies(not result, forall(lambda p, i: inpool(self, p, i) == old(inpool(self, p, i)) '
                 'and implies(inpool(self, p, i), at(self, p, i) is old(at(self, p, i))), p="str", i="str"))',
             'stop-task-noted-when-it-succeeded':
                 'implies(itask.state.status == "succeeded" and self.stop_task_id is not None '
                 'and itask.identity == self.stop_task_id, self.stop_task_finished)',
             # C43 "the workflow stops after that task SUCCEEDS": no other final status flags it
             'stop-task-flagged-only-by-its-success':
                 'implies(self.stop_task_finished and not old(self.stop_task_finished), '
                 'itask.state.status == "succeeded" and self.stop_task_id is not None '
                 'and itask.identity == self.stop_task_id)',
         },
         modifies=['all:[*]', 'self.active_tasks_changed', 'self.tasks_removed', 'itask.transient',
                   'self.stop_task_finished',
                   # TaskPool.remove drops the held state of the task it removes
                   'itask.state.is_held', 'itask.state.is_queued', 'itask.state.time_updated',
                   'itask.state.is_updated', 'itask.state.kill_failed'],
         props=['C11', 'C43'])
