"""C27 - Reload preserves task state.  BOUNDED stand-in, not a proof.

commands.reload_workflow / TaskPool._reload_taskdefs / TaskProxy.copy_to_reload_successor work on a live
Scheduler: they re-parse flow.cylc from disk, rebuild TaskDef objects, replace every TaskProxy of the pool by a
successor object, query SQLite for recorded outputs and rebuild the queue manager.  That is outside the verifier
generator's subset, so the contract is checked at RUN TIME on REAL Scheduler objects (simulation mode, in-process,
scratch HOME): generated integer-cycling workflows are run main-loop iteration by main-loop iteration (jobs are
finished by a deterministic harness-side "job driver" sending the real task messages), the flow.cylc is rewritten
(unchanged / extended / shrunk definition) and the real reload command is run after iteration k, for every k up to
a bound.  Every pooled task is snapshotted immediately before and after TaskPool.reload (strict comparison) and
before and after the whole command.  The oracle is independent of the code under test: the prerequisites a task
must have come from the structured graph the flow.cylc text was generated from, and "already recorded" outputs are
read with the module's own SQL from the private database, from the pre-reload pool snapshot and from the harness'
own ledger of the outputs it saw completed / made the jobs report earlier in the run.

Two documented parts of the command are allowed for at the command level only (TaskPool.reload is judged strictly):
the command first waits for pending (triggered / preparing) tasks to submit, and it recomputes the runahead limit
and releases tasks that are within it.  A new prerequisite on a pre-initial cycle point is not judged (no output can
be recorded for it; what happens to it is reported in the detail text).

Contract clauses (one result each):
  (1) state     every pooled task whose definition still exists is still pooled after the reload with the same
                status, flow numbers, submit number, held flag, runahead flag and completed outputs (strict across
                TaskPool.reload; across the whole command the runahead flag may only be cleared, and only for a
                point within the runahead limit recomputed from the post-reload pool)
  (2) queued    ... and the same queued flag
  (3) kept      the successor carries exactly the prerequisites of the NEW definition, and every prerequisite
                present before and after keeps its satisfaction (truth value)
  (4a) new-only a prerequisite that is new is satisfied only if the upstream output is already recorded as completed
                for an overlapping flow (database task_outputs or a pooled task)
  (4b) new-iff  ... and it IS satisfied whenever the output is so recorded
  (5a) orphans  an instance of a removed definition that has started (status not waiting) stays pooled at the reload
                and until it finishes; one that has not started (waiting, submit number 0) is dropped
  (5b) held     the same for started instances that carry the held flag (cylc hold on an active task)
  (6a) direct   TaskProxy.copy_to_reload_successor on constructed proxies: 8 statuses x held x queued x runahead x
                submit numbers x flow numbers x output subsets x prerequisite satisfaction patterns x answers of
                the check_output callback, old definition -> unchanged / extended / shrunk definition: everything of
                (1), (3), (4) except the queued flag
  (6b) direct   ... the queued flag
"""
import asyncio
import itertools
import json
import os
import random
import shutil
import sqlite3
import tempfile
from pathlib import Path

STATUSES = ['waiting', 'expired', 'preparing', 'submit-failed', 'submitted', 'running', 'failed', 'succeeded']
ACTIVE = ('preparing', 'submitted', 'running')
FINISHED = ('succeeded', 'failed', 'submit-failed', 'expired')
MINIMUM = {'held_orphans': 2, 'orphans': 10}
CLAUSES = ['state', 'queued', 'kept', 'new_only', 'new_iff', 'orphans', 'held_orphans']
NAMES = {
    'state': 'bounded::reload keeps every pooled task (definition still present) with the same status, flow numbers, '
             'submit number, held flag, runahead flag and completed outputs',
    'queued': 'bounded::reload keeps the queued flag of every pooled task',
    'kept': 'bounded::after reload a task carries exactly the prerequisites of the new definition and those that '
            'existed before keep their satisfaction',
    'new_only': 'bounded::a prerequisite added by the reload is satisfied only if its upstream output is already '
                'recorded as completed (database or pool, overlapping flow)',
    'new_iff': 'bounded::a prerequisite added by the reload is satisfied whenever its upstream output is already '
               'recorded as completed (database or pool, overlapping flow)',
    'orphans': 'bounded::instances of a removed definition stay pooled (until finished) if started and are dropped '
               'if not started',
    'held_orphans': 'bounded::started instances of a removed definition that carry the held flag stay pooled',
    'direct': 'bounded::TaskProxy.copy_to_reload_successor copies submit number, held and runahead flags and outputs, '
              'keeps status and flow numbers, keeps old prerequisite satisfaction and takes new ones from check_output',
    'direct_queued': 'bounded::TaskProxy.copy_to_reload_successor copies the queued flag',
}


# ------------------------------------------------------------------------------------------------ definitions
def _defn(final, runahead, edges, outputs=None, lone=(), queues=None, retry=()):
    """structured workflow definition: edges are (upstream, offset, output['?'], downstream), one P1 sequence"""
    return dict(final=final, runahead=runahead, edges=list(edges), outputs=dict(outputs or {}), lone=list(lone),
                queues=dict(queues or {}), retry=list(retry))


def _vary(base, add_edges=(), del_edges=(), add_outputs=None, del_tasks=(), add_lone=()):
    d = json.loads(json.dumps(base))
    d['edges'] = [tuple(e) for e in d['edges']]
    d['edges'] = [e for e in d['edges'] if e not in set(del_edges) and e[0] not in del_tasks and e[3] not in del_tasks]
    d['edges'] += [e for e in add_edges]
    for t, o in (add_outputs or {}).items():
        d['outputs'].setdefault(t, {}).update(o)
    for t in del_tasks:
        d['outputs'].pop(t, None)
    d['lone'] = [t for t in d['lone'] if t not in del_tasks] + list(add_lone)
    return d


def _names(d):
    out = []
    for up, _, _, down in d['edges']:
        out += [up, down]
    out += d['lone']
    return sorted(set(out))


def _flow_text(d):
    lines = ['[scheduler]', '    allow implicit tasks = True', '[scheduling]', '    cycling mode = integer',
             '    initial cycle point = 1', f'    final cycle point = {d["final"]}',
             f'    runahead limit = P{d["runahead"]}']
    if d['queues']:
        lines.append('    [[queues]]')
        for q, (limit, members) in sorted(d['queues'].items()):
            lines += [f'        [[[{q}]]]', f'            limit = {limit}', f'            members = {", ".join(members)}']
    lines += ['    [[graph]]', '        P1 = """']
    for up, off, out, down in d['edges']:
        lhs = up + (f'[{"+" if off > 0 else "-"}P{abs(off)}]' if off else '')
        if out.rstrip('?') != 'succeeded' or out.endswith('?'):
            lhs += ':' + out
        lines.append(f'            {lhs} => {down}')
    for t in d['lone']:
        lines.append(f'            {t}')
    lines += ['        """', '[runtime]', '    [[root]]', '        [[[simulation]]]',
              '            default run length = PT1H']
    for t in _names(d):
        if t in d['retry'] or t in d['outputs']:
            lines.append(f'    [[{t}]]')
            if t in d['retry']:
                lines.append('        execution retry delays = PT0S')
            if t in d['outputs']:
                lines.append('        [[[outputs]]]')
                for o, m in sorted(d['outputs'][t].items()):
                    lines.append(f'            {o} = {m}')
    return '\n'.join(lines) + '\n'


def _msg(d, task, out):
    out = out.rstrip('?')
    return d['outputs'].get(task, {}).get(out, out)


def _model_prereqs(d, name, point):
    """oracle: the prerequisites (upstream point, upstream name, output message) of name at point under d"""
    keys = set()
    for up, off, out, down in d['edges']:
        if down == name and point + off <= d['final']:
            # (a pre-initial upstream point is kept by cylc as an automatically satisfied prerequisite)
            keys.add((str(point + off), up, _msg(d, up, out)))
    return keys


def _workflows():
    w = {}
    # --- queue: limited queue, runahead limit, custom output, inter-cycle dependence
    base = _defn(3, 1, [('a', 0, 'succeeded', 'c'), ('b', 0, 'succeeded', 'c'), ('c', -1, 'succeeded', 'a'),
                        ('a', 0, 'x', 'd')], outputs={'a': {'x': 'xx'}}, queues={'q': (1, ['a', 'b'])})
    w['queue'] = dict(
        base=base,
        extended=_vary(base, add_edges=[('c', 0, 'succeeded', 'e'), ('b', 0, 'succeeded', 'd'), ('b', 0, 'y', 'e'),
                                        ('a', 0, 'started', 'c'), ('d', -1, 'succeeded', 'b')],
                       add_outputs={'b': {'y': 'yy'}}),
        shrunk=_vary(base, del_tasks=['d'], del_edges=[('b', 0, 'succeeded', 'c')], add_lone=['b']),
        plan={'a': dict(dur=1, emit=['xx']), 'b': dict(dur=1, emit=['yy']), 'c': dict(dur=2), 'd': dict(dur=2)},
        events={})
    # --- orphans: long-running task, held tasks (waiting, future, active), retry (submit number 2), removed tasks
    base = _defn(3, 1, [('r', 0, 'succeeded', 's'), ('s', 0, 'succeeded', 't'), ('f', 0, 'succeeded', 't'),
                        ('r', 0, 'x', 'u')], outputs={'r': {'x': 'xx'}}, retry=['f'])
    w['orphans'] = dict(
        base=base,
        extended=_vary(base, add_edges=[('s', 0, 'succeeded', 'v'), ('f', 0, 'succeeded', 's'), ('r', 0, 'x', 't'),
                                        ('f', 0, 'y', 'v')], add_outputs={'f': {'y': 'yy'}}),
        shrunk=_vary(base, del_tasks=['r', 'u'], del_edges=[('f', 0, 'succeeded', 't')], add_lone=['f']),
        plan={'r': dict(dur=7, emit=['xx'], early=1), 'f': dict(dur=2, fail_first=True), 's': dict(dur=1), 't': dict(dur=2),
              'u': dict(dur=2)},
        events={-1: [('hold', ['2/r', '1/s'])], 0: [('hold', ['1/r'])], 2: [('release', ['1/r'])],
                4: [('set_pre', ['1/t'], ['1/s:succeeded'])], 9: [('release', ['1/s'])]})
    # --- flows: a second flow started behind the first one, merging into a long-running task of flow 1
    base = _defn(2, 1, [('a', 0, 'succeeded', 'b'), ('b', 0, 'succeeded', 'c'), ('a', 0, 'succeeded', 'c'),
                        ('c', 0, 'succeeded', 'm'), ('m', -1, 'succeeded', 'a'), ('z', 0, 'succeeded', 'zz')])
    w['flows'] = dict(
        base=base,
        extended=_vary(base, add_edges=[('b', 0, 'succeeded', 'n'), ('z', 0, 'succeeded', 'c'),
                                        ('a', 0, 'started', 'm'), ('z', 0, 'y', 'n')], add_outputs={'z': {'y': 'yy'}}),
        shrunk=_vary(base, del_tasks=['zz'], del_edges=[('b', 0, 'succeeded', 'c')], add_lone=['z']),
        plan={'m': dict(dur=6), 'zz': dict(dur=6)},
        events={2: [('trigger_new', ['1/a'])]})
    # --- forced: output completed by "cylc set" on a running task, failed (incomplete) task kept in the pool,
    #     a task forced back to the submitted status
    base = _defn(2, 1, [('w', 0, 'succeeded', 'd'), ('a', 0, 'succeeded', 'b'), ('b', 0, 'succeeded', 'd'),
                        ('w', 0, 'x?', 'h'), ('a', 0, 'succeeded', 'g')], outputs={'w': {'x': 'xx'}})
    w['forced'] = dict(
        base=base,
        extended=_vary(base, add_edges=[('w', 0, 'x?', 'g'), ('w', 0, 'started', 'g'), ('h', 0, 'succeeded', 'n'),
                                        ('w', 0, 'y?', 'n')], add_outputs={'w': {'y': 'yy'}}),
        shrunk=_vary(base, del_tasks=['h'], del_edges=[('b', 0, 'succeeded', 'd')], add_lone=['b']),
        plan={'w': dict(dur=6), 'b': dict(dur=1, fail=True), 'g': dict(dur=8), 'h': dict(dur=3)},
        events={1: [('set_out', ['1/w'], ['x'])], 2: [('status', '2/w', 'submitted')],
                6: [('set_pre', ['1/d'], ['1/b:succeeded'])]})
    return w


# ------------------------------------------------------------------------------------------------ observation
def _snapshot(schd):
    snap = {}
    for t in schd.pool.get_tasks():
        st = t.state
        snap[(int(str(t.point)), t.tdef.name)] = dict(
            status=st.status, flows=sorted(t.flow_nums), submit_num=t.submit_num, held=bool(st.is_held),
            queued=bool(st.is_queued), runahead=bool(st.is_runahead),
            pending=bool(t.is_manual_submit or t.waiting_on_job_prep or st.status == 'preparing'),
            outputs=sorted(trig for trig, _msg_, done in st.outputs if done),
            messages=sorted(m for _t, m, done in st.outputs if done),
            prereqs={(str(k[0]), k[1], k[2]): v for pre in st.prerequisites for k, v in pre.items()})
    return snap


def _db_outputs(db_path):
    """own reading of the private database: [(cycle, name, flows, {trigger: message})]"""
    rows = []
    con = sqlite3.connect(f'file:{db_path}?mode=ro', uri=True, timeout=5)
    try:
        for cycle, name, flows, outputs in con.execute('SELECT cycle, name, flow_nums, outputs FROM task_outputs'):
            try:
                outs = json.loads(outputs)
            except ValueError:
                outs = {}
            if isinstance(outs, list):
                outs = {m: m for m in outs}
            rows.append((str(cycle), name, set(json.loads(flows)), outs))
    finally:
        con.close()
    return rows


def _ledger_add(ledger, snap):
    for key, t in snap.items():
        if t['messages']:
            ledger.setdefault(key, set()).add((frozenset(t['flows']), frozenset(t['messages'])))


def _recorded(key, flows, db_rows, pool_snap, old_def, ledger=None):
    """oracle: is output `key` = (point, task, message) recorded as completed for a flow overlapping `flows`:
    in the database, on a pooled task, or in the harness' own ledger of the outputs it saw completed / made the
    jobs report (a processed message is recorded even while its database write is still queued)"""
    point, task, msg = key
    flows = set(flows)
    # message -> trigger of the upstream task (forced completions are stored under the trigger name)
    trig = next((o for o, m in old_def['outputs'].get(task, {}).items() if m == msg), msg)
    for cycle, name, fl, outs in db_rows:
        if cycle == point and name == task and fl & flows and (trig in outs or msg in outs.values()):
            return 'database'
    t = pool_snap.get((int(point), task))
    if t and set(t['flows']) & flows and (trig in t['outputs'] or msg in t['messages']):
        return 'pool'
    for fl, msgs in (ledger or {}).get((int(point), task), ()):
        if fl & flows and msg in msgs:
            return 'harness ledger (message processed earlier in this run)'
    return None


def _tid(key):
    return f'{key[0]}/{key[1]}'


def _brief(t):
    if t is None:
        return None
    flags = ''.join(c for c, f in (('H', t['held']), ('Q', t['queued']), ('R', t['runahead'])) if f)
    return f"{t['status']}{'(' + flags + ')' if flags else ''} flows={t['flows']} submit={t['submit_num']} " \
           f"outputs={t['outputs']}"


def _compare(before, after, old_def, new_def, db_rows, strict, tally, where, ledger=None):
    """evaluate clauses on one pair of snapshots; tally: clause -> [evaluations, problems list]"""
    def ev(clause, n=1):
        tally[clause][0] += n

    def bad(clause, **kw):
        w = {k_: v for k_, v in where.items() if k_ != '_info'}
        tally[clause][1].append(dict(w, level='TaskPool.reload' if strict else 'reload command', **kw))

    removed = set(_names(old_def)) - set(_names(new_def))
    base_after = min((p for p, _ in after), default=None)
    for key, b in sorted(before.items()):
        point, name = key
        a = after.get(key)
        if name in removed:
            if not strict:
                continue                  # orphans are judged once, at the TaskPool.reload level
            started = b['status'] != 'waiting'
            clause = 'held_orphans' if started and b['held'] else 'orphans'
            if started:
                ev(clause)
                if a is None:
                    bad(clause, task=_tid(key), before=_brief(b), after='dropped from the pool',
                        demands='a started instance of a removed definition stays until it is done')
            elif b['submit_num'] == 0:
                ev(clause)
                if a is not None:
                    bad(clause, task=_tid(key), before=_brief(b), after=_brief(a),
                        demands='a not yet started instance of a removed definition is dropped')
            if a is not None:
                # what stays must stay unchanged as well
                for f in ('status', 'flows', 'submit_num', 'held', 'runahead', 'outputs'):
                    ev('state')
                    if a[f] != b[f]:
                        bad('state', task=_tid(key), field=f, before=b[f], after=a[f], orphan=True)
            continue
        ev('state')
        if a is None:
            bad('state', task=_tid(key), before=_brief(b), after='not in the pool',
                demands='task with a definition in the new configuration stays pooled')
            continue
        fields = ('status', 'flows', 'submit_num', 'held', 'outputs')
        if not strict and b['pending'] and b['status'] in ('waiting', 'preparing') and a['status'] in ACTIVE:
            # the command first waits for pending (triggered / preparing) tasks to submit: documented flush,
            # judged strictly at the TaskPool.reload level only
            fields = ('flows', 'held')
            where['_info']['flushed'] = where['_info'].get('flushed', 0) + 1
        for f in fields:
            ev('state')
            if a[f] != b[f]:
                bad('state', task=_tid(key), field=f, before=b[f], after=a[f], before_state=_brief(b))
        ev('state')
        if a['runahead'] != b['runahead']:
            allowed = (not strict and b['runahead'] and base_after is not None
                       and point <= base_after + new_def['runahead'])
            if not allowed:
                bad('state', task=_tid(key), field='runahead', before=b['runahead'], after=a['runahead'],
                    before_state=_brief(b), note=f'earliest pooled point after = {base_after}, '
                    f'runahead limit P{new_def["runahead"]}')
        if strict:
            ev('queued')
            if a['queued'] != b['queued']:
                bad('queued', task=_tid(key), field='queued', before=b['queued'], after=a['queued'],
                    before_state=_brief(b), after_state=_brief(a))
            want = _model_prereqs(new_def, name, point)
            ev('kept')
            if set(a['prereqs']) != want:
                bad('kept', task=_tid(key), prerequisites_after=sorted(map(list, a['prereqs'])),
                    demands=sorted(map(list, want)), note='prerequisite set of the new definition')
            for pk, val in sorted(a['prereqs'].items()):
                if pk in b['prereqs']:
                    ev('kept')
                    if bool(val) != bool(b['prereqs'][pk]):
                        bad('kept', task=_tid(key), prerequisite=list(pk), before=b['prereqs'][pk], after=val,
                            demands='satisfaction unchanged')
                elif int(pk[0]) < 1:
                    # new prerequisite on a pre-initial point: no output can ever be recorded for it and a freshly
                    # spawned task has it satisfied automatically; the property does not speak about it - not judged
                    where['_info']['preinitial_new'].append(bool(val))
                else:
                    rec = _recorded(pk, b['flows'], db_rows, before, old_def, ledger)
                    ev('new_only')
                    ev('new_iff')
                    if val and not rec:
                        bad('new_only', task=_tid(key), flows=b['flows'], prerequisite=list(pk), after=val,
                            recorded=None, demands='unsatisfied: output not recorded for an overlapping flow')
                    if rec and not val:
                        bad('new_iff', task=_tid(key), flows=b['flows'], prerequisite=list(pk), after=val,
                            recorded=rec, demands='satisfied: output already recorded as completed')


# ------------------------------------------------------------------------------------------------ scheduler runs
async def _apply_event(schd, ev):
    from cylc.flow import commands
    kind = ev[0]
    if kind == 'hold':
        await commands.run_cmd(commands.hold(schd, list(ev[1])))
    elif kind == 'release':
        await commands.run_cmd(commands.release(schd, list(ev[1])))
    elif kind == 'trigger_new':
        await commands.run_cmd(commands.force_trigger_tasks(schd, list(ev[1]), ['new']))
    elif kind == 'set_out':
        await commands.run_cmd(commands.set_prereqs_and_outputs(schd, list(ev[1]), [], outputs=list(ev[2])))
    elif kind == 'set_pre':
        await commands.run_cmd(commands.set_prereqs_and_outputs(schd, list(ev[1]), [], prerequisites=list(ev[2])))
    elif kind == 'status':
        itask = schd.pool._get_task_by_id(ev[1])
        if itask is not None and itask.state.status == 'running':
            itask.state_reset(ev[2])


def _drive_jobs(schd, plan, ages, ledger, cur_def):
    """the harness-side job driver: finish running jobs after plan[name]['dur'] iterations (real messages);
    custom outputs are reported with the final message, or plan[name]['early'] iterations before it"""
    finished = set()
    for t in list(schd.pool.get_tasks()):
        if t.state.status not in ('running', 'submitted'):
            continue
        k = (str(t.point), t.tdef.name, t.submit_num)
        ages[k] = ages.get(k, 0) + 1
        p = plan.get(t.tdef.name, {})
        dur, early = p.get('dur', 1), p.get('early', 0)
        pm = schd.task_events_mgr.process_message
        key, flows, sent = (int(str(t.point)), t.tdef.name), frozenset(t.flow_nums), ['submitted', 'started']
        if ages[k] == dur - early or (ages[k] == dur and not early):
            for m in p.get('emit', []):
                pm(t, 'INFO', m)
                if m in cur_def['outputs'].get(t.tdef.name, {}).values():
                    sent.append(m)
            ledger.setdefault(key, set()).add((flows, frozenset(sent)))
        if ages[k] < dur:
            continue
        if p.get('fail') or (p.get('fail_first') and t.submit_num == 1):
            pm(t, 'CRITICAL', 'failed')
            sent.append('failed')
        else:
            pm(t, 'INFO', 'succeeded')
            sent.append('succeeded')
        ledger.setdefault(key, set()).add((flows, frozenset(sent)))
        finished.add(key)
    return finished


async def _run(home, wname, spec, variant, ks, n_after, pause_ks, tally, info):
    """one scheduler run of workflow `wname`; reload to `variant` after each iteration in ks"""
    from cylc.flow import commands
    from cylc.flow.scheduler import Scheduler, SchedulerStop
    from cylc.flow.scheduler_cli import RunOptions
    wid = f'{wname}_{variant}_{"all" if len(ks) > 1 else ks[0]}'
    run_dir = Path(home, 'cylc-run', wid)
    run_dir.mkdir(parents=True)
    flow_file = run_dir / 'flow.cylc'
    cur_def = spec['base']
    flow_file.write_text(_flow_text(cur_def))
    schd = Scheduler(wid, RunOptions(paused_start=False, run_mode='simulation'))
    schd.INTERVAL_MAIN_LOOP = 0.0            # do not sleep a second per iteration
    schd.INTERVAL_MAIN_LOOP_QUICK = 0.0
    await schd.install()
    cap = {}
    run_env = dict(os.environ)
    try:
        async with asyncio.timeout(120):
            await schd.start()
            if getattr(schd, 'server', None) is not None:
                schd.server.STOP_SLEEP_INTERVAL = 0.02     # harness only: faster teardown
            real_reload = schd.pool.reload

            def observed_reload(config):     # observation point: around the real TaskPool.reload
                cap['db'] = _db_outputs(Path(run_dir, '.service', 'db'))
                cap['pre'] = _snapshot(schd)
                real_reload(config)
                cap['post'] = _snapshot(schd)

            schd.pool.reload = observed_reload
            ages, watch, ledger = {}, {}, {}
            for ev in spec['events'].get(-1, []):
                await _apply_event(schd, ev)
            for i in range(max(ks) + 1 + n_after):
                try:
                    await schd._main_loop()
                except SchedulerStop:
                    info['stopped'] += 1                      # the workflow ran to completion
                    info['skipped'] += len([k_ for k_ in ks if k_ >= i])
                    break
                info['iterations'] += 1
                # started orphans must stay until they are done
                pool_now = _snapshot(schd)
                _ledger_add(ledger, pool_now)
                for key, (k0, last) in list(watch.items()):
                    tally['orphans' if not last['held'] else 'held_orphans'][0] += 1
                    if key in pool_now:
                        watch[key] = (k0, pool_now[key])
                        if pool_now[key]['status'] in FINISHED:
                            del watch[key]
                    else:
                        del watch[key]
                        if last['status'] not in FINISHED:
                            tally['held_orphans' if last['held'] else 'orphans'][1].append(dict(
                                workflow=wname, variant=variant, k=k0, task=_tid(key), last_seen=_brief(last),
                                after=f'vanished from the pool in iteration {i} before finishing',
                                demands='a started orphan stays until it is done'))
                for key in _drive_jobs(schd, spec['plan'], ages, ledger, cur_def):
                    watch.pop(key, None)              # finished by the job driver: done
                for ev in spec['events'].get(i, []):
                    await _apply_event(schd, ev)
                if i not in ks:
                    continue
                new_def = spec.get(variant, spec['base'])
                paused = i in pause_ks
                if paused:
                    await commands.run_cmd(commands.pause(schd))
                flow_file.write_text(_flow_text(new_def))
                cap.clear()
                before = _snapshot(schd)
                _ledger_add(ledger, before)
                await commands.run_cmd(commands.reload_workflow(schd))
                after = _snapshot(schd)
                if paused:
                    await commands.run_cmd(commands.resume(schd))
                info['reloads'] += 1
                cfg_names = set(schd.config.get_task_name_list())
                if 'post' not in cap or not (set(_names(new_def)) <= cfg_names
                                             <= set(_names(new_def)) | set(_names(cur_def))):
                    info['harness_errors'].append(dict(workflow=wname, variant=variant, k=i,
                                                       problem='reload did not apply the new definition'))
                    break
                where = dict(workflow=wname, variant=variant, k=i, paused_before=paused, _info=info)
                # harness sanity: my model of the OLD definition must agree with what the pool had
                for key, b in cap['pre'].items():
                    if set(b['prereqs']) != _model_prereqs(cur_def, key[1], key[0]) and key[1] in _names(cur_def):
                        info['harness_errors'].append(dict(workflow=wname, variant=variant, k=i, task=_tid(key), pool=sorted(map(list, b['prereqs'])),
                                                           model=sorted(map(list, _model_prereqs(cur_def, *key[::-1]))),
                                                           problem='prerequisite model differs before the reload'))
                _compare(cap['pre'], cap['post'], cur_def, new_def, cap['db'], True, tally, where, ledger)
                _compare(before, after, cur_def, new_def, cap['db'], False, tally, where, ledger)
                info['tasks'] += len(cap['pre'])
                for key, b in cap['pre'].items():
                    info['states'].add((wname, variant, b['status'], b['held'], b['queued'], b['runahead'],
                                        len(b['flows']), min(b['submit_num'], 2), tuple(b['outputs']),
                                        tuple(sorted(bool(v) for v in b['prereqs'].values()))))
                    info['seen'].add(b['status'] + ('/held' if b['held'] else '') + ('/queued' if b['queued'] else '')
                                     + ('/runahead' if b['runahead'] else '')
                                     + ('/flows>1' if len(b['flows']) > 1 else '')
                                     + ('/submit>1' if b['submit_num'] > 1 else ''))
                removed = set(_names(cur_def)) - set(_names(new_def))
                for key, b in cap['pre'].items():
                    if key[1] in removed and b['status'] in ACTIVE and key in cap['post']:
                        watch[key] = (i, cap['post'][key])
                if len(info['samples']) < 3 and variant != 'unchanged' and i >= 2:
                    info['samples'].append(dict(workflow=wname, variant=variant, k=i, paused_before=paused, pool_before={_tid(k_): _brief(v) for k_, v in before.items()},
                                                pool_after={_tid(k_): _brief(v) for k_, v in after.items()}))
                cur_def = new_def
    finally:
        try:
            async with asyncio.timeout(20):
                await schd.shutdown(SchedulerStop('c27 harness teardown'))
        except Exception as exc:                       # noqa - teardown must not hide the result
            info['harness_errors'].append(dict(workflow=wname, problem=f'shutdown: {exc!r}'))
        if hasattr(schd, 'workflow_db_mgr'):
            try:
                schd.workflow_db_mgr.on_workflow_shutdown()
            except Exception:                          # noqa
                pass
        _reset_env(run_env)


# ------------------------------------------------------------------------------------------------ direct clause
def _direct(home, tier, seed):
    """TaskProxy.copy_to_reload_successor on constructed proxies (no scheduler)"""
    from cylc.flow.config import WorkflowConfig
    from cylc.flow.id import Tokens
    from cylc.flow.scheduler_cli import RunOptions
    from cylc.flow.task_proxy import TaskProxy
    from cylc.flow.cycling.integer import IntegerPoint
    base = _defn(3, 1, [('s', 0, 'succeeded', 't'), ('f', 0, 'succeeded', 't'), ('t', -1, 'succeeded', 't'),
                        ('t', 0, 'x?', 'u')], outputs={'t': {'x': 'xx'}})
    defs = {
        'unchanged': base,
        'extended': _vary(base, add_edges=[('r', 0, 'x', 't'), ('f', 0, 'started', 't')],
                          add_outputs={'r': {'x': 'rx'}, 't': {'y': 'yy'}}, add_lone=[]),
        'shrunk': _vary(base, del_edges=[('f', 0, 'succeeded', 't')], add_lone=['f']),
    }
    cfgs = {}
    for nm, d in dict(defs, old=base).items():
        src = Path(home, 'direct', nm)
        src.mkdir(parents=True)
        (src / 'flow.cylc').write_text(_flow_text(d))
        cfgs[nm] = WorkflowConfig(f'direct_{nm}', str(src / 'flow.cylc'),
                                  options=RunOptions(run_mode='simulation'), run_dir=str(src))
    tokens = Tokens('~c27/direct')
    point = IntegerPoint('2')
    old_tdef = cfgs['old'].get_taskdef('t')
    old_keys = sorted(_model_prereqs(base, 't', 2))
    out_msgs = ['submitted', 'started', 'succeeded', 'xx']
    quick = tier == 'quick'
    submit_nums = [0, 2] if quick else [0, 1, 3]
    flow_sets = [{1}, {1, 2}] if quick else [{1}, {1, 2}, set()]
    out_subsets = [c for n in range(len(out_msgs) + 1) for c in itertools.combinations(out_msgs, n)]
    if quick:
        out_subsets = out_subsets[::2]
    sat_values = [False, 'satisfied naturally', 'satisfied from database']
    n_eval, distinct, samples = 0, 0, []
    bad, n_bad = {'direct': [], 'direct_queued': []}, {'direct': 0, 'direct_queued': 0}
    for variant, d in defs.items():
        new_tdef = cfgs[variant].get_taskdef('t')
        want_keys = _model_prereqs(d, 't', 2)
        new_keys = sorted(want_keys - set(old_keys))
        for status, held, queued, runahead, sn, flows, outs in itertools.product(
                STATUSES, (False, True), (False, True), (False, True), submit_nums, flow_sets, out_subsets):
            # prerequisite pattern and callback answers rotate deterministically with the combination index
            distinct += 1
            pat = [sat_values[(distinct // (3 ** j)) % 3] for j in range(len(old_keys))]
            answers = {k: sat_values[(distinct // (3 ** j) + seed) % 3] for j, k in enumerate(new_keys)}
            old = TaskProxy(tokens, old_tdef, point, set(flows), status, is_held=held, submit_num=sn)
            old.state.is_queued, old.state.is_runahead = queued, runahead
            for m in outs:
                old.state.outputs.set_message_complete(m)
            for pre in old.state.prerequisites:
                for k in list(pre):
                    pre[k] = pat[old_keys.index((str(k[0]), k[1], k[2]))]
            asked = []

            def check_output(cycle, task, msg, flow_nums, _a=answers, _asked=asked):
                _asked.append(((str(cycle), task, msg), set(flow_nums)))
                return _a.get((str(cycle), task, msg), 'satisfied from database')    # unexpected key -> visible

            new = TaskProxy(tokens, new_tdef, point, old.flow_nums, old.state.status)
            old.copy_to_reload_successor(new, check_output)
            got = dict(status=new.state.status, flows=set(new.flow_nums), submit_num=new.submit_num,
                       held=bool(new.state.is_held), queued=bool(new.state.is_queued),
                       runahead=bool(new.state.is_runahead),
                       outputs=sorted(m for _t, m, done in new.state.outputs if done))
            want = dict(status=status, flows=set(flows), submit_num=sn, held=held, queued=queued, runahead=runahead,
                        outputs=sorted(outs))
            got_pre = {(str(k[0]), k[1], k[2]): v for pre in new.state.prerequisites for k, v in pre.items()}
            want_pre = {}
            for k in want_keys:
                want_pre[k] = bool(pat[old_keys.index(k)]) if k in old_keys else bool(answers[k])
            n_eval += 1
            diffs = {f: dict(got=str(got[f]), demands=str(want[f])) for f in want if got[f] != want[f]}
            if {k: bool(v) for k, v in got_pre.items()} != want_pre:
                diffs['prerequisites'] = dict(got={'/'.join(k): v for k, v in got_pre.items()},
                                              demands={'/'.join(k): v for k, v in want_pre.items()})
            if any(fl != set(flows) for _k, fl in asked):
                diffs['check_output_flows'] = dict(got=str([fl for _k, fl in asked]), demands=str(set(flows)))
            scenario = dict(variant=variant, task='2/t', status=status, held=held, queued=queued,
                            runahead=runahead, submit_num=sn, flows=sorted(flows), outputs=list(outs),
                            old_prerequisites=dict(zip(('/'.join(k) for k in old_keys), pat)),
                            check_output_answers={'/'.join(k): v for k, v in answers.items()})
            qdiff = diffs.pop('queued', None)
            if qdiff:
                n_bad['direct_queued'] += 1
                if len(bad['direct_queued']) < 6:
                    bad['direct_queued'].append(dict(scenario, differs=dict(queued=qdiff)))
            if diffs:
                n_bad['direct'] += 1
                if len(bad['direct']) < 12:
                    bad['direct'].append(dict(scenario, differs=diffs))
            if len(samples) < 2 and distinct % 1777 == 5:
                samples.append(scenario)
    rule = (f'task t at point 2 (old prerequisites 2/s, 2/f, 1/t; custom output x) -> unchanged / extended (+2/r:x, '
            f'+2/f:started, new output y) / shrunk (-2/f) definition parsed by the real WorkflowConfig; every '
            f'combination of {len(STATUSES)} statuses x held x queued x runahead x submit numbers {submit_nums} x flow '
            f'numbers {[sorted(f) for f in flow_sets]} x {len(out_subsets)} subsets of completed outputs '
            f'{out_msgs}; old prerequisite values and check_output answers (False / satisfied naturally / satisfied '
            'from database) rotate with the combination index (not their full product); the successor is '
            'constructed as _reload_taskdefs does (same status and flow numbers); xtriggers, timers, jobs not '
            'compared')
    out = []
    for clause in ('direct', 'direct_queued'):
        res = dict(name=NAMES[clause], kind='bounded', evaluations=n_eval, distinct=distinct, rule=rule,
                   samples=samples, exhaustive=False)
        if n_bad[clause]:
            res.update(verdict='refuted', witness=bad[clause],
                       detail=f'{n_bad[clause]} of {n_eval} combinations differ')
        elif n_eval < 1000:
            res.update(verdict='unknown', detail=f'only {n_eval} combinations ran')
        else:
            res.update(verdict='proved', detail=f'{n_eval} combinations agree')
        out.append(res)
    return out


# ------------------------------------------------------------------------------------------------ entry point
def _save_globals():
    env = dict(os.environ)        # before importing cylc: the scheduler exports CYLC_* variables, prepends to PATH
    import logging
    import cylc.flow.flags
    from cylc.flow.cycling import loader
    from cylc.flow import wallclock
    saved = dict(env=env,
                 cwd=os.getcwd(), cycler=getattr(loader.DefaultCycler, 'TYPE', None), utc=wallclock._FLAGS.get('utc_mode'),
                 verbosity=cylc.flow.flags.verbosity, c7=cylc.flow.flags.cylc7_back_compat, loggers={})
    for lname in ('cylc', 'cylc-install', 'cylc-reinstall', 'cylc-rundb'):
        lg = logging.getLogger(lname)
        saved['loggers'][lname] = (list(lg.handlers), lg.level, lg.propagate)
    return saved


def _reset_env(env):
    for k in list(os.environ):
        if k not in env:
            del os.environ[k]
    for k, v in env.items():
        if os.environ.get(k) != v:
            os.environ[k] = v


def _restore_globals(saved):
    import logging
    import cylc.flow.flags
    from cylc.flow.cycling import loader
    from cylc.flow import wallclock
    _reset_env(saved['env'])
    try:
        os.chdir(saved['cwd'])
    except OSError:
        pass
    if saved['cycler'] is None:
        if 'TYPE' in vars(loader.DefaultCycler):
            del loader.DefaultCycler.TYPE
    else:
        loader.DefaultCycler.TYPE = saved['cycler']
    wallclock._FLAGS['utc_mode'] = saved['utc']
    cylc.flow.flags.verbosity = saved['verbosity']
    cylc.flow.flags.cylc7_back_compat = saved['c7']
    for lname, (handlers, level, propagate) in saved['loggers'].items():
        lg = logging.getLogger(lname)
        for h in list(lg.handlers):
            if h not in handlers:
                lg.removeHandler(h)
                try:
                    h.close()
                except Exception:                      # noqa
                    pass
        for h in handlers:
            if h not in lg.handlers:
                lg.addHandler(h)
        lg.setLevel(level)
        lg.propagate = propagate
    try:
        from cylc.flow.cfgspec.glbl_cfg import glbl_cfg
        glbl_cfg(reload=True)
    except Exception:                                  # noqa
        pass


def _perturb(spec, rnd):
    """seeded variation of the job durations (another history of the same workflow)"""
    spec = dict(spec, plan={t: dict(p) for t, p in spec['plan'].items()})
    for t in sorted(spec['plan']):
        if spec['plan'][t].get('dur', 1) > 1:
            spec['plan'][t]['dur'] += rnd.choice([-1, 0, 1])
    return spec


async def _all_runs(home, tier, seed, tally, info):
    rnd = random.Random(seed)
    specs = []
    for wname, spec in _workflows().items():
        specs.append((wname, spec))
        if tier != 'quick':
            for j in (1, 2):
                specs.append((f'{wname}{j}', _perturb(spec, rnd)))
        elif seed:
            specs[-1] = (wname, _perturb(spec, rnd))
    kmax = 8 if tier == 'quick' else 14
    n_after = 2 if tier == 'quick' else 4
    planned = 0
    for wname, spec in specs:
        ks = list(range(kmax))
        planned += len(ks) * 3
        await _run(home, wname, spec, 'unchanged', ks, 0, {k for k in ks if k % 4 == 3}, tally, info)
        for variant in ('extended', 'shrunk'):
            for k in ks:
                await _run(home, wname, spec, variant, [k], n_after if variant == 'shrunk' else 0,
                           {k} if k % 2 == 1 else set(), tally, info)
    return planned, kmax, n_after, [w for w, _ in specs]


# --- classifiers of the findings listed in known_findings.json (one specific failing shape each) -----------
def kf_queued_flag_not_carried(witness, res):
    """the ONLY difference is the queued flag of a waiting task: True before the reload, False after
    (copy_to_reload_successor does not copy it; _reload_taskdefs rebuilds the queues empty)"""
    if witness.get('field') == 'queued':
        return witness.get('before') is True and witness.get('after') is False
    d = witness.get('differs')
    return bool(d) and set(d) == {'queued'} and witness.get('queued') is True and witness.get('status') == 'waiting'


def kf_forced_output_not_recognised(witness, res):
    """a prerequisite added by the reload on an output that was completed by `cylc set --out` (recorded in the
    task_outputs table as "(manually completed)") stays unsatisfied: scenario `forced`, output w:xx"""
    pre = witness.get('prerequisite') or []
    # (the thorough tier runs the same scenario as forced1, forced2 ...)
    return (str(witness.get('workflow', '')).startswith('forced') and list(pre[1:]) == ['w', 'xx']
            and witness.get('recorded') == 'database' and witness.get('after') is False)


def check(tier='quick', seed=0):
    import threading
    saved = _save_globals()
    home = tempfile.mkdtemp(prefix='verif_c27_', dir='/var/tmp')
    tally = {c: [0, []] for c in CLAUSES}
    info = dict(iterations=0, reloads=0, tasks=0, stopped=0, harness_errors=[], states=set(), seen=set(), samples=[],
                preinitial_new=[], flushed=0, skipped=0)
    planned, kmax, n_after, wnames, crash, direct = 0, 0, 0, [], None, None
    threads_before = set(threading.enumerate())
    try:
        os.environ['HOME'] = home
        os.environ['CYLC_CONF_PATH'] = os.path.join(home, 'no-global-config')
        os.environ.pop('CYLC_SITE_CONF_PATH', None)
        os.makedirs(os.environ['CYLC_CONF_PATH'])
        from cylc.flow.cfgspec.glbl_cfg import glbl_cfg
        glbl_cfg(reload=True)
        try:
            direct = _direct(home, tier, seed)
        except Exception as exc:                       # noqa
            direct = [dict(name=NAMES[c], kind='bounded', verdict='unknown', evaluations=0, distinct=0,
                           rule='direct calls of copy_to_reload_successor', samples=[], exhaustive=False,
                           detail=f'harness failure: {exc!r}') for c in ('direct', 'direct_queued')]
        try:
            planned, kmax, n_after, wnames = asyncio.run(_all_runs(home, tier, seed, tally, info))
        except Exception as exc:                       # noqa
            import traceback
            crash = f'{exc!r} :: {traceback.format_exc()[-300:]}'
    finally:
        _restore_globals(saved)
        shutil.rmtree(home, ignore_errors=True)
    stray = [t.name for t in threading.enumerate() if t not in threads_before and t.is_alive()]
    rule = (f'{len(wnames)} generated integer-cycling workflows {wnames} (P1 graph, <= 3 cycles: limited queue, '
            'runahead limit P1, custom outputs, tasks held while waiting / before spawning / while running, retry with '
            'submit number 2, second flow merging into a running task, output forced by "cylc set", failed '
            'incomplete task, one task forced to status submitted by the harness), real Scheduler in simulation mode '
            'driven one _main_loop call at a time, jobs finished by a harness job driver through '
            f'TaskEventsManager.process_message; reload after iteration k for every k < {kmax}: unchanged (all k in '
            'one run), extended (new task, new prerequisites on existing tasks from existing upstream outputs, new '
            f'custom output) and shrunk (tasks removed, prerequisite removed), one fresh run per k, {n_after} further '
            'iterations watched for orphans after a shrinking reload; workflow paused before the reload for odd k (every fourth in the unchanged run); seed '
            f'{seed} perturbs job durations. NOT exercised: date-time cycling, live job submission, statuses preparing '
            '/ submit-failed / expired in a scheduler run (only in the direct clause), xtriggers other than retry '
            'timers, families, reload with a broken definition, reload_global. A waiting orphan that already ran '
            '(retry) is not judged. distinct = distinct (workflow, variant, task state, prerequisite pattern) tuples')
    results = []
    base = dict(kind='bounded', rule=rule, samples=info['samples'][:3], exhaustive=False)
    # every planned reload either ran or fell after the natural end of its workflow
    enough = (crash is None and not info['harness_errors'] and planned
              and info['reloads'] + info['skipped'] == planned and info['reloads'] >= 0.7 * planned
              and info['tasks'] >= 3 * info['reloads'])
    coverage = sorted(info['seen'])
    needed = ['running', 'waiting/held', 'waiting/queued', 'waiting/runahead', 'failed', 'submitted']
    missing = [n for n in needed if not any(s == n or s.startswith(n + '/') for s in coverage)]
    if not any('flows>1' in s for s in coverage):
        missing.append('flows>1')
    if not any('submit>1' in s for s in coverage):
        missing.append('submit>1')
    for clause in CLAUSES:
        n, problems = tally[clause]
        res = dict(base, name=NAMES[clause], evaluations=n, distinct=len(info['states']))
        if problems:
            res.update(verdict='refuted', witness=problems[:12],
                       detail=f'{len(problems)} disagreements in {n} evaluations over {info["reloads"]} reloads')
        elif not enough or missing or n < MINIMUM.get(clause, 20) or stray:
            res.update(verdict='unknown', detail=(
                f'explored too little or harness trouble: reloads {info["reloads"]}/{planned} (after the end of the '
                f'workflow: {info["skipped"]}), evaluations {n}, '
                f'missing states {missing}, stray threads {stray}, crash {crash}, '
                f'harness errors {info["harness_errors"][:3]}'))
        else:
            res.update(verdict='proved', detail=(
                f'{n} evaluations over {info["reloads"]} reloads of {info["tasks"]} pooled tasks '
                f'({info["iterations"]} main-loop iterations, {info["skipped"]} planned reloads fell after the end of '
                f'their workflow); task states seen: {", ".join(coverage)}'))
        if clause in ('new_only', 'new_iff') and info['preinitial_new']:
            res['detail'] += (f'; not judged: {len(info["preinitial_new"])} new prerequisites on a pre-initial point, '
                              f'{sum(info["preinitial_new"])} of them satisfied after the reload')
        results.append(res)
    results.extend(direct)
    return results
