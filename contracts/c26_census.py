"""C26 census: who writes the pool bookkeeping attributes."""
from pyvc.census import census_obligation


def check(tier='quick', seed=0):
    return [census_obligation(
        'census::active_tasks/_active_tasks_list/active_tasks_changed written only by the functions under contract',
        ['active_tasks', '_active_tasks_list', 'active_tasks_changed'],
        ['TaskPool.__init__', 'TaskPool.add_to_pool', 'TaskPool.remove', 'TaskPool._swap_out',
         'TaskPool.get_tasks'])]
