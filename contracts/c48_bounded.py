"""C48 — installed run directories are numbered and runN tracks the latest.  BOUNDED stand-in, not a proof.

install_workflow / get_run_dir_info / get_next_rundir_number / link_runN / clean are file-system code
(Path.glob, os.readlink, symlinks, rsync in a subprocess): the planned proof was relative to a
file-system model that would have to re-state exactly these calls.  The contract is checked at run time on
the REAL functions in a scratch HOME, after every operation of every sequence of the stated bound:

  (a) a successful install returns a run directory that did not exist before (never overwrites)
  (b) whenever runN exists it points to the most recently installed numbered run that still exists,
      and it exists after every successful numbered install
  (c) a numbered install never gets a number that an earlier install of this history got
      ("without reusing a number": strict reading; see known_findings.json)

Operations: I numbered install, N install with --run-name, L clean the latest numbered run, O clean the
oldest numbered run.  Quick: every sequence of <= 4 operations; thorough: <= 5."""
import itertools
import os
import shutil
import tempfile
from pathlib import Path


def _drop_file_log_handlers():
    """install_workflow logs to a file inside the run directory; the handler outlives the call"""
    import logging
    for lname in ('cylc', 'cylc-install', 'cylc-reinstall'):
        logger = logging.getLogger(lname)
        for h in list(logger.handlers):
            if isinstance(h, logging.FileHandler):
                logger.removeHandler(h)
                try:
                    h.close()
                except OSError:
                    pass


def _run(seq):
    from cylc.flow.install import install_workflow
    from cylc.flow.clean import clean
    from cylc.flow.exceptions import CylcError
    home = tempfile.mkdtemp(prefix='verif_c48_', dir='/var/tmp')
    old_home = os.environ.get('HOME')
    os.environ['HOME'] = home
    problems = []
    try:
        src = Path(home, 'src', 'wf')
        src.mkdir(parents=True)
        (src / 'flow.cylc').write_text('[scheduling]\n[[graph]]\nR1=a\n')
        base = Path(home, 'cylc-run', 'wf')
        used, order = set(), []          # numbers ever handed out; numbered runs in install order
        for step, op in enumerate(seq):
            _drop_file_log_handlers()
            existing = {p.name for p in base.iterdir()} if base.exists() else set()
            if op in 'IN':
                try:
                    _, rundir, _, _ = install_workflow(src, workflow_name='wf',
                                                       run_name='nm' if op == 'N' else None)
                except CylcError:
                    continue                      # refused: nothing may have changed
                name = Path(rundir).name
                if name in existing:
                    problems.append(dict(clause='a', step=step, overwrote=name))
                if op == 'I':
                    num = int(name[3:])
                    if num in used:
                        problems.append(dict(clause='c', step=step, reused=num))
                    used.add(num)
                    order.append(name)
                    link = base / 'runN'
                    if not link.is_symlink() or os.readlink(link) != name:
                        problems.append(dict(clause='b', step=step, runN=os.readlink(link) if link.is_symlink()
                                             else None, expected=name))
            else:
                alive = [r for r in order if (base / r).exists()]
                if not alive:
                    continue
                victim = alive[-1] if op == 'L' else alive[0]
                if op.startswith('X'):          # directed histories: clean that numbered run
                    victim = 'run' + op[1:]
                    if victim not in alive:
                        continue
                link = base / 'runN'
                link_before = os.readlink(link) if link.is_symlink() else None
                clean(f'wf/{victim}', base / victim)
                alive = [r for r in order if (base / r).exists()]
                if link_before is not None and link_before != victim and (base / link_before).exists() \
                        and (not link.is_symlink() or os.readlink(link) != link_before):
                    # cleaning some OTHER run must leave runN where it was
                    problems.append(dict(clause='b', step=step, cleaned=victim, runN_before=link_before,
                                         runN=os.readlink(link) if link.is_symlink() else None))
                if link.is_symlink():
                    tgt = os.readlink(link)
                    if not alive or tgt != alive[-1]:
                        problems.append(dict(clause='b', step=step, runN=tgt,
                                             expected=alive[-1] if alive else None))
        tree = sorted(p.name for p in base.iterdir()) if base.exists() else []
        return problems, tree
    finally:
        if old_home is None:
            os.environ.pop('HOME', None)
        else:
            os.environ['HOME'] = old_home
        shutil.rmtree(home, ignore_errors=True)


def kf_reuse_after_clean(witness, res):
    """known finding: the number of a cleaned highest-numbered run is handed out again by the next
    numbered install (only clause c fails, and only in a history that contains a clean)"""
    ops = witness.get('ops', '')
    return all(p.get('clause') == 'c' for p in witness.get('problems', [])) and ('L' in ops or 'O' in ops)


def check(tier='quick', seed=0):
    nmax = 4 if tier == 'quick' else 5
    n_eval, bad, samples, distinct = 0, [], [], set()
    for n in range(1, nmax + 1):
        for seq in itertools.product('INLO', repeat=n):
            if seq.count('N') > 1 or 'I' not in seq and 'N' not in seq:
                continue
            n_eval += 1
            problems, tree = _run(seq)
            distinct.add(tuple(tree))
            if problems:
                bad.append(dict(ops=''.join(seq), problems=problems, final_tree=tree))
            if len(samples) < 3 and n == nmax and not problems:
                samples.append(dict(ops=''.join(seq), final_tree=tree))
    # directed long histories: two-digit run numbers (Xn = clean run n, never the highest-numbered one here)
    for seq in (('I',) * 10 + ('X9', 'I', 'X3', 'I'), ('I',) * 11 + ('X10', 'X2', 'I', 'I'),
                ('I',) * 3 + ('X1', 'I', 'X2', 'I')):
        n_eval += 1
        problems, tree = _run(seq)
        distinct.add(tuple(tree))
        if problems:
            # (first in the list: the witness list is capped and the enumeration above may already have
            # filled it with instances of the listed finding)
            bad.insert(0, dict(ops=' '.join(seq), problems=problems, final_tree=tree))
    # witnesses that are NOT the listed finding first; the list is capped
    n_bad = len(bad)
    bad.sort(key=lambda w: bool(kf_reuse_after_clean(w, None)))
    del bad[12:]
    name = ('bounded::install / clean histories: no overwrite, runN points to the latest existing numbered run, '
            'numbers are not reused')
    rule = (f'every sequence of <= {nmax} operations from I (numbered install), N (install --run-name, at most '
            'once), L (clean latest numbered run), O (clean oldest) on the real install_workflow / clean in a '
            'scratch HOME, plus 3 directed histories of 7-15 operations with two-digit run numbers and cleans of '
            'runs in the middle (never the highest-numbered one); cleaning a run that runN does not point to must '
            'leave runN alone; distinct = distinct final directory trees')
    base = dict(name=name, kind='bounded', evaluations=n_eval, distinct=len(distinct), rule=rule,
                samples=samples, exhaustive=True)
    if bad:
        return [dict(base, verdict='refuted', witness=bad, detail=f'{n_bad} histories break a clause')]
    return [dict(base, verdict='proved', detail=f'{n_eval} histories')]
