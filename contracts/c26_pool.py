"""C26 — task pool bookkeeping is internally consistent.

Pool view: (point text, identity) |-> TaskProxy, read off
active_tasks: dict[point -> dict[identity -> TaskProxy]].  Cycle points are
dictionary keys through their text `value` (PointBase.__hash__/__eq__; equal
points have equal text once standardised - proved under C18 - and every point
that reaches the pool is standardised: assumption A-STD-POINTS).

wf_pool: no empty bucket; the key of an entry is the identity / point of the
stored proxy (hence never two proxies for one (point, name)); the cached list
is a duplicate-free enumeration of the pool unless active_tasks_changed."""
from pyvc.spec import (contract, schema, spec, uninterp, implies, iff, forall, exists, REG)
import contracts.shared_task  # noqa: F401

P = 'cylc.flow.task_pool:TaskPool.'

schema('IntegerPoint', 'cylc.flow.cycling.integer:IntegerPoint', fields={'value': 'str'},
       key_view='value')
schema('TaskDef', 'cylc.flow.taskdef:TaskDef',
       fields={'name': 'str', 'max_future_prereq_offset': 'opt[IntegerInterval]'})
schema('TaskProxy', 'cylc.flow.task_proxy:TaskProxy', fields={
    'point': 'IntegerPoint', 'identity': 'str', 'flow_nums': 'set[int]',
    'is_xtrigger_sequential': 'bool'})
for _n, _p in [('DataStoreMgr', 'cylc.flow.data_store_mgr:DataStoreMgr'),
               ('WorkflowDatabaseManager', 'cylc.flow.workflow_db_mgr:WorkflowDatabaseManager'),
               ('XtriggerManager', 'cylc.flow.xtrigger_mgr:XtriggerManager')]:
    schema(_n, _p, fields={})
schema('TaskPool', 'cylc.flow.task_pool:TaskPool', fields={
    'active_tasks': 'dict[str,dict[str,TaskProxy]]',
    '_active_tasks_list': 'list[TaskProxy]',
    'active_tasks_changed': 'bool', 'tasks_removed': 'bool',
    'tasks_to_trigger_now': 'set[TaskProxy]',
    'pre_start_tasks_to_trigger': 'set[tuple[str,str]]',
    'tasks_to_hold': 'set[tuple[str,str]]',
    'data_store_mgr': 'DataStoreMgr', 'workflow_db_mgr': 'WorkflowDatabaseManager',
    'xtrigger_mgr': 'XtriggerManager', 'task_queue_mgr': 'IndepQueueManager',
    'REMOVED_BY_PREREQ': 'str',
})


def _bucket(pool, p):
    """native: the bucket whose key point has text p (points are keys by their text)"""
    for k, v in pool.active_tasks.items():
        if getattr(k, 'value', k) == p:
            return v
    return None


def _inpool_native(pool, p, i):
    b = _bucket(pool, p)
    return b is not None and i in b


def _at_native(pool, p, i):
    return _bucket(pool, p)[i]


@spec(native=lambda pool, p: _bucket(pool, p) is not None)
def has_bucket(pool, p):
    return p in pool.active_tasks


@spec(native=_inpool_native)
def inpool(pool, p, i):
    return p in pool.active_tasks and i in pool.active_tasks[p]


@spec(native=_at_native)
def at(pool, p, i):
    return pool.active_tasks[p][i]


@spec
def wf_entries(pool):
    """no empty bucket; keys agree with the stored proxy"""
    return (forall(lambda p: implies(has_bucket(pool, p),
                                     exists(lambda i: inpool(pool, p, i), i='str')), p='str')
            and forall(lambda p, i: implies(inpool(pool, p, i),
                                            at(pool, p, i).identity == i
                                            and at(pool, p, i).point.value == p), p='str', i='str'))


@spec
def task_in_pool(pool, t):
    return inpool(pool, t.point.value, t.identity) and at(pool, t.point.value, t.identity) is t


@spec
def wf_cache(pool):
    """cached list == pool contents (as a duplicate-free enumeration), unless marked stale"""
    return pool.active_tasks_changed or (
        forall(lambda j: implies(0 <= j and j < len(pool._active_tasks_list),
                                 task_in_pool(pool, pool._active_tasks_list[j])))
        and forall(lambda p, i: implies(inpool(pool, p, i), exists(
            lambda j: 0 <= j and j < len(pool._active_tasks_list)
            and pool._active_tasks_list[j] is at(pool, p, i))), p='str', i='str')
        and forall(lambda j, k: implies(0 <= j and j < k and k < len(pool._active_tasks_list),
                                        pool._active_tasks_list[j] is not pool._active_tasks_list[k])))


@spec
def wf_pool(pool):
    return wf_entries(pool) and wf_cache(pool)


# ------------------------------------------------------------------ collaborators (assumed frames)
# None of these touches active_tasks / _active_tasks_list / active_tasks_changed: the census
# obligation (contracts/c26_census.py) shows that those attributes are written only by
# add_to_pool, remove, _swap_out and get_tasks.
def _noop(target, **kw):
    contract(target, assumed=True, props=['C26'],
             note='collaborator: assumed not to write the pool bookkeeping (census obligation)', **kw)


_noop(P + 'create_data_store_elements')
_noop(P + 'set_max_future_offset')
_noop(P + 'release_held_active_task')
_noop('cylc.flow.xtrigger_mgr:XtriggerManager.force_satisfy_all')
_noop('cylc.flow.data_store_mgr:DataStoreMgr.remove_pool_node')
_noop('cylc.flow.workflow_db_mgr:WorkflowDatabaseManager.put_update_task_state')
_noop('cylc.flow.workflow_db_mgr:WorkflowDatabaseManager.process_queued_ops')
_noop('cylc.flow.task_queues.independent:IndepQueueManager.remove_task', sorts={'result': 'bool'})
contract(P + 'spawn_next_parentless',
         sorts={'self': 'TaskPool', 'itask': 'TaskProxy'},
         requires=['wf_entries(self)'],
         # may add *other* tasks (through add_to_pool): the pool only grows, stays well formed,
         # and the entry of itask itself is not replaced
         ensures={'wf': 'wf_entries(self)',
                  'grows': 'forall(lambda p, i: implies(old(inpool(self, p, i)), inpool(self, p, i) '
                           'and at(self, p, i) is old(at(self, p, i))), p="str", i="str")'},
         modifies=['all:[*]', 'self.active_tasks_changed'], assumed=True, props=['C26'],
         note='spawns the next parentless instance via add_to_pool (verified separately)')

_T = {'self': 'TaskPool', 'itask': 'TaskProxy'}
_KEYS = ['itask.identity != ""']

contract(P + 'add_to_pool',
         sorts=_T, requires=['wf_entries(self)'],
         ensures={
             'wf-keys': 'forall(lambda p, i: implies(inpool(self, p, i), at(self, p, i).identity == i '
                        'and at(self, p, i).point.value == p), p="str", i="str")',
             'no-empty-bucket': 'forall(lambda p: implies(has_bucket(self, p), '
                                'exists(lambda i: inpool(self, p, i), i="str")), p="str")',
             'added-when-absent':
                 'implies(not old(inpool(self, itask.point.value, itask.identity)), '
                 'inpool(self, itask.point.value, itask.identity) '
                 'and at(self, itask.point.value, itask.identity) is itask and self.active_tasks_changed)',
             'kept-when-present':
                 'implies(old(inpool(self, itask.point.value, itask.identity)), '
                 'at(self, itask.point.value, itask.identity) is '
                 'old(at(self, itask.point.value, itask.identity)) '
                 'and self.active_tasks_changed == old(self.active_tasks_changed))',
             'others-untouched':
                 'forall(lambda p, i: implies(p != itask.point.value or i != itask.identity, '
                 'inpool(self, p, i) == old(inpool(self, p, i)) '
                 'and implies(inpool(self, p, i), at(self, p, i) is old(at(self, p, i)))), '
                 'p="str", i="str")',
         },
         modifies=['all:[*]', 'self.active_tasks_changed'], props=['C26'])

contract(P + '_swap_out',
         sorts=_T, requires=['wf_entries(self)'],
         ensures={
             'replaces-existing-only':
                 'inpool(self, itask.point.value, itask.identity) == '
                 'old(inpool(self, itask.point.value, itask.identity)) and '
                 'implies(inpool(self, itask.point.value, itask.identity), '
                 'at(self, itask.point.value, itask.identity) is itask and self.active_tasks_changed)',
             'key-set-unchanged':
                 'forall(lambda p, i: inpool(self, p, i) == old(inpool(self, p, i)), p="str", i="str")',
             'others-untouched':
                 'forall(lambda p, i: implies((p != itask.point.value or i != itask.identity) '
                 'and inpool(self, p, i), at(self, p, i) is old(at(self, p, i))), p="str", i="str")',
         },
         modifies=['all:[*]', 'self.active_tasks_changed'], props=['C26'])

contract(P + 'get_task',
         sorts={'self': 'TaskPool', 'point': 'IntegerPoint', 'name': 'str', 'result': 'opt[TaskProxy]'},
         requires=['wf_entries(self)'],
         ensures={
             'none-iff-absent':
                 '(result is None) == (not inpool(self, point.value, point.value + "/" + name))',
             'the-entry': 'result is None or result is at(self, point.value, point.value + "/" + name)',
         },
         pure=True, props=['C26'])

contract(P + '_get_task_by_id',
         sorts={'self': 'TaskPool', 'id_': 'str', 'result': 'opt[TaskProxy]'},
         requires=['wf_entries(self)'],
         ensures={
             'found-is-in-pool': 'result is None or (result.identity == id_ and task_in_pool(self, result))',
             'none-only-if-absent':
                 'implies(result is None, forall(lambda p: not inpool(self, p, id_), p="str"))',
         },
         loops={0: dict(invariant=[
             'forall(lambda k: implies(0 <= k and k < _i, '
             'not inpool(self, keyat(self.active_tasks, k), id_)))'])},
         pure=True, props=['C26'])

contract(P + 'remove',
         sorts={'self': 'TaskPool', 'itask': 'TaskProxy', 'reason': 'opt[str]', 'msg': 'str',
                'level': 'int'},
         requires=['wf_entries(self)'],
         ensures={
             'wf-no-empty-bucket': 'forall(lambda p: implies(has_bucket(self, p), '
                                   'exists(lambda i: inpool(self, p, i), i="str")), p="str")',
             'wf-keys': 'forall(lambda p, i: implies(inpool(self, p, i), at(self, p, i).identity == i '
                        'and at(self, p, i).point.value == p), p="str", i="str")',
             'gone': 'not inpool(self, itask.point.value, itask.identity)',
             'marked-transient': 'itask.transient',
             'cache-marked-stale':
                 'implies(old(inpool(self, itask.point.value, itask.identity)), self.active_tasks_changed)',
             'nothing-else-removed':
                 'forall(lambda p, i: implies((p != itask.point.value or i != itask.identity) '
                 'and old(inpool(self, p, i)), inpool(self, p, i) and at(self, p, i) is old(at(self, p, i))), '
                 'p="str", i="str")',
         },
         modifies=['all:[*]', 'self.active_tasks_changed', 'self.tasks_removed', 'itask.transient',
                   # the held state is dropped first (release_held_active_task)
                   'itask.state.is_held', 'itask.state.is_queued', 'itask.state.time_updated',
                   'itask.state.is_updated', 'itask.state.kill_failed'],
         options={'merge_ifs': True, 'weight': 20}, props=['C26'])

contract(P + 'get_tasks',
         sorts={'self': 'TaskPool', 'result': 'list[TaskProxy]'},
         requires=['wf_pool(self)'],
         ensures={
             'is-the-cache': 'result is self._active_tasks_list and not self.active_tasks_changed',
             'every-listed-task-is-pooled':
                 'forall(lambda j: implies(0 <= j and j < len(result), task_in_pool(self, result[j])))',
             'every-pooled-task-is-listed':
                 'forall(lambda p, i: implies(inpool(self, p, i), exists(lambda j: 0 <= j and '
                 'j < len(result) and result[j] is at(self, p, i))), p="str", i="str")',
             'no-duplicates':
                 'forall(lambda j, k: implies(0 <= j and j < k and k < len(result), '
                 'result[j] is not result[k]))',
             'pool-unchanged':
                 'forall(lambda p, i: inpool(self, p, i) == old(inpool(self, p, i)) and '
                 'implies(inpool(self, p, i), at(self, p, i) is old(at(self, p, i))), p="str", i="str")',
         },
         modifies=['self._active_tasks_list', 'self.active_tasks_changed'], props=['C26'])
