"""C08 — flow numbers propagate, merge and are never reused.

Ghost state: used(db) = the set of flow numbers ever passed to
WorkflowDatabaseManager.put_insert_workflow_flows (the workflow_flows table),
modelled as a ghost field `ghost_used_flows` of the database manager.

Class invariant J of FlowMgr:
    every key of flows is in used,  and
    every used number is <= counter or a key of flows.
Under J a number that is > counter and not a key of flows was never used."""
from pyvc.spec import (contract, schema, spec, uninterp, implies, iff, forall, exists, REG)
import contracts.shared_task  # noqa: F401
import contracts.externals  # noqa: F401

F = 'cylc.flow.flow_mgr:FlowMgr.'

schema('WorkflowDatabaseManager', 'cylc.flow.workflow_db_mgr:WorkflowDatabaseManager',
       fields={'pri_dao': 'CylcWorkflowDAO'})
schema('CylcWorkflowDAO', 'cylc.flow.rundb:CylcWorkflowDAO', fields={'ghost_used_flows': 'set[int]'})
schema('FlowMgr', 'cylc.flow.flow_mgr:FlowMgr', fields={
    'db_mgr': 'WorkflowDatabaseManager', 'flows': 'dict[int,dict[str,str]]', 'counter': 'int',
    '_timezone': 'any'})
schema('TaskProxy', 'cylc.flow.task_proxy:TaskProxy', fields={'flow_nums': 'set[int]'})


@spec
def used(fm, n):
    return n in fm.db_mgr.pri_dao.ghost_used_flows


@spec
def J(fm):
    return (forall(lambda n: implies(n in fm.flows, used(fm, n)))
            and forall(lambda n: implies(used(fm, n), n <= fm.counter or n in fm.flows))
            and fm.counter >= 0)


contract('cylc.flow.workflow_db_mgr:WorkflowDatabaseManager.put_insert_workflow_flows',
         sorts={'self': 'WorkflowDatabaseManager', 'flow_num': 'int', 'flow_metadata': 'dict[str,str]'},
         ensures={'recorded': 'forall(lambda n: (n in self.pri_dao.ghost_used_flows) == '
                              '(old(n in self.pri_dao.ghost_used_flows) or n == flow_num))'},
         modifies=['self.pri_dao.ghost_used_flows[*]'], assumed=True, props=['C08'],
         note='definition of the ghost set: the row is queued for the workflow_flows table')

contract(F + 'get_flow', variant='new',
         sorts={'self': 'FlowMgr', 'flow_num': 'none', 'meta': 'opt[str]', 'result': 'int',
                'now_sec': 'str'},
         requires=['J(self)'],
         ensures={
             'never-used-before': 'not old(used(self, result))',
             'beyond-the-counter': 'result > old(self.counter) and self.counter == result',
             'recorded': 'used(self, result) and result in self.flows',
             'invariant-kept': 'J(self)',
             'history-kept': 'forall(lambda n: implies(old(used(self, n)), used(self, n)))',
         },
         loops={0: dict(invariant=[
             'self.counter > old(self.counter)',
             'forall(lambda n: implies(old(self.counter) < n and n < self.counter, n in self.flows))',
             'forall(lambda n: (n in self.flows) == old(n in self.flows))',
             'forall(lambda n: used(self, n) == old(used(self, n)))',
         ], modifies=['self.counter'])},
         modifies=['self.counter', 'self.flows[*]', 'self.db_mgr.pri_dao.ghost_used_flows[*]'], props=['C08'])

contract(F + 'get_flow', variant='given',
         sorts={'self': 'FlowMgr', 'flow_num': 'int', 'meta': 'opt[str]', 'result': 'int',
                'now_sec': 'str'},
         requires=['J(self)'],
         ensures={
             'same-number': 'result == flow_num and self.counter == old(self.counter)',
             'recorded': 'used(self, result) and result in self.flows',
             'known-flow-metadata-kept':
                 'implies(old(flow_num in self.flows), self.flows[flow_num] is old(self.flows[flow_num]))',
             'invariant-kept': 'J(self)',
             'history-kept': 'forall(lambda n: implies(old(used(self, n)), used(self, n)))',
         },
         modifies=['self.flows[*]', 'self.db_mgr.pri_dao.ghost_used_flows[*]'], props=['C08'])

# restart: the DAO selects are SQL (assumed): MAX over the table, and rows of the table only
contract('cylc.flow.rundb:CylcWorkflowDAO.select_workflow_flows_max_flow_num',
         sorts={'self': 'CylcWorkflowDAO', 'result': 'int'},
         ensures={'is-an-upper-bound': 'result >= 0 and forall(lambda n: implies(n in self.ghost_used_flows, '
                                       'n <= result))'},
         assumed=True, pure=True, props=['C08'],
         note='SELECT MAX(flow_num) FROM workflow_flows (assumes a non-empty table on restart)')
contract('cylc.flow.rundb:CylcWorkflowDAO.select_workflow_flows',
         sorts={'self': 'CylcWorkflowDAO', 'flow_nums': 'set[int]', 'result': 'dict[int,dict[str,str]]'},
         ensures={'rows-of-the-table': 'forall(lambda n: implies(n in result, n in self.ghost_used_flows))'},
         fresh=True, assumed=True, props=['C08'],
         note='SELECT ... WHERE flow_num in (...): returns rows of the table only')

contract(F + '_log', sorts={'self': 'FlowMgr'}, assumed=True, pure=True, props=['C08'],
         note='logging only')

contract(F + 'load_from_db',
         sorts={'self': 'FlowMgr', 'flow_nums': 'set[int]'},
         ensures={
             # the invariant holds again after a restart whatever the in-memory state was:
             # numbers used before the restart are never handed out again
             'invariant-re-established': 'J(self)',
             'history-untouched': 'forall(lambda n: used(self, n) == old(used(self, n)))',
         },
         modifies=['self.counter', 'self.flows'], props=['C08'])

T = 'cylc.flow.task_proxy:TaskProxy.'
contract(T + 'merge_flows',
         sorts={'self': 'TaskProxy', 'flow_nums': 'set[int]'},
         ensures={'union': 'forall(lambda n: (n in self.flow_nums) == '
                           '(old(n in self.flow_nums) or n in flow_nums))'},
         modifies=['self.flow_nums[*]'], props=['C08'])

# which of the selected flows a task is in ("no selection" = all of its flows; a task in no flow matches
# nothing): what `cylc remove --flow=...` takes off an instance (C30 "removes those flows from it")
contract(T + 'match_flows',
         sorts={'self': 'TaskProxy', 'flow_nums': 'set[int]', 'result': 'set[int]'},
         ensures={'the-selected-flows-the-task-is-in':
                  'forall(lambda n: (n in result) == (n in self.flow_nums and '
                  '(len(flow_nums) == 0 or n in flow_nums)))',
                  'a-new-set': 'result is not self.flow_nums and result is not flow_nums'},
         pure=True, fresh=True, props=['C08', 'C30'])
