"""C45 / C11 — the parts of the absolute-trigger mechanism and of TaskPool.spawn_on_output within reach.

  * C45: TaskPool.load_abs_outputs_for_restart puts every row of the abs_outputs table back into
    abs_outputs_done - the record spawn_task consults for every instance spawned later - and nothing is
    ever removed from it (proved).  The recording itself happens inside the child loop of spawn_on_output
    (three nested loops, seven callees that may each rewrite the pool): a whole-function contract was
    written and abandoned - every inner-loop frame obligation timed out, 20 minutes without a verdict
    (DESIGN 11) - so that loop is covered by the bounded check contracts/c45_bounded.py only.
  * C11: the PREFIX of spawn_on_output (every top-level statement before `if status_geq(...)`, taken
    mechanically from the real FunctionDef) is verified as a fragment: on the flow-wait branch nothing is
    spawned and remove_if_complete(itask, output) is still the last thing done, so a finished task whose
    outputs are complete does not stay in the pool.
    What the fragment drops: everything from `if status_geq(...)` on (children, suicide, final removal)."""
from pyvc.spec import (contract, schema, spec, uninterp, implies, iff, forall, exists, REG)
import contracts.c09_state  # noqa: F401
import contracts.c26_pool  # noqa: F401
import contracts.c07_spawn  # noqa: F401
import contracts.c11_completion  # noqa: F401
from contracts.c26_pool import wf_entries, inpool, at
from contracts.c11_completion import final, oc
from contracts.c09_state import rank

P = 'cylc.flow.task_pool:TaskPool.'
PROPS = ['C45']

schema('TaskProxy', 'cylc.flow.task_proxy:TaskProxy', fields={
    'graph_children': 'dict[str,list[tuple[str,IntegerPoint,bool]]]', 'flow_nums': 'set[int]'})
schema('TaskPool', 'cylc.flow.task_pool:TaskPool', fields={
    # (a list in the code; only ever asked `x in ...`: modelled by its membership)
    'expected_failed_tasks': 'opt[set[str]]', 'abort_task_failed': 'bool',
    'abs_outputs_done': 'set[tuple[str,str,str]]'})

contract(P + 'load_abs_outputs_for_restart',
         sorts={'self': 'TaskPool', 'row_idx': 'int', 'row': 'tuple[str,str,str]',
                'cycle': 'str', 'name': 'str', 'output': 'str'},
         ensures={
             'the-row-is-recorded': '(row[0], row[1], row[2]) in self.abs_outputs_done',
             'nothing-is-forgotten':
                 'forall(lambda c, n, o: implies(old((c, n, o) in self.abs_outputs_done), '
                 '(c, n, o) in self.abs_outputs_done), c="str", n="str", o="str")',
             'nothing-else-is-added':
                 'forall(lambda c, n, o: implies((c, n, o) in self.abs_outputs_done, '
                 'old((c, n, o) in self.abs_outputs_done) or (c == row[0] and n == row[1] and o == row[2])), '
                 'c="str", n="str", o="str")',
         },
         modifies=['self.abs_outputs_done[*]'], props=PROPS)

contract('cylc.flow.task_state:status_geq',
         sorts={'status_a': 'str', 'status_b': 'str', 'result': 'bool'},
         requires=['rank(status_a) >= 0', 'rank(status_b) >= 0'],
         ensures={'by-rank': 'result == (rank(status_a) >= rank(status_b))'},
         pure=True, props=['C45', 'C09'])


@spec
def has_children(t, output):
    return len(t.flow_nums) > 0 and output in t.graph_children and len(t.graph_children[output]) > 0


contract(P + 'spawn_on_output',
         sorts={'self': 'TaskPool', 'itask': 'TaskProxy', 'output': 'str',
                'children': 'list[tuple[str,IntegerPoint,bool]]'},
         requires=['wf_entries(self)'],
         ensures={
             'flow-wait-still-removes-a-finished-complete-task':
                 'implies(old(itask.flow_wait) and old(has_children(itask, output)) '
                 'and not cylc.flow.flags.cylc7_back_compat and final(itask) and oc(itask.state.outputs), '
                 'not inpool(self, itask.point.value, itask.identity))',
             'flow-wait-leaves-an-unfinished-or-incomplete-task-and-the-pool-alone':
                 'implies(old(itask.flow_wait) and old(has_children(itask, output)) '
                 'and not cylc.flow.flags.cylc7_back_compat and not (final(itask) and oc(itask.state.outputs)), '
                 'forall(lambda p, i: inpool(self, p, i) == old(inpool(self, p, i)) '
                 'and implies(inpool(self, p, i), at(self, p, i) is old(at(self, p, i))), p="str", i="str"))',
             'status-untouched': 'itask.state.status == old(itask.state.status)',
         },
         modifies=['all:[*]', 'self.active_tasks_changed', 'self.tasks_removed', 'itask.transient',
                   'self.stop_task_finished', 'self.abort_task_failed', 'itask.state.is_held',
                   'itask.state.is_queued', 'itask.state.time_updated', 'itask.state.is_updated',
                   'itask.state.kill_failed'],
         options={'fragment_before': 'status_geq'},
         props=['C11'])
