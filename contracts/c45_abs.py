"""C45 / C11 — TaskPool.spawn_on_output under contract (the dispatcher that spawns children on an output).

  * C45: when one of the children of the output is an ABSOLUTE dependant (third item of the graph_children
    entry), the completed output is recorded in abs_outputs_done under (str(point), task name, output) - the
    record spawn_task consults for every instance spawned later - and nothing is ever removed from it;
    TaskPool.load_abs_outputs_for_restart puts every row of the abs_outputs table back after a restart.
  * C11: whatever branch is taken (flow-wait: nothing is spawned; otherwise children are spawned / updated),
    the last thing done is remove_if_complete(itask, output): a finished task whose outputs are complete is
    not left in the pool."""
from pyvc.spec import (contract, schema, spec, uninterp, implies, iff, forall, exists, REG)
import contracts.c09_state  # noqa: F401
import contracts.c26_pool  # noqa: F401
import contracts.c07_spawn  # noqa: F401
import contracts.c11_completion  # noqa: F401
import contracts.c10_messages  # noqa: F401
import contracts.c05_pool  # noqa: F401
from contracts.c18_points import ipt, pt_ok
from contracts.c26_pool import wf_pool, wf_entries, inpool, at, task_in_pool
from contracts.c07_spawn import POOL_CONTENT, TASK_FIELDS, cfg_ok
from contracts.c11_completion import final, oc
from contracts.c09_state import rank

P = 'cylc.flow.task_pool:TaskPool.'
PROPS = ['C45']

schema('TaskProxy', 'cylc.flow.task_proxy:TaskProxy', fields={
    'graph_children': 'dict[str,list[tuple[str,IntegerPoint,bool]]]', 'flow_nums': 'set[int]',
    'run_mode': 'any'})
schema('TaskPool', 'cylc.flow.task_pool:TaskPool', fields={
    'expected_failed_tasks': 'opt[list[str]]', 'abort_task_failed': 'bool',
    'abs_outputs_done': 'set[tuple[str,str,str]]', 'task_events_mgr': 'TaskEventsManager'})

contract(P + 'load_abs_outputs_for_restart',
         sorts={'self': 'TaskPool', 'row_idx': 'int', 'row': 'tuple[str,str,str]',
                'cycle': 'str', 'name': 'str', 'output': 'str'},
         ensures={
             'the-row-is-recorded': '(row[0], row[1], row[2]) in self.abs_outputs_done',
             'nothing-is-forgotten':
                 'forall(lambda c, n, o: implies(old((c, n, o) in self.abs_outputs_done), '
                 '(c, n, o) in self.abs_outputs_done), c="str", n="str", o="str")',
             'nothing-else-is-added':
                 'forall(lambda c, n, o: implies((c, n, o) in self.abs_outputs_done, '
                 'old((c, n, o) in self.abs_outputs_done) or (c == row[0] and n == row[1] and o == row[2])), '
                 'c="str", n="str", o="str")',
         },
         modifies=['self.abs_outputs_done[*]'], props=PROPS)

contract('cylc.flow.task_state:status_geq',
         sorts={'status_a': 'str', 'status_b': 'str', 'result': 'bool'},
         requires=['rank(status_a) >= 0', 'rank(status_b) >= 0'],
         ensures={'by-rank': 'result == (rank(status_a) >= rank(status_b))'},
         pure=True, props=PROPS)

schema('Experimental', '', fields={'expire_triggers': 'bool'})
schema('TaskState', 'cylc.flow.task_state:TaskState', fields={'suicide_prerequisites': 'list[Prerequisite]'})

contract('cylc.flow.workflow_db_mgr:WorkflowDatabaseManager.put_insert_abs_output',
         sorts={'self': 'WorkflowDatabaseManager'}, assumed=True, props=PROPS,
         note='queues the insert into the abs_outputs table (SQL: bounded check c45_bounded reads the table)')
contract('cylc.flow.id:TaskTokens', sorts={'self': 'Tokens'}, assumed=True, props=PROPS,
         note='identifier object (C23)')
contract(P + 'id_match',
         sorts={'self': 'TaskPool', 'result': 'tuple[set[Tokens],set[Tokens]]'}, pure=True, fresh=True,
         assumed=True, props=PROPS, note='glob matching of identifiers against the pool (C23); reads only')
contract(P + 'get_itasks',
         sorts={'self': 'TaskPool', 'result': 'list[TaskProxy]'},
         ensures={'pooled': 'forall(lambda j: implies(0 <= j and j < len(result), task_in_pool(self, result[j])))'},
         pure=True, fresh=True, assumed=True, props=PROPS,
         note='list comprehension over get_tasks(): the pooled tasks whose relative id is among the ids')
contract('cylc.flow.task_state:TaskState.suicide_prerequisites_all_satisfied',
         sorts={'self': 'TaskState', 'result': 'bool'}, pure=True, assumed=True, props=PROPS,
         note='all() over the suicide prerequisites (C13)')

_SPAWN_MOD = POOL_CONTENT + TASK_FIELDS + ['all:dict[str,TaskDef][*]', 'all:deque[TaskProxy][*]',
                                           'self.abort_task_failed', 'self.stop_task_finished']


@spec
def abs_key_recorded(pool, t, output):
    return (t.point.value, t.tdef.name, output) in pool.abs_outputs_done


@spec
def abs_monotone(pool):
    return forall(lambda c, n, o: implies(old((c, n, o) in pool.abs_outputs_done),
                                          (c, n, o) in pool.abs_outputs_done), c="str", n="str", o="str")


contract(P + 'spawn_on_output',
         sorts={'self': 'TaskPool', 'itask': 'TaskProxy', 'output': 'str',
                'children': 'list[tuple[str,IntegerPoint,bool]]', 'c_name': 'str', 'c_point': 'IntegerPoint',
                'is_abs': 'bool', 'c_task': 'opt[TaskProxy]', 'in_pool': 'bool', 'tasks': 'list[TaskProxy]',
                't': 'TaskProxy', 'suicide': 'list[TaskProxy]', 'matched': 'set[Tokens]',
                '_unmatched': 'set[Tokens]'},
         requires=['wf_entries(self)', 'cfg_ok(self)', 'pt_ok(itask.point)',
                   # the experimental "expire triggers" route sends the expired message to a suicide-triggered
                   # task whatever its state: outside C32's clock-expiry sink precondition, not covered here
                   'not self.config.experimental.expire_triggers',
                   'forall(lambda o, j: implies(o in itask.graph_children and 0 <= j '
                   'and j < len(itask.graph_children[o]), pt_ok(itask.graph_children[o][j][1])), o="str")'],
         ensures={
             'an-absolute-output-is-recorded-for-later-instances':
                 'implies(len(old(itask.flow_nums)) > 0 and output in old(itask.graph_children) '
                 'and not old(itask.flow_wait) '
                 'and exists(lambda j: 0 <= j and j < len(old(itask.graph_children[output])) '
                 'and old(itask.graph_children[output][j][2])), abs_key_recorded(self, itask, output))',
             'the-record-only-grows': 'abs_monotone(self)',
             'a-finished-complete-task-does-not-stay-in-the-pool':
                 'implies(not cylc.flow.flags.cylc7_back_compat and final(itask) and oc(itask.state.outputs), '
                 'not inpool(self, itask.point.value, itask.identity))',
         },
         loops={
             0: dict(invariant=[
                 'wf_entries(self)', 'abs_monotone(self)',
                 'implies(exists(lambda j: 0 <= j and j < _i and children[j][2]), '
                 'abs_key_recorded(self, itask, output))'],
                 modifies=_SPAWN_MOD + ['all:list[TaskProxy][*]']),
             1: dict(invariant=['wf_entries(self)', 'abs_monotone(self)',
                                'implies(is_abs, abs_key_recorded(self, itask, output))'],
                     modifies=_SPAWN_MOD),
             2: dict(invariant=['wf_entries(self)', 'abs_monotone(self)'], modifies=_SPAWN_MOD),
         },
         modifies=_SPAWN_MOD + ['all:[*]', 'itask.transient'],
         options={'merge_ifs': True},
         props=PROPS + ['C11'])
