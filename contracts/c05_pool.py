"""C05 (pool side): who counts as active for the queue limits, and the one path that may exceed a limit.

TaskPool.count_active_tasks is verified against its body: a task name gets a positive count whenever
some pooled task of that name is awaiting job preparation (released from its queue) or is preparing /
submitted / running (no slot-occupying task is missed - the direction the limit depends on; that nothing
else is counted, and the exact multiplicity, are not stated); the second result lists exactly the pooled
tasks awaiting preparation.
(The counter is then what LimitedTaskQueue.release sums over the members of a queue - contracts/c05_queues.py.)

TaskPool.queue_or_trigger (manual trigger, "only manual triggering may exceed a limit") is verified:
the task is marked manually submitted and waiting; an un-queued task is queued exactly when the queue
manager says its queue is full, an already queued task is taken out of its queue; whenever it ends up
not queued it is recorded to run now (waiting_on_job_prep, tasks_to_trigger_now).  The flag
is_manual_submit is what exempts the task from clock-expiry (C32) and from the runahead limit (C04)."""
from pyvc.spec import (contract, schema, spec, uninterp, implies, iff, forall, exists, REG)
import contracts.c09_state  # noqa: F401
import contracts.c26_pool  # noqa: F401
import contracts.c06_holds  # noqa: F401
from contracts.c26_pool import wf_pool, inpool, at, task_in_pool

P = 'cylc.flow.task_pool:TaskPool.'
PROPS = ['C05']


@spec
def occupies_a_slot(t):
    return t.waiting_on_job_prep or t.state.status in ('preparing', 'submitted', 'running')


contract(P + 'count_active_tasks',
         sorts={'self': 'TaskPool', 'result': 'tuple[counter[str],list[TaskProxy]]',
                'active_task_counter': 'counter[str]', 'pre_prep_tasks': 'list[TaskProxy]',
                'itask': 'TaskProxy'},
         requires=['wf_pool(self)'],
         ensures={
             'every-task-that-occupies-a-slot-is-counted':
                 'forall(lambda p, i: implies(inpool(self, p, i) and occupies_a_slot(at(self, p, i)), '
                 'result[0][at(self, p, i).tdef.name] >= 1), p="str", i="str")',
             'awaiting-preparation-listed':
                 'forall(lambda p, i: implies(inpool(self, p, i) and at(self, p, i).waiting_on_job_prep, '
                 'exists(lambda j: 0 <= j and j < len(result[1]) and result[1][j] is at(self, p, i))), '
                 'p="str", i="str")',
             'only-those-listed':
                 'forall(lambda j: implies(0 <= j and j < len(result[1]), '
                 'result[1][j].waiting_on_job_prep and task_in_pool(self, result[1][j])))',
         },
         loops={0: dict(invariant=[
             'forall(lambda j: implies(0 <= j and j < _i and occupies_a_slot(self._active_tasks_list[j]), '
             'active_task_counter[self._active_tasks_list[j].tdef.name] >= 1))',
             'forall(lambda n: active_task_counter[n] >= 0, n="str")',
             'forall(lambda j: implies(0 <= j and j < _i and self._active_tasks_list[j].waiting_on_job_prep, '
             'exists(lambda k: 0 <= k and k < len(pre_prep_tasks) '
             'and pre_prep_tasks[k] is self._active_tasks_list[j])))',
             'forall(lambda k: implies(0 <= k and k < len(pre_prep_tasks), '
             'pre_prep_tasks[k].waiting_on_job_prep and task_in_pool(self, pre_prep_tasks[k])))',
         ], modifies=['active_task_counter[*]', 'pre_prep_tasks[*]'])},
         modifies=['self._active_tasks_list', 'self.active_tasks_changed'], props=PROPS)

# ------------------------------------------------------------------ manual trigger
for _m in ('push_task_if_limited', 'remove_task'):
    contract('cylc.flow.task_queues.independent:IndepQueueManager.' + _m,
             sorts={'self': 'IndepQueueManager', 'itask': 'TaskProxy', 'result': 'bool'},
             modifies=['all:deque[TaskProxy][*]'], assumed=True, props=PROPS,
             note='any() over the per-queue method (contracts/c05_queues.py): True iff some queue took / '
                  'held the task; only the deques change')
contract('cylc.flow.task_proxy:TaskProxy.reset_try_timers', sorts={'self': 'TaskProxy'},
         modifies=['all:TaskActionTimer.timeout'], assumed=True, props=PROPS,
         note='clears the retry delay timeouts (not the counters)')
contract('cylc.flow.data_store_mgr:DataStoreMgr.delta_task_prerequisite', assumed=True, props=PROPS,
         note='publishes prerequisites (C25)')

contract(P + 'queue_or_trigger',
         sorts={'self': 'TaskPool', 'itask': 'TaskProxy', 'active': 'counter[str]'},
         requires=['wf_pool(self)'],
         ensures={
             'marked-as-manually-triggered': 'itask.is_manual_submit',
             'waiting': 'itask.state.status == "waiting"',
             'runs-now-unless-queued':
                 'implies(not itask.state.is_queued, itask.waiting_on_job_prep '
                 'and itask in self.tasks_to_trigger_now)',
             'hold-state-untouched': 'itask.state.is_held == old(itask.state.is_held)',
         },
         modifies=['itask.is_manual_submit', 'itask.waiting_on_job_prep', 'itask.state.status',
                   'itask.state.is_queued', 'itask.state.is_runahead', 'itask.state.time_updated',
                   'itask.state.is_updated', 'itask.state.kill_failed', 'all:TaskActionTimer.timeout',
                   'all:deque[TaskProxy][*]', 'self.tasks_to_trigger_now[*]',
                   'self._active_tasks_list', 'self.active_tasks_changed'],
         props=PROPS + ['C32'])
