"""C39 — workflow names cannot escape the cylc-run directory.  BOUNDED stand-in, not a proof.

validate_workflow_name = a unicode rule checker built from regular expressions + os.path.isabs +
os.path.normpath + str.startswith; check_reserved_dir_names = pathlib.Path.parts + a regex.  The planned
proof was "relative to contracts of normpath / Path.parts" (DESIGN 5); those contracts would have to
re-state POSIX path normalisation, so the contract is checked at run time instead:

    ensures (when validate_workflow_name(name, check_reserved_names) returns normally)
        normpath(join(RUN, name)) is strictly inside RUN        (independent oracle: component walk)
        and, if check_reserved_names, no component of the normalised name is a reserved name or run<N>

for every name of the stated bound: every string of <= 4 characters over {a 1 . / - _ ~ +} and every
'/'-join of <= 4 components from a vocabulary of ordinary, dot, dot-dot, empty and reserved components."""
import itertools
import os

CHARS = 'a1./-_~+'
COMPONENTS = ['a', 'b1', '..', '.', '', 'run1', 'run12', 'runN', 'run', 'log', 'share', 'work', '_cylc-install',
              'flow.cylc', 'suite.rc', '.service', 'x.y', '...', 'a..', '..a']


def _inside(run_dir, name):
    """independent oracle: walk the components, never going above the run directory"""
    depth = 0
    for part in name.split('/'):
        if part in ('', '.'):
            continue
        if part == '..':
            depth -= 1
            if depth < 0:
                return False
        else:
            depth += 1
    return depth > 0


def _names(tier):
    n = 4 if tier == 'quick' else 5
    for k in range(1, n + 1):
        for t in itertools.product(CHARS, repeat=k):
            yield ''.join(t)
    for k in range(1, 5):
        for t in itertools.product(COMPONENTS, repeat=k):
            yield '/'.join(t)


def check(tier='quick', seed=0):
    from cylc.flow.workflow_files import validate_workflow_name, WorkflowFiles
    from cylc.flow.exceptions import WorkflowFilesError
    import re
    run = '/home/u/cylc-run'
    n_eval, accepted, bad, samples, distinct = 0, 0, [], [], set()
    for name in _names(tier):
        for reserved in (False, True):
            n_eval += 1
            try:
                validate_workflow_name(name, check_reserved_names=reserved)
            except WorkflowFilesError:
                distinct.add(('rejected', reserved))
                continue
            except Exception as ex:     # noqa: BLE001
                bad.append(dict(name=name, check_reserved_names=reserved, error=repr(ex)))
                continue
            accepted += 1
            resolved = os.path.normpath(os.path.join(run, name))
            ok = resolved.startswith(run + '/') and resolved != run and _inside(run, name)
            parts = [p for p in os.path.normpath(name).split('/') if p]
            if reserved and any(p in WorkflowFiles.RESERVED_NAMES or re.fullmatch(r'run\d+', p) for p in parts):
                ok = False
            distinct.add(('accepted', len(parts), reserved))
            if not ok and len(bad) < 8:
                bad.append(dict(name=name, check_reserved_names=reserved, resolves_to=resolved))
            if len(samples) < 3 and '/' in name and '..' in name:
                samples.append(dict(name=name, resolves_to=resolved))
    nm = ('bounded::an accepted workflow name resolves strictly inside the cylc-run directory and, when '
          'asked, has no reserved component')
    rule = (f'{n_eval} (name, check_reserved_names) pairs: all strings of <= {4 if tier == "quick" else 5} '
            f'characters over {CHARS!r} and all joins of <= 4 of {len(COMPONENTS)} components; '
            'distinct = distinct (verdict, depth, flag) classes')
    base = dict(name=nm, kind='bounded', evaluations=n_eval, distinct=len(distinct), rule=rule,
                samples=samples or [dict(name='a/../b1', resolves_to=run + '/b1')], accepted=accepted,
                exhaustive=True)
    if bad:
        return [dict(base, verdict='refuted', witness=bad, detail='an accepted name escapes or is reserved')]
    return [dict(base, verdict='proved', detail=f'{accepted} accepted of {n_eval}')]
