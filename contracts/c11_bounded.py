"""C11, bounded stand-in (NOT a proof) for get_completion_expression.

The function builds an expression *string*; its meaning under an assignment of
completed outputs is what the property constrains.  A deductive proof needs a
semantics of string-built boolean expressions in the verifier (DESIGN 4.5);
that is not built.  Stand-in: the real function is run for EVERY optionality
assignment of the six standard outputs plus k custom outputs, and the real
CompletionEvaluator is compared with the specification for EVERY subset of
completed outputs:

   R  = outputs with required is True
   ft = succeeded or failed has required is False     (failure tolerated)
   st = submitted or submit-failed has required is False
   et = expired has required is False
   spec(sigma) = (R != {} and all(sigma[r] for r in R) and (not ft or sigma[succeeded]))
                 or (R == {} and ft and sigma[succeeded]) or (ft and sigma[failed])
                 or (st and sigma[submit_failed]) or (et and sigma[expired])

i.e. "requires every required output, tolerates failure only when succeeded or
failed is optional, tolerates submit-failure and expiry only when optional".
Only definitions that TaskDef.tweak_outputs can produce are enumerated
(succeeded required, or succeeded/failed explicitly optional).

Scope quick: k = 1 custom output (3^7 definitions x 2^7 assignments);
thorough: k = 2."""
import itertools


def _spec(req, sigma):
    R = [o for o, r in req.items() if r is True]
    ft = req['succeeded'] is False or req['failed'] is False
    st = req['submitted'] is False or req['submit-failed'] is False
    et = req['expired'] is False
    return ((bool(R) and all(sigma[r] for r in R) and (not ft or sigma['succeeded']))
            or (not R and ft and sigma['succeeded']) or (ft and sigma['failed'])
            or (st and sigma['submit-failed']) or (et and sigma['expired']))


def check(tier='quick', seed=0):
    from types import SimpleNamespace
    from cylc.flow.task_outputs import get_completion_expression, trigger_to_completion_variable
    from cylc.flow.util import restricted_evaluator  # noqa: F401
    from cylc.flow.task_outputs import CompletionEvaluator
    std = ['expired', 'submitted', 'submit-failed', 'started', 'succeeded', 'failed']
    custom = ['x'] if tier == 'quick' else ['x', 'y']
    names = std + custom
    n_defs = n_eval = bad = 0
    witnesses = []
    exprs = set()
    for flags in itertools.product((True, False, None), repeat=len(names)):
        req = dict(zip(names, flags))
        # what tweak_outputs guarantees
        if req['succeeded'] is None and req['failed'] is None:
            continue
        tdef = SimpleNamespace(rtconfig={}, outputs={n: (n, req[n]) for n in names})
        try:
            expr = get_completion_expression(tdef)
        except Exception as ex:
            bad += 1
            witnesses.append(dict(required=req, error=repr(ex)))
            continue
        n_defs += 1
        exprs.add(expr)
        if not expr:
            # nothing required and nothing tolerated: is_complete() falls back to "any final output"
            continue
        for bits in itertools.product((False, True), repeat=len(names)):
            sigma = dict(zip(names, bits))
            n_eval += 1
            got = CompletionEvaluator(expr, **{trigger_to_completion_variable(k): v for k, v in sigma.items()})
            if bool(got) != bool(_spec(req, sigma)):
                bad += 1
                if len(witnesses) < 5:
                    witnesses.append(dict(required={k: v for k, v in req.items() if v is not None},
                                          expression=expr,
                                          completed=[k for k, v in sigma.items() if v],
                                          evaluates_to=bool(got), specification=bool(_spec(req, sigma))))
                break
    res = dict(name='bounded::get_completion_expression means "all required, failure/submit-failure/expiry '
                    f'tolerated only when optional" ({n_defs} task definitions, {n_eval} evaluations)',
               kind='bounded', backend='native-enumeration', evaluations=n_eval,
               distinct_outcomes=len(exprs),
               detail=f'exhaustive over required in {{True,False,None}} for {names}, all completed-subsets; '
                      'NOT a proof')
    if bad:
        res.update(verdict='refuted', witness=witnesses)
    else:
        res['verdict'] = 'proved'
    return [res]
