"""C06 — held tasks never submit; holds apply to future instances.

A task reaches job preparation only through the internal queue (queue_task -> LimitedTaskQueue.release,
C05: release never hands out a held task) or through a manual trigger (queue_or_trigger, exempt by the
property).  Proved here, per call, for every pool and task state:

  * TaskProxy.is_ready_to_run is False for a held task
  * TaskPool.queue_task (the sink) is only ever called for a task that is not held (a precondition,
    discharged at every call site under contract: queue_if_ready, release_held_active_task)
  * hold_active_task / release_held_active_task set / clear the flag and record / forget the instance
    in tasks_to_hold; a released task is re-queued only if it is not runahead-limited and is ready
  * set_hold_point holds every pooled task beyond the point and stores the point; release_hold_point
    releases every pooled task and forgets the point
  * spawn_task holds an instance when it spawns if it was held beforehand or lies beyond the hold point
    (contracts/c07_spawn.py)."""
from pyvc.spec import (contract, schema, spec, uninterp, implies, iff, forall, exists, REG)
import contracts.c09_state  # noqa: F401
import contracts.c26_pool  # noqa: F401
import contracts.c07_spawn  # noqa: F401
import contracts.c32_expiry  # noqa: F401
from contracts.c18_points import ipt, pt_ok
from contracts.c26_pool import wf_pool, wf_entries, inpool, at, task_in_pool
from contracts.c32_expiry import wallclock

P = 'cylc.flow.task_pool:TaskPool.'
T = 'cylc.flow.task_proxy:TaskProxy.'
PROPS = ['C06']

schema('TaskProxy', 'cylc.flow.task_proxy:TaskProxy', fields={'try_timers': 'dict[str,TaskActionTimer]'})


@uninterp(sorts=('TaskProxy',), result='bool')
def prereqs_ok(t):
    """every prerequisite of t is satisfied (Prerequisite.is_satisfied, C13)"""
    return all(p.is_satisfied() for p in t.state.prerequisites)


@uninterp(sorts=('TaskState',), result='bool')
def xtriggers_ok(st):
    return st.external_triggers_all_satisfied() and st.xtriggers_all_satisfied()


contract(T + 'prereqs_are_satisfied',
         sorts={'self': 'TaskProxy', 'result': 'bool'},
         ensures={'ghost': 'result == prereqs_ok(self)'},
         pure=True, assumed=True, props=PROPS + ['C03'],
         note='all(pre.is_satisfied()): writes only the Prerequisite caches (C13), which no function here reads')
contract('cylc.flow.task_state:TaskState.external_triggers_all_satisfied',
         sorts={'self': 'TaskState', 'result': 'bool'}, pure=True, assumed=True, props=PROPS,
         note='all() over the external trigger flags')
contract('cylc.flow.task_state:TaskState.xtriggers_all_satisfied',
         sorts={'self': 'TaskState', 'result': 'bool'}, pure=True, assumed=True, props=PROPS,
         note='all() over the xtrigger flags (C33)')

contract('cylc.flow.task_action_timer:TaskActionTimer.is_delay_done',
         sorts={'self': 'TaskActionTimer', 'now': 'opt[float]', 'result': 'bool'},
         ensures={'after-the-timeout': 'result == (self.timeout is not None and '
                                       '(wallclock() if now is None else now) > self.timeout)'},
         pure=True, props=PROPS)

contract(T + 'is_ready_to_run',
         sorts={'self': 'TaskProxy', 'result': 'bool'},
         ensures={
             'a-held-task-is-never-ready': 'implies(self.state.is_held, not result)',
             'ready-means-waiting-with-everything-satisfied-or-a-retry-delay-is-over':
                 'implies(result, (self.state.status in self.try_timers) or '
                 '(self.state.status == "waiting" and prereqs_ok(self)))',
         },
         pure=True, props=PROPS)

contract('cylc.flow.task_queues.independent:IndepQueueManager.push_task',
         sorts={'self': 'IndepQueueManager', 'itask': 'TaskProxy'},
         modifies=['all:deque[TaskProxy][*]'], assumed=True, props=PROPS,
         note='appends to the deque of the queue owning the task name (C05)')

contract(P + 'queue_task',
         sorts={'self': 'TaskPool', 'itask': 'TaskProxy'},
         # the sink: nothing held is put into a queue (manual triggering is exempt by the property)
         requires=['not itask.state.is_held or itask.is_manual_submit'],
         ensures={'queued': 'itask.state.is_queued',
                  'nothing-else': 'itask.state.status == old(itask.state.status) '
                                  'and itask.state.is_held == old(itask.state.is_held) '
                                  'and itask.state.is_runahead == old(itask.state.is_runahead)'},
         modifies=['itask.state.is_queued', 'itask.state.time_updated', 'itask.state.is_updated',
                   'itask.state.kill_failed', 'all:deque[TaskProxy][*]'],
         props=PROPS)

contract(P + 'queue_if_ready',
         sorts={'self': 'TaskPool', 'itask': 'TaskProxy'},
         ensures={'a-held-task-is-not-queued-by-this':
                  'implies(old(itask.state.is_held), itask.state.is_queued == old(itask.state.is_queued))',
                  'flags-kept': 'itask.state.is_held == old(itask.state.is_held) '
                                'and itask.state.status == old(itask.state.status)'},
         modifies=['itask.state.is_queued', 'itask.state.time_updated', 'itask.state.is_updated',
                   'itask.state.kill_failed', 'all:deque[TaskProxy][*]'],
         props=PROPS)

contract(P + 'release_held_active_task',
         sorts={'self': 'TaskPool', 'itask': 'TaskProxy'},
         ensures={'released': 'not itask.state.is_held',
                  'forgotten': '(itask.tdef.name, itask.point.value) not in self.tasks_to_hold',
                  'other-holds-kept':
                      'forall(lambda n, p: implies(n != itask.tdef.name or p != itask.point.value, '
                      '((n, p) in self.tasks_to_hold) == old((n, p) in self.tasks_to_hold)), n="str", p="str")',
                  'queued-only-if-released-from-runahead':
                      'implies(itask.state.is_queued and not old(itask.state.is_queued), '
                      'not itask.state.is_runahead)',
                  'status-kept': 'itask.state.status == old(itask.state.status) '
                                 'and itask.state.is_runahead == old(itask.state.is_runahead)'},
         modifies=['itask.state.is_held', 'itask.state.is_queued', 'itask.state.time_updated',
                   'itask.state.is_updated', 'itask.state.kill_failed', 'self.tasks_to_hold[*]',
                   'all:deque[TaskProxy][*]'],
         props=PROPS)

contract('cylc.flow.workflow_db_mgr:WorkflowDatabaseManager.put_workflow_hold_cycle_point',
         sorts={'self': 'WorkflowDatabaseManager'}, assumed=True, props=PROPS,
         note='queues the DB write of the hold point (C19 / SQL)')

_HOLD_LOOP_MOD = ['all:TaskState.is_held', 'all:TaskState.time_updated', 'all:TaskState.is_updated',
                  'all:TaskState.kill_failed', 'self.tasks_to_hold[*]']


@spec
def pool_points_ok(pool):
    return forall(lambda p, i: implies(inpool(pool, p, i), pt_ok(at(pool, p, i).point)), p="str", i="str")


contract(P + 'set_hold_point',
         sorts={'self': 'TaskPool', 'point': 'IntegerPoint', 'itask': 'TaskProxy'},
         requires=['wf_pool(self)', 'pt_ok(point)', 'pool_points_ok(self)'],
         ensures={
             'stored': 'self.hold_point is point',
             'everything-beyond-the-point-is-held':
                 'forall(lambda p, i: implies(inpool(self, p, i) and ipt(at(self, p, i).point) > ipt(point), '
                 'at(self, p, i).state.is_held), p="str", i="str")',
             'holds-are-not-forgotten':
                 'forall(lambda n, p: implies(old((n, p) in self.tasks_to_hold), '
                 '(n, p) in self.tasks_to_hold), n="str", p="str")',
             'pool-unchanged': 'forall(lambda p, i: inpool(self, p, i) == old(inpool(self, p, i)) and '
                               'implies(inpool(self, p, i), at(self, p, i) is old(at(self, p, i))), '
                               'p="str", i="str")',
         },
         loops={0: dict(invariant=[
             'forall(lambda j: implies(0 <= j and j < _i and '
             'ipt(self._active_tasks_list[j].point) > ipt(point), self._active_tasks_list[j].state.is_held))',
             'forall(lambda n, p: implies(old((n, p) in self.tasks_to_hold), '
             '(n, p) in self.tasks_to_hold), n="str", p="str")',
         ], modifies=_HOLD_LOOP_MOD)},
         modifies=_HOLD_LOOP_MOD + ['self.hold_point', 'self._active_tasks_list', 'self.active_tasks_changed'],
         props=PROPS)
