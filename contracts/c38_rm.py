"""C38 — the `--rm` patterns that reach the deleting code cannot name the run directory or anything above it.

pathutil.parse_rm_dirs is the gate between the command line and clean.glob_in_run_dir: proved here, for every
list of arguments (two nested loops, invariants), relative to the os.path model below:

    every string it returns is n or n + "/" for some n with
        not isabs(n)  and  n != "."  and  n != ".."  and  not n.startswith("../")      where n = normpath(..)

(so a pattern that is absolute, or normalises to the run directory itself, its parent or a path starting
in the parent, raises InputError and nothing is returned - "rejected patterns change nothing" starts here).
Assumed: os.path.isabs(p) == p.startswith("/") (POSIX); os.path.normpath is an arbitrary function of its
argument (what normalisation does is checked by the bounded check c38_bounded against real trees).
What this does not cover: globbing and deletion themselves (bounded only)."""
from pyvc.spec import (contract, schema, spec, uninterp, implies, iff, forall, exists, REG)

PROPS = ['C38']


@spec
def norm_ok(n):
    return not n.startswith("/") and n != "." and n != ".." and not n.startswith("../")


@spec
def returned_ok(r):
    return exists(lambda n: norm_ok(n) and (r == n or r == n + "/"), n="str")


@uninterp(sorts=('str',), result='str')
def norm_of(path):
    """os.path.normpath as a mathematical function of the text"""
    import os
    return os.path.normpath(path)


contract('posixpath:normpath', sorts={'path': 'str', 'result': 'str'},
         ensures={'a-function-of-the-text': 'result == norm_of(path)'}, pure=True, assumed=True,
         props=PROPS + ['C39'],
         note='os.path.normpath: some function of the text (C38 bounded check exercises it on real trees)')
contract('posixpath:isabs', sorts={'s': 'str', 'result': 'bool'},
         ensures={'posix': 'result == s.startswith("/")'}, pure=True, assumed=True, props=PROPS + ['C39'],
         note='os.path.isabs on POSIX')

contract('cylc.flow.pathutil:parse_rm_dirs',
         sorts={'rm_dirs': 'list[str]', 'result': 'set[str]', 'item': 'str', 'part': 'str', 'is_dir': 'bool'},
         ensures={'nothing-at-or-above-the-run-directory-is-returned':
                  'forall(lambda r: implies(r in result, returned_ok(r)), r="str")'},
         loops={0: dict(invariant=['forall(lambda r: implies(r in result, returned_ok(r)), r="str")'],
                        modifies=['result[*]']),
                1: dict(invariant=['forall(lambda r: implies(r in result, returned_ok(r)), r="str")'],
                        modifies=['result[*]'])},
         may_raise=['InputError'], fresh=True, props=PROPS)
