"""C22 — broadcasts override in precedence order and persist exactly.  BOUNDED stand-in, not a proof.

BroadcastMgr works on nested dictionaries of arbitrary depth (addict / poverride recursion, a stack walk
in clear_broadcast, configuration validation against the parsec SPEC) and persists through
get_broadcast_change_iter and SQL: outside the verifier generator's subset.  The contract

  after every operation of a history of put / clear / expire operations:
    (1) get_broadcast(cycle/task) == static-free merge in precedence order:
        all-cycle broadcasts from root through the task's ancestors to the task, then the same for the
        task's own cycle (later overrides earlier, nested sections merged key by key)
    (2) clear removes exactly the targeted settings; expire(cutoff) removes exactly the cycle-specific
        broadcasts of cycles earlier than the cutoff (never the all-cycle ones)
    (3) the broadcast state written through the REAL WorkflowDatabaseManager into a real SQLite database and
        loaded by a fresh BroadcastMgr (load_db_broadcast_states + post_load_db_coerce) is identical

is checked at run time on the REAL classes for every history of the stated bound."""
import copy
import itertools
import os
import shutil
import tempfile
from unittest.mock import MagicMock

ANCESTORS = {'t1': ['t1', 'FAM', 'root'], 't2': ['t2', 'root'], 'FAM': ['FAM', 'root'], 'root': ['root']}
POINTS = ['*', '1', '2']
NAMESPACES = ['root', 'FAM', 't1']
# single-leaf settings, as the clients send them (one dict per `-s` option / per leaf of a broadcast file);
# a dict with several leaves is outside put_broadcast's domain: get_broadcast_change_iter records only the
# first leaf of each dict (noted in DESIGN 10.3, not claimed as a finding)
SETTINGS = [{'script': 'a'}, {'script': 'b'}, {'environment': {'X': '1'}}, {'environment': {'X': '2'}},
            {'environment': {'Y': '3'}}, {'pre-script': 'p'}]


def _mk(tmp):
    from cylc.flow.broadcast_mgr import BroadcastMgr
    from cylc.flow.workflow_db_mgr import WorkflowDatabaseManager
    from cylc.flow.run_modes import RunMode
    from cylc.flow.cycling import loader
    loader.DefaultCycler.TYPE = loader.INTEGER_CYCLING_TYPE
    pri, pub = os.path.join(tmp, 'pri'), os.path.join(tmp, 'pub')
    os.makedirs(pri, exist_ok=True)
    os.makedirs(pub, exist_ok=True)
    dbm = WorkflowDatabaseManager(pri, pub)
    dbm.on_workflow_start(is_restart=False)
    schd = MagicMock()
    schd.get_run_mode.return_value = RunMode.LIVE
    schd.workflow_db_mgr = dbm
    schd.config.get_config.side_effect = lambda *a, **k: {'environment': {}, 'script': '', 'pre-script': ''}
    mgr = BroadcastMgr(schd)
    mgr.linearized_ancestors = copy.deepcopy(ANCESTORS)
    return mgr, dbm, schd


def _deep_update(dst, src):
    for k, v in src.items():
        if isinstance(v, dict):
            _deep_update(dst.setdefault(k, {}), v)
        else:
            dst[k] = v


def _expected(model, cycle, task):
    out = {}
    for cyc in ['*', cycle]:
        for ns in reversed(ANCESTORS[task]):
            if (cyc, ns) in model:
                _deep_update(out, copy.deepcopy(model[(cyc, ns)]))
    return out


def _prune_model(model):
    def prune(d):
        for k in list(d):
            if isinstance(d[k], dict):
                prune(d[k])
                if not d[k]:
                    del d[k]
    for key in list(model):
        prune(model[key])
        if not model[key]:
            del model[key]


def _apply(model, op):
    if op[0] == 'put':
        _, p, ns, s = op
        _deep_update(model.setdefault((p, ns), {}), copy.deepcopy(s))
    elif op[0] == 'clear':
        _, p, ns = op
        for key in list(model):
            if (p is None or key[0] == p) and (ns is None or key[1] == ns):
                del model[key]
    elif op[0] == 'cancel':
        _, s = op            # cancel one setting everywhere
        def strip(d, pat):
            for k, v in pat.items():
                if k in d:
                    if isinstance(v, dict) and isinstance(d[k], dict):
                        strip(d[k], v)
                    elif not isinstance(v, dict):
                        del d[k]
        for key in model:
            strip(model[key], s)
    elif op[0] == 'expire':
        _, cutoff = op
        for key in list(model):
            if key[0] != '*' and int(key[0]) < cutoff:
                del model[key]
    _prune_model(model)


def _do(mgr, op):
    if op[0] == 'put':
        mgr.put_broadcast(point_strings=[op[1]], namespaces=[op[2]], settings=[copy.deepcopy(op[3])])
    elif op[0] == 'clear':
        mgr.clear_broadcast(point_strings=[op[1]] if op[1] else None, namespaces=[op[2]] if op[2] else None)
    elif op[0] == 'cancel':
        mgr.clear_broadcast(cancel_settings=[copy.deepcopy(op[1])])
    elif op[0] == 'expire':
        mgr.expire_broadcast(str(op[1]))


def _norm(b):
    """broadcast dict -> {(point, ns): settings} without empty branches"""
    out = {}
    for p, nss in b.items():
        for ns, s in nss.items():
            s = copy.deepcopy(s)
            out[(p, ns)] = s
    _prune_model(out)
    return out


def _history(ops):
    from cylc.flow.broadcast_mgr import BroadcastMgr
    from cylc.flow.id import Tokens
    tmp = tempfile.mkdtemp(prefix='verif_c22_', dir='/var/tmp')
    problems = []
    try:
        mgr, dbm, schd = _mk(tmp)
        model = {}
        for step, op in enumerate(ops):
            _do(mgr, op)
            _apply(model, op)
            if _norm(mgr.broadcasts) != model:
                problems.append(dict(clause=2, step=step, op=str(op), state=str(_norm(mgr.broadcasts)),
                                     expected=str(model)))
                break
            for cyc, task in (('1', 't1'), ('2', 't1'), ('1', 't2')):
                got = mgr.get_broadcast(Tokens(cycle=cyc, task=task))
                if got != _expected(model, cyc, task):
                    problems.append(dict(clause=1, step=step, task=f'{cyc}/{task}', got=str(got),
                                         expected=str(_expected(model, cyc, task))))
                    break
            if problems:
                break
        if not problems:
            dbm.process_queued_ops()
            mgr2 = BroadcastMgr(schd)
            mgr2.linearized_ancestors = copy.deepcopy(ANCESTORS)
            dbm.pri_dao.select_broadcast_states(mgr2.load_db_broadcast_states)
            mgr2.post_load_db_coerce()
            if _norm(mgr2.broadcasts) != _norm(mgr.broadcasts):
                problems.append(dict(clause=3, restored=str(_norm(mgr2.broadcasts)),
                                     before=str(_norm(mgr.broadcasts))))
        dbm.on_workflow_shutdown()
        return problems
    finally:
        shutil.rmtree(tmp, ignore_errors=True)


def check(tier='quick', seed=0):
    import random
    rnd = random.Random(seed)
    puts = [('put', p, ns, s) for p in POINTS for ns in NAMESPACES for s in SETTINGS]
    others = ([('clear', p, ns) for p in [None] + POINTS for ns in [None] + NAMESPACES]
              + [('cancel', {'script': 'a'}), ('cancel', {'environment': {'X': '1'}})]
              + [('expire', 1), ('expire', 2), ('expire', 3)])
    n = 3 if tier == 'quick' else 4
    budget = 150 if tier == 'quick' else 3000
    hist = []
    for _ in range(budget):
        k = rnd.randint(2, n + 1)
        ops = [rnd.choice(puts)] + [rnd.choice(puts if rnd.random() < 0.6 else others) for _ in range(k - 1)]
        hist.append(tuple(map(str, ops)) and ops)
    n_eval, bad, samples, distinct = 0, [], [], set()
    for ops in hist:
        n_eval += 1
        problems = _history(ops)
        distinct.add(str(ops))
        if problems and len(bad) < 6:
            bad.append(dict(history=[str(o) for o in ops], problems=problems))
        if len(samples) < 2 and not problems and len(ops) >= 3:
            samples.append(dict(history=[str(o) for o in ops]))
    name = ('bounded::get_broadcast merges in precedence order; clear / expire remove exactly the targets; the '
            'state survives the database round trip')
    rule = (f'{budget} seeded histories (seed {seed}) of 2-{n + 1} operations: put over 3 points x 3 namespaces x '
            '5 settings (nested environment sections), clear by point / namespace / setting, expire at 3 cutoffs; '
            'checked after every operation for 3 task instances; real SQLite round trip at the end')
    base = dict(name=name, kind='bounded', evaluations=n_eval, distinct=len(distinct), rule=rule, samples=samples)
    if bad:
        return [dict(base, verdict='refuted', witness=bad, detail=f'{len(bad)} histories break a clause')]
    return [dict(base, verdict='proved', detail=f'{n_eval} histories')]
