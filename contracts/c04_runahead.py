"""C04 — the runahead limit: "... extended by the largest future-trigger offset among pooled tasks
and capped at the stop point".

TaskPool.compute_runahead is 140 lines (set comprehensions over sequences, sorted slices, a cache).
The two clauses above are decided by its LAST statements: everything after the if/elif/else that picks the
un-adjusted limit out of `sorted(sequence_points)`, down to the `return True`.  That suffix of the real body
is verified as a *fragment*: the statements are taken mechanically from the FunctionDef in /repo (every
top-level statement after the last one whose source text contains the marker), `limit_point` - the limit
computed from the sequences by the part that is not verified - is an arbitrary cycle point, and the
postcondition says that the limit stored is

        min(limit_point + max_future_offset (if any), stop_point (if any)).

What the fragment drops is exactly the part of the body before the marker (the computation of the base
point and of the un-adjusted limit: first sentence of C04, not covered).

TaskPool.set_max_future_offset is verified whole: the offset stored is the largest one among the pooled
tasks' definitions (None if there is none), and whenever it changed the limit is recomputed (ghost epoch
counter advanced by compute_runahead)."""
from pyvc.spec import (contract, schema, spec, uninterp, implies, iff, forall, exists, REG)
import contracts.c26_pool  # noqa: F401
import contracts.c18_points  # noqa: F401
import contracts.c07_spawn  # noqa: F401
from contracts.c18_points import ipt, pt_ok, iiv, iv_ok
from contracts.c26_pool import wf_pool, inpool, at

P = 'cylc.flow.task_pool:TaskPool.'
PROPS = ['C04']

schema('TaskPool', 'cylc.flow.task_pool:TaskPool', fields={
    'runahead_limit_point': 'opt[IntegerPoint]', 'max_future_offset': 'opt[IntegerInterval]',
    # ghost: number of recomputations of the runahead limit (advanced by compute_runahead)
    'ghost_runahead_epoch': 'int'},
    field_inv={'max_future_offset': 'v is None or iv_ok(v)'})
# offsets recorded in task definitions are well-formed intervals (written by
# Dependency.get_prerequisite, which is under contract and proves it at the write)
schema('TaskDef', 'cylc.flow.taskdef:TaskDef', fields={},
       field_inv={'max_future_prereq_offset': 'v is None or iv_ok(v)'})


@spec
def adjusted(pool, limit_value):
    """the un-adjusted limit, extended by the future offset, capped at the stop point"""
    return (min2(limit_value + (0 if pool.max_future_offset is None else iiv(pool.max_future_offset)),
                 ipt(pool.stop_point))
            if pool.stop_point is not None
            else limit_value + (0 if pool.max_future_offset is None else iiv(pool.max_future_offset)))


@spec
def min2(a, b):
    return a if a <= b else b


contract(P + 'compute_runahead', variant='adjustments',
         sorts={'self': 'TaskPool', 'force': 'bool', 'result': 'bool', 'limit_point': 'IntegerPoint',
                'pre_adj_limit': 'IntegerPoint'},
         requires=['pt_ok(limit_point)', 'self.stop_point is None or pt_ok(self.stop_point)'],
         ensures={
             'extended-by-the-future-offset-then-capped-at-the-stop-point':
                 'result and self.runahead_limit_point is not None '
                 'and ipt(self.runahead_limit_point) == old(adjusted(self, ipt(limit_point)))',
             'never-beyond-the-stop-point':
                 'implies(self.stop_point is not None, '
                 'ipt(self.runahead_limit_point) <= ipt(self.stop_point))',
         },
         modifies=['self.runahead_limit_point'], verify_only=True, props=PROPS,
         # the fragment: every top-level statement after the if/elif/else that picks the un-adjusted
         # limit out of the sorted sequence points
         options={'fragment_after': 'sorted(sequence_points)', 'fragment_inputs': ['limit_point']})

contract(P + 'compute_runahead', variant='whole',
         sorts={'self': 'TaskPool', 'force': 'bool', 'result': 'bool'},
         ensures={'counts-as-a-recomputation':
                  'self.ghost_runahead_epoch == old(self.ghost_runahead_epoch) + 1'},
         modifies=['self.runahead_limit_point', 'self.ghost_runahead_epoch', 'all:set[IntegerPoint][*]',
                   'self._active_tasks_list', 'self.active_tasks_changed'],
         assumed=True, props=PROPS,
         note='whole function as seen by its callers: only that a call is a recomputation (ghost counter); '
              'its last statements are verified as the fragment contract `adjustments`')


@spec
def offsets_ok(pool):
    return forall(lambda p, i: implies(inpool(pool, p, i),
                                       at(pool, p, i).tdef.max_future_prereq_offset is None
                                       or iv_ok(at(pool, p, i).tdef.max_future_prereq_offset)), p="str", i="str")


@spec
def changed(a, b):
    """IntervalBase inequality on optional intervals (None is only equal to None)"""
    return (a is None) != (b is None) or (a is not None and b is not None and iiv(a) != iiv(b))


contract(P + 'set_max_future_offset', variant='verified',
         sorts={'self': 'TaskPool', 'orig': 'opt[IntegerInterval]', 'max_offset': 'opt[IntegerInterval]',
                'itask': 'TaskProxy'},
         requires=['wf_pool(self)'],
         ensures={
             'none-iff-no-pooled-task-has-a-future-trigger':
                 '(self.max_future_offset is None) == forall(lambda p, i: implies(inpool(self, p, i), '
                 'at(self, p, i).tdef.max_future_prereq_offset is None), p="str", i="str")',
             'at-least-every-pooled-offset':
                 'forall(lambda p, i: implies(inpool(self, p, i) '
                 'and at(self, p, i).tdef.max_future_prereq_offset is not None, '
                 'self.max_future_offset is not None and '
                 'iiv(at(self, p, i).tdef.max_future_prereq_offset) <= iiv(self.max_future_offset)), '
                 'p="str", i="str")',
             'is-the-offset-of-a-pooled-task':
                 'self.max_future_offset is None or exists(lambda p, i: inpool(self, p, i) and '
                 'at(self, p, i).tdef.max_future_prereq_offset is self.max_future_offset, p="str", i="str")',
             'the-limit-is-recomputed-whenever-the-offset-changed':
                 'implies(changed(old(self.max_future_offset), self.max_future_offset), '
                 'self.ghost_runahead_epoch > old(self.ghost_runahead_epoch))',
         },
         loops={0: dict(invariant=[
             '(max_offset is None) == forall(lambda j: implies(0 <= j and j < _i, '
             'self._active_tasks_list[j].tdef.max_future_prereq_offset is None))',
             'max_offset is None or iv_ok(max_offset)',
             'forall(lambda j: implies(0 <= j and j < _i and '
             'self._active_tasks_list[j].tdef.max_future_prereq_offset is not None, max_offset is not None '
             'and iiv(self._active_tasks_list[j].tdef.max_future_prereq_offset) <= iiv(max_offset)))',
             'max_offset is None or exists(lambda j: 0 <= j and j < _i and '
             'self._active_tasks_list[j].tdef.max_future_prereq_offset is max_offset)',
         ])},
         modifies=['self.max_future_offset', 'self.runahead_limit_point', 'self.ghost_runahead_epoch',
                   'all:set[IntegerPoint][*]', 'self._active_tasks_list', 'self.active_tasks_changed'],
         # not used at call sites: add_to_pool / remove (C26) still see this function through the
         # frame-only assumption of contracts/c26_pool.py (DESIGN 10.5, item 7)
         verify_only=True, props=PROPS)
