"""C33 — xtriggers are called with the documented discipline.  BOUNDED stand-in, not a proof.

call_xtriggers_async iterates a list of (label, signature, context, flag) tuples produced through deepcopy
and string templating, has a synchronous wall-clock branch that calls `_wall_clock(*args, **kwargs)` with
symbolic star-arguments, and talks to the process pool through a callback: outside the verifier generator's
subset.  The contract (per function signature s)

    at most one call of s is in progress;  two consecutive call times of s differ by at least the
    configured interval;  after a call of s succeeded, s is not called again while some task still needs it
    (until housekeeping forgets it);  a task that depends on a succeeded s becomes satisfied the next time
    call_xtriggers_async looks at it

is checked at run time on the REAL XtriggerManager (real collator, real SubFuncContext), with a recording
process pool and a virtual clock, for every event sequence of the stated bound."""
import itertools
import json
from unittest.mock import MagicMock

INTERVAL = 10.0


class _Pool:
    def __init__(self):
        self.pending = []      # (ctx, callback)

    def put_command(self, ctx, bad_hosts=None, callback=None, callback_args=None, **kw):
        self.pending.append((ctx, callback))


class _Task:
    def __init__(self, name, point, labels):
        from cylc.flow.cycling.integer import IntegerPoint
        self.point = IntegerPoint(str(point))
        self.tdef = MagicMock()
        self.tdef.name = name
        self.identity = f'{point}/{name}'
        self.state = MagicMock()
        self.state.xtriggers = {lb: False for lb in labels}

    def __str__(self):
        return self.identity


def _mk():
    import cylc.flow.xtrigger_mgr as xm
    from cylc.flow.subprocctx import SubFuncContext
    mgr = xm.XtriggerManager.__new__(xm.XtriggerManager)
    mgr.xtriggers = xm.XtriggerCollator()
    mgr.t_next_call = {}
    mgr.sat_xtrig = {}
    mgr.active = []
    mgr.farg_templ = {}
    mgr.do_housekeeping = False
    mgr.workflow_run_dir = '/var/tmp/verif_c33_rundir'
    mgr.workflow_db_mgr = MagicMock()
    mgr.data_store_mgr = MagicMock()
    mgr.broadcast_mgr = MagicMock()
    mgr.proc_pool = _Pool()
    # two labels with the SAME function signature (x1, x1b) and one with another (x2, task-specific)
    for label, args in (('x1', ['a']), ('x1b', ['a']), ('x2', ['%(name)s'])):
        ctx = SubFuncContext(label, 'echo', func_args=list(args), func_kwargs={}, intvl=INTERVAL)
        mgr.xtriggers.functx_map[label] = ctx
    return mgr, xm


def _run(events):
    """events: tuple of ('call', task_index) | ('tick', seconds) | ('done', ok) | ('house',)"""
    mgr, xm = _mk()
    clock = [1000.0]
    real_time = xm.time
    xm.time = lambda: clock[0]
    # (x2 is templated by the task name: foo and bar wait on DIFFERENT signatures under the same label)
    tasks = [_Task('foo', 1, ['x1', 'x2']), _Task('bar', 1, ['x1b', 'x2']), _Task('foo', 2, ['x1'])]
    calls = {}            # sig -> [call times]
    in_progress = {}      # sig -> count
    succeeded = set()
    problems = []
    seen = 0
    try:
        for ev in events:
            if ev[0] == 'tick':
                clock[0] += ev[1]
            elif ev[0] == 'call':
                t = tasks[ev[1]]
                mgr.call_xtriggers_async(t)
                for ctx, _cb in mgr.proc_pool.pending[seen:]:
                    sig = ctx.get_signature()
                    if in_progress.get(sig, 0) >= 1:
                        problems.append(f'{sig}: second call while one is in progress')
                    if calls.get(sig) and clock[0] - calls[sig][-1] < INTERVAL:
                        problems.append(f'{sig}: called {clock[0] - calls[sig][-1]}s after the previous call '
                                        f'(interval {INTERVAL})')
                    if sig in succeeded and sig in mgr.sat_xtrig:
                        problems.append(f'{sig}: called again after it succeeded')
                    in_progress[sig] = in_progress.get(sig, 0) + 1
                    calls.setdefault(sig, []).append(clock[0])
                seen = len(mgr.proc_pool.pending)
                for label in t.state.xtriggers:
                    sig = mgr.get_xtrig_ctx(t, label).get_signature()
                    if sig in mgr.sat_xtrig and sig in succeeded and not t.state.xtriggers[label]:
                        problems.append(f'{t.identity}: {label} not satisfied although {sig} succeeded')
            elif ev[0] == 'done':
                todo = [(c, cb) for c, cb in mgr.proc_pool.pending if in_progress.get(c.get_signature())
                        and not getattr(c, '_finished', False)]
                if not todo:
                    continue
                ctx, cb = todo[0]
                ctx._finished = True
                if ev[1] == 'error':
                    # the function raised / printed something that is not a result
                    ctx.ret_code = 1
                    ctx.out = 'Traceback (most recent call last): boom'
                else:
                    ctx.ret_code = 0
                    ctx.out = json.dumps([bool(ev[1]), {'k': 'v'}])
                cb(ctx)
                sig = ctx.get_signature()
                in_progress[sig] -= 1
                if ev[1] is True:
                    succeeded.add(sig)
            elif ev[0] == 'house':
                # a succeeded signature that some pooled task still waits on (label not yet marked satisfied)
                # must survive housekeeping: "not called again once it has succeeded while any task needs it"
                needed = set()
                for t in tasks:
                    for label, sat in t.state.xtriggers.items():
                        if not sat:
                            needed.add(mgr.get_xtrig_ctx(t, label).get_signature())
                mgr.housekeep(tasks)
                for sig in sorted(succeeded & needed):
                    if sig not in mgr.sat_xtrig:
                        problems.append(f'{sig}: succeeded, still needed by a task, forgotten by housekeeping')
                succeeded = {s for s in succeeded if s in mgr.sat_xtrig}
    finally:
        xm.time = real_time
    return problems, {s: len(v) for s, v in calls.items()}


def check(tier='quick', seed=0):
    alphabet = [('call', 0), ('call', 1), ('call', 2), ('tick', 4.0), ('tick', 11.0), ('done', True),
                ('done', False), ('done', 'error'), ('house',)]
    nmax = 5 if tier == 'quick' else 6
    n_eval, bad, samples, distinct = 0, [], [], set()
    for n in range(1, nmax + 1):
        for events in itertools.product(alphabet, repeat=n):
            if events[0][0] != 'call':
                continue
            n_eval += 1
            problems, ncalls = _run(events)
            distinct.add(tuple(sorted(ncalls.items())))
            if problems and len(bad) < 6:
                bad.append(dict(events=[list(e) for e in events], problems=problems[:3]))
            if len(samples) < 3 and n == nmax and sum(ncalls.values()) >= 3:
                samples.append(dict(events=[list(e) for e in events], calls_per_signature=ncalls))
    name = ('bounded::per xtrigger signature: one call at a time, calls >= interval apart, no call after success '
            'while needed, dependants satisfied')
    rule = (f'every sequence of <= {nmax} events starting with a call, over: call_xtriggers_async for one of 3 tasks '
            '(two labels sharing a signature, one task-specific), clock +4 s / +11 s (interval 10 s), completion of '
            'the oldest call in progress (success / not satisfied / error), housekeeping (which must keep every '
            'succeeded signature a pooled task still waits on; one label is templated by the task name and shared '
            'by two tasks); distinct = distinct call-count profiles')
    base = dict(name=name, kind='bounded', evaluations=n_eval, distinct=len(distinct), rule=rule, samples=samples,
                exhaustive=True)
    if bad:
        return [dict(base, verdict='refuted', witness=bad, detail=f'{len(bad)} sequences break the discipline')]
    return [dict(base, verdict='proved', detail=f'{n_eval} event sequences')]
