"""C43 — stop point, stop task and stop modes: the per-call mechanisms under contract.

  * TaskPool.set_stop_point: stores the point; a runahead limit beyond it is lowered to it and every
    pooled WAITING task beyond it is put (back) behind the runahead limit, so that release_runahead_tasks /
    queueing cannot submit it ("no task beyond it is submitted"); reports whether anything changed.
    compute_runahead keeps the limit <= stop point afterwards (C04 fragment contract, props C04, C43).
  * TaskPool.can_stop: never for "no stop requested"; always for now-now; otherwise not while an event
    handler timer is pending, and - for a clean / kill stop - not while a pooled task is submitted or running
    without a failed kill ("a clean stop waits for active jobs"); stop --now does not wait for them.
  * TaskPool.stop_task_done: True exactly once after the stop task has been flagged finished; forgets the
    stop task (also in the DB queue).  WHO flags it is remove_if_complete (C11 contract): for ANY final
    status of the stop task - the property says "after that task succeeds"; see the bounded check."""
from pyvc.spec import (contract, schema, spec, uninterp, implies, iff, forall, exists, REG)
import contracts.c09_state  # noqa: F401
import contracts.c26_pool  # noqa: F401
import contracts.c06_holds  # noqa: F401
import contracts.c04_runahead  # noqa: F401
import contracts.c11_completion  # noqa: F401
from contracts.c18_points import ipt, pt_ok
from contracts.c26_pool import wf_pool, inpool, at
from contracts.c06_holds import pool_points_ok

P = 'cylc.flow.task_pool:TaskPool.'
PROPS = ['C43']

schema('TaskEventsManager', 'cylc.flow.task_events_mgr:TaskEventsManager', fields={'_event_timers': 'dict[any,any]'})
schema('TaskPool', 'cylc.flow.task_pool:TaskPool', fields={
    'task_events_mgr': 'TaskEventsManager', 'stop_point': 'opt[IntegerPoint]',
    'runahead_limit_point': 'opt[IntegerPoint]', 'stop_task_id': 'opt[str]', 'stop_task_finished': 'bool'})

_LOOP_MOD = ['all:TaskState.is_runahead', 'all:TaskState.is_queued', 'all:TaskState.time_updated',
             'all:TaskState.is_updated', 'all:TaskState.kill_failed', 'all:deque[TaskProxy][*]']

contract('cylc.flow.data_store_mgr:DataStoreMgr.delta_task_state',
         sorts={'self': 'DataStoreMgr', 'itask': 'TaskProxy'}, assumed=True, props=PROPS,
         note='publishes the task state (C25: data store, not modelled); writes nothing the pool reads')

contract(P + 'set_stop_point',
         sorts={'self': 'TaskPool', 'stop_point': 'IntegerPoint', 'itask': 'TaskProxy', 'result': 'bool',
                'unqueue': 'bool'},
         requires=['wf_pool(self)', 'pt_ok(stop_point)', 'pool_points_ok(self)',
                   'self.stop_point is None or pt_ok(self.stop_point)',
                   'self.runahead_limit_point is None or pt_ok(self.runahead_limit_point)'],
         ensures={
             'stored': 'self.stop_point is not None and ipt(self.stop_point) == ipt(stop_point)',
             'reports-a-change': 'result == (old(self.stop_point) is None '
                                 'or ipt(old(self.stop_point)) != ipt(stop_point))',
             'the-runahead-limit-is-capped':
                 'implies(result, self.runahead_limit_point is None '
                 'or ipt(self.runahead_limit_point) <= ipt(stop_point))',
             'the-limit-is-only-ever-lowered-to-the-stop-point':
                 '(old(self.runahead_limit_point) is None) == (self.runahead_limit_point is None) and '
                 'implies(self.runahead_limit_point is not None, '
                 'ipt(self.runahead_limit_point) == ipt(old(self.runahead_limit_point)) '
                 'or (ipt(self.runahead_limit_point) == ipt(stop_point) '
                 'and ipt(old(self.runahead_limit_point)) > ipt(stop_point)))',
             'waiting-tasks-beyond-the-new-limit-are-runahead-limited':
                 'implies(result and old(self.runahead_limit_point) is not None '
                 'and ipt(old(self.runahead_limit_point)) > ipt(stop_point), '
                 'forall(lambda p, i: implies(inpool(self, p, i) and ipt(at(self, p, i).point) > ipt(stop_point) '
                 'and at(self, p, i).state.status == "waiting", at(self, p, i).state.is_runahead '
                 # ... and no longer carry the queued flag (they were taken out of their queue just before),
                 # unless manually triggered - "no task beyond it is submitted (unless manually triggered)"
                 'and (at(self, p, i).is_manual_submit or not at(self, p, i).state.is_queued)), '
                 'p="str", i="str"))',
             'nothing-is-released-or-changes-status':
                 'forall(lambda p, i: implies(inpool(self, p, i), '
                 'at(self, p, i).state.status == old(at(self, p, i).state.status) '
                 'and at(self, p, i).state.is_held == old(at(self, p, i).state.is_held) '
                 'and implies(old(at(self, p, i).state.is_runahead), at(self, p, i).state.is_runahead)), '
                 'p="str", i="str")',
             'pool-unchanged': 'forall(lambda p, i: inpool(self, p, i) == old(inpool(self, p, i)) and '
                               'implies(inpool(self, p, i), at(self, p, i) is old(at(self, p, i))), '
                               'p="str", i="str")',
         },
         loops={0: dict(invariant=[
             'forall(lambda j: implies(0 <= j and j < _i and '
             'ipt(self._active_tasks_list[j].point) > ipt(stop_point) '
             'and self._active_tasks_list[j].state.status == "waiting", '
             'self._active_tasks_list[j].state.is_runahead and (self._active_tasks_list[j].is_manual_submit '
             'or not self._active_tasks_list[j].state.is_queued)))',
             'forall(lambda p, i: implies(inpool(self, p, i) and old(at(self, p, i).state.is_runahead), '
             'at(self, p, i).state.is_runahead), p="str", i="str")',
         ], modifies=_LOOP_MOD)},
         modifies=_LOOP_MOD + ['self.stop_point', 'self.runahead_limit_point', 'self._active_tasks_list',
                               'self.active_tasks_changed'],
         props=PROPS)

contract(P + 'can_stop',
         sorts={'self': 'TaskPool', 'stop_mode': 'opt[str]', 'itask': 'TaskProxy', 'result': 'bool'},
         requires=['wf_pool(self)'],
         ensures={
             'never-without-a-stop-request': 'implies(stop_mode is None, not result)',
             'now-now-stops-at-once': 'implies(stop_mode == "REQUEST(NOW-NOW)", result)',
             'pending-event-handlers-hold-it-back':
                 'implies(stop_mode is not None and stop_mode != "REQUEST(NOW-NOW)" '
                 'and bool(self.task_events_mgr._event_timers), not result)',
             'a-clean-or-kill-stop-waits-for-active-jobs':
                 'implies(stop_mode == "REQUEST(CLEAN)" or stop_mode == "REQUEST(KILL)", '
                 'result == (not bool(self.task_events_mgr._event_timers) and not exists(lambda p, i: '
                 'inpool(self, p, i) and at(self, p, i).state.status in ("submitted", "running") '
                 'and not at(self, p, i).state.kill_failed, p="str", i="str")))',
             'stop-now-does-not-wait-for-jobs':
                 'implies(stop_mode == "REQUEST(NOW)", result == (not bool(self.task_events_mgr._event_timers)))',
             'pool-unchanged': 'forall(lambda p, i: inpool(self, p, i) == old(inpool(self, p, i)) and '
                               'implies(inpool(self, p, i), at(self, p, i) is old(at(self, p, i))), '
                               'p="str", i="str")',
         },
         modifies=['self._active_tasks_list', 'self.active_tasks_changed'],
         props=PROPS)

contract('cylc.flow.workflow_db_mgr:WorkflowDatabaseManager.put_workflow_stop_task',
         sorts={'self': 'WorkflowDatabaseManager'}, assumed=True, props=PROPS,
         note='queues the DB write of the stop task (C19 / SQL)')

contract(P + 'stop_task_done',
         sorts={'self': 'TaskPool', 'result': 'bool'},
         ensures={
             'exactly-when-the-stop-task-was-flagged-finished':
                 'result == (old(self.stop_task_id) is not None and old(self.stop_task_finished))',
             'then-the-stop-task-is-forgotten':
                 'implies(result, self.stop_task_id is None and not self.stop_task_finished)',
             'otherwise-nothing-changes':
                 'implies(not result, self.stop_task_id == old(self.stop_task_id) '
                 'and self.stop_task_finished == old(self.stop_task_finished))',
         },
         modifies=['self.stop_task_id', 'self.stop_task_finished'],
         props=PROPS)

contract('cylc.flow.id:Tokens.__getitem__', sorts={'self': 'Tokens', 'key': 'str', 'result': 'str'},
         pure=True, assumed=True, props=PROPS,
         note='a token of the identifier (C23); a missing token (None) is modelled as some text that names no '
              'task: `None in taskdefs` is False like an unknown name')
contract('cylc.flow.task_id:TaskID.get_standardised_taskid', sorts={'task_id': 'str', 'result': 'str'},
         pure=True, assumed=True, props=PROPS, note='standardises the cycle point text of the identifier')

contract(P + 'set_stop_task',
         sorts={'self': 'TaskPool', 'task_id': 'str', 'tokens': 'Tokens', 'name': 'str'},
         ensures={
             'a-new-stop-task-is-never-already-finished':
                 'implies(self.stop_task_id != old(self.stop_task_id), not self.stop_task_finished)',
             'an-unknown-task-name-changes-nothing':
                 'self.stop_task_id == old(self.stop_task_id) or not self.stop_task_finished',
         },
         modifies=['self.stop_task_id', 'self.stop_task_finished'],
         props=PROPS)
