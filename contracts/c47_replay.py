"""C47 replay support: a private global.cylc (three platforms, one group) and
every set of unreachable hosts, on the real selection functions."""
import itertools
import os
import tempfile

from pyvc.spec import REG

_CONF = '''
[platforms]
    [[alpha]]
        hosts = a1, a2
        job runner = slurm
    [[beta]]
        hosts = b1, b2
        job runner = slurm
    [[gamma]]
        hosts = g1
[platform groups]
    [[grp]]
        platforms = alpha, beta, gamma
        [[[selection]]]
            method = definition order
    [[grp_random]]
        platforms = alpha, beta
        [[[selection]]]
            method = random
'''
HOSTS = ['a1', 'a2', 'b1', 'b2', 'g1']
_state = {}


def _cfg():
    if 'dir' not in _state:
        d = tempfile.mkdtemp(prefix='c47_conf_', dir='/var/tmp')
        with open(os.path.join(d, 'global.cylc'), 'w') as f:
            f.write(_CONF)
        os.environ['CYLC_CONF_PATH'] = d
        from cylc.flow.cfgspec.glbl_cfg import glbl_cfg
        glbl_cfg(reload=True)
        _state['dir'] = d
    from cylc.flow.cfgspec.glbl_cfg import glbl_cfg
    return glbl_cfg()


def _bad_sets():
    yield None
    for r in range(0, len(HOSTS) + 1):
        for c in itertools.combinations(HOSTS, r):
            yield set(c)


def conc_group(model, oname):
    for gname in ('grp', 'grp_random'):
        for bad in _bad_sets():
            def mk(gname=gname, bad=bad):
                grp = _cfg().get(['platform groups'])[gname]
                return [grp, gname, None if bad is None else set(bad)], {}
            yield dict(group=gname, bad_hosts=None if bad is None else sorted(bad)), mk


def conc_host(model, oname):
    for pname in ('alpha', 'beta', 'gamma'):
        for bad in _bad_sets():
            def mk(pname=pname, bad=bad):
                _cfg()
                from cylc.flow.platforms import platform_from_name
                return [platform_from_name(pname), None if bad is None else set(bad)], {}
            yield dict(platform=pname, bad_hosts=None if bad is None else sorted(bad)), mk


class _Rec:
    """attribute view of a config dictionary for the native evaluation of the specs
    (group.platforms, platform.selection.method, ...)"""

    def __init__(self, d):
        self._d = d

    def __getattr__(self, k):
        v = self._d[k]
        return _Rec(v) if hasattr(v, 'keys') else v

    def __getitem__(self, k):
        return self._d[k]


def install():
    M = 'cylc.flow.platforms:'
    REG.contracts[M + 'get_platform_from_group'].concretise = conc_group
    REG.contracts[M + 'get_host_from_platform'].concretise = conc_host


install()
