"""C19 - Stop-and-restart preserves the workflow state.  BOUNDED stand-in, not a proof.

The restored state is assembled by Scheduler.configure / _load_pool_from_db from six joined SQLite tables
(task_pool, task_states, task_outputs, task_prerequisites, task_action_timers, xtriggers) plus workflow_params,
broadcast_states, tasks_to_hold and workflow_flows, written by WorkflowDatabaseManager.put_task_pool and a dozen
put_* methods scattered over the scheduler, the pool, the flow / broadcast / xtrigger managers; starting and
stopping runs through asyncio, a ZMQ server thread and the file system.  None of this is inside the verifier
generator's subset, so the contract is checked at run time on REAL Scheduler objects (simulation mode, no job
submission) that are started, run by the real Scheduler.run_scheduler() with a hook around every main-loop
iteration, stopped with the real `stop` command put on the command queue (modes REQUEST(CLEAN) and REQUEST(NOW),
thorough tier also REQUEST(NOW-NOW)), and restarted by a NEW Scheduler object on the same run directory
(is_restart path).  The oracle is a plain comparison of two snapshots taken from the live objects (never from the
database), under the single transformation the property allows.

Snapshot points (precise):
  A  = the live objects at the moment the main loop raises SchedulerStop for OUR stop request, i.e. after the stop
       has completed (clean stop: the active jobs have finished and their consequences are in the pool) and
       immediately before Scheduler.shutdown() writes the final task pool.  Nothing mutates the pool after A.
  B  = the live objects of the NEW Scheduler right after `await Scheduler.start()` returned (configure done, pool
       loaded from the DB), before run_scheduler() / the first main-loop iteration.

Contract clauses (from the property statement):
  (1) task set, status, flow numbers, held state, submit number:  B has the same pooled task instances as A, each
      with the same status, flow_nums, is_held, submit_num -- except that a task `preparing` under submit number n
      in A is `waiting` in B and will be prepared again under the same number n (the preparation step numbers the
      job by incrementing, so B must hold n-1; that the job really gets number n is re-checked in clause 5)
  (2) completed outputs of every pooled task are the same in B as in A
  (3) every prerequisite's satisfaction (truth value per (cycle, task, output); suicide prerequisites listed
      separately) and every xtrigger's satisfaction are the same in B as in A.  xtrigger satisfaction, not label
      bookkeeping: a label the task does not carry is nothing to wait for = satisfied, so "satisfied in A, absent
      in B" is accepted, "unsatisfied in A, absent in B" is not
  (4) hold point, stop point, stop task, broadcasts, flow counter are the same in B as in A
  (5) the continued run (restarted, then left alone apart from the scenario's own scripted operator commands)
      finishes the same multiset of (task instance = cycle/name + flow numbers, final status, completed outputs,
      submit number) as an uninterrupted run of the same scenario, and ends the same way

Harness devices (all stated in `rule`): jobs are simulation-mode jobs of nominal length PT1H whose completion is
decided by the harness (it zeroes ModeSettings.timeout d main-loop iterations after the job is first seen
running, d in {0,1} seeded), so that runs are deterministic; the scenario's operator commands are issued when the
run is quiescent (3 identical consecutive pool signatures, nothing active) so that they hit the same state in the
interrupted and in the uninterrupted run; xtrigger functions (echo) are evaluated in-process instead of in the
subprocess pool; a `preparing` task is produced in the iteration before the stop by the real
TaskJobManager.prep_submit_task_jobs on the tasks the real release_tasks_to_run released, with the job-file
preparation itself answering "not ready yet" (as while host selection / remote init is pending).

The kf_* functions classify witnesses of disagreements of the real code that were found while building this check
(see the final report of the build)."""
import copy
import os
import shutil
import tempfile
import zlib

_TRACE = bool(os.environ.get('C19_TRACE'))

_HEAD = '''
[scheduler]
    allow implicit tasks = True
    [[events]]
        restart timeout = PT0S
        stall timeout = PT0S
        abort on stall timeout = True
'''
_ROOT = '''
    [[root]]
        [[[simulation]]]
            default run length = PT1H
'''

# Each scenario: flow.cylc text, phases = operator commands (phase 0 at start-up, phase j>0 at the j-th quiescence)
SCENARIOS = [
    dict(
        name='flows',  # inter-cycle dependency, runahead limit, hold point, broadcasts, two flows that merge
        flow=_HEAD + '''
[scheduling]
    cycling mode = integer
    initial cycle point = 1
    final cycle point = 4
    runahead limit = P1
    [[graph]]
        P1 = """
            a[-P1] => a => b?
            b:fail? => r
        """
[runtime]''' + _ROOT,
        phases=[
            [('hold_point', '2'),
             ('broadcast', ['3'], ['b'], [{'simulation': {'fail cycle points': 'all'}}]),
             ('broadcast', ['*'], ['root'], [{'environment': {'X': '1'}}])],
            [('trigger', ['1/a'], ['new'])],
            [('release_all',)],
        ],
    ),
    dict(
        name='xtrig',  # custom outputs, xtriggers (satisfied / never satisfied / forced), retry (submit number 2)
        flow=_HEAD + '''
[scheduling]
    cycling mode = integer
    initial cycle point = 1
    final cycle point = 3
    runahead limit = P2
    [[xtriggers]]
        x = echo(succeed=True, v=%(point)s)
        y = echo(succeed=False, w=%(point)s)
    [[graph]]
        P1 = """
            @x => s
            s[-P1]:out1 => s
            s:out1 => t
            s => u
            u:uo => w
            t & u => v
            @y => z
        """
[runtime]''' + _ROOT + '''
    [[s]]
        [[[outputs]]]
            out1 = output one
    [[u]]
        execution retry delays = 2*PT0S
        [[[outputs]]]
            uo = u output
        [[[simulation]]]
            fail cycle points = 2
            fail try 1 only = True
''',
        phases=[
            [],
            [('set', ['1/z', '2/z'], None, ['xtrigger/y:succeeded'])],
            [('set', ['3/z'], None, ['xtrigger/y:succeeded'])],
        ],
    ),
    dict(
        name='stoptask',  # stop task, hold of a future (not yet pooled) task, strictly sequential graph
        flow=_HEAD + '''
[scheduling]
    cycling mode = integer
    initial cycle point = 1
    final cycle point = 4
    [[graph]]
        P1 = c[-P1] => a => b => c
[runtime]''' + _ROOT,
        phases=[
            [('stop_task', '2/b'), ('hold', ['2/a'])],
            [('release', ['2/a'])],
        ],
    ),
    dict(
        name='stoppoint',  # stop point below the final point, hold of a pooled task, runahead over several cycles
        flow=_HEAD + '''
[scheduling]
    cycling mode = integer
    initial cycle point = 1
    final cycle point = 6
    runahead limit = P1
    [[graph]]
        P1 = """
            a => b
            b[-P1] => c
        """
[runtime]''' + _ROOT,
        phases=[
            [('stop_point', '4'), ('hold', ['3/a']),
             ('broadcast', ['3'], ['a'], [{'script': 'echo three'}])],
            [('release', ['3/a'])],
        ],
    ),
    dict(
        name='suicide',  # conjunctive prerequisites (ordinary and suicide) satisfied one half at a time
        flow=_HEAD + '''
[scheduling]
    cycling mode = integer
    initial cycle point = 1
    final cycle point = 2
    [[graph]]
        P1 = """
            a? & b? => c
            a:fail? & b:fail? => !c
            a:fail? | b:fail? => d
            d[-P1] => a
        """
[runtime]''' + _ROOT + '''
    [[a, b]]
        [[[simulation]]]
            fail cycle points = all
''',
        phases=[
            [('hold', ['1/b'])],
            [('release', ['1/b'])],
        ],
    ),
    dict(
        name='flownum',  # a manually numbered flow (trigger --flow=5) before an automatically numbered one
        flow=_HEAD + '''
[scheduling]
    cycling mode = integer
    initial cycle point = 1
    final cycle point = 3
    [[graph]]
        P1 = a[-P1] => a => b
[runtime]''' + _ROOT,
        phases=[
            [('hold_point', '1')],
            [('trigger', ['1/a'], ['5'])],
            [('trigger', ['1/b'], ['new'])],
            [('release_all',)],
        ],
    ),
]


# ---------------------------------------------------------------------------------------------------------------
# snapshot of the live objects, and the contract

def _prune(d):
    for k in list(d):
        if isinstance(d[k], dict):
            _prune(d[k])
            if not d[k]:
                del d[k]
    return d


def _snapshot(schd):
    tasks = {}
    for itask in schd.pool.get_tasks():
        st = itask.state
        pre, sui = {}, {}
        for store, lst in ((pre, st.prerequisites), (sui, st.suicide_prerequisites)):
            for p in lst:
                for (pt, name, out), val in p.items():
                    store[f'{pt}/{name}:{out}'] = bool(val) or store.get(f'{pt}/{name}:{out}', False)
        tasks[itask.identity] = dict(
            status=st.status, flows=sorted(itask.flow_nums), held=bool(st.is_held), submit=itask.submit_num,
            outputs=sorted(st.outputs.get_completed_outputs()), prereqs=pre, suicide=sui,
            xtriggers={k: bool(v) for k, v in st.xtriggers.items()})
    pool = schd.pool
    glob = dict(
        hold_point=None if pool.hold_point is None else str(pool.hold_point),
        stop_point=None if pool.stop_point is None else str(pool.stop_point),
        stop_task=pool.stop_task_id,
        broadcasts=_prune(copy.deepcopy(schd.broadcast_mgr.broadcasts)),
        flow_counter=schd.flow_mgr.counter)
    # diag: not part of the contract, only to explain witnesses
    return dict(tasks=tasks, glob=glob, diag=dict(stop_task_finished=bool(pool.stop_task_finished)))


def _expected_after_restart(snap):
    """the ONE transformation the property allows: preparing(n) -> waiting, to be prepared again as n"""
    exp = copy.deepcopy(snap)
    for t in exp['tasks'].values():
        if t['status'] == 'preparing':
            t['status'] = 'waiting'
            t['submit'] -= 1
    return exp


_CLAUSE_FIELDS = {1: ('status', 'flows', 'held', 'submit'), 2: ('outputs',), 3: ('prereqs', 'suicide', 'xtriggers')}


def _compare(exp, got):
    """-> list of (clause, dict) disagreements"""
    out = []
    for ident in sorted(set(exp['tasks']) | set(got['tasks'])):
        e, g = exp['tasks'].get(ident), got['tasks'].get(ident)
        if e is None or g is None:
            out.append((1, dict(task=ident, field='pooled', demanded='absent' if e is None else e['status'],
                                after_restart='absent' if g is None else g['status'])))
            continue
        for clause, fields in _CLAUSE_FIELDS.items():
            for f in fields:
                if e[f] == g[f]:
                    continue
                if f == 'xtriggers':
                    keys = sorted(k for k in set(e[f]) | set(g[f]) if e[f].get(k, True) != g[f].get(k, True))
                    if not keys:
                        continue
                    ev = {k: e[f].get(k, 'absent') for k in keys}
                    gv = {k: g[f].get(k, 'absent') for k in keys}
                elif isinstance(e[f], dict):
                    keys = sorted(k for k in set(e[f]) | set(g[f]) if e[f].get(k) != g[f].get(k))
                    ev = {k: e[f].get(k, 'absent') for k in keys}
                    gv = {k: g[f].get(k, 'absent') for k in keys}
                else:
                    ev, gv = e[f], g[f]
                out.append((clause, dict(task=ident, field=f, demanded=ev, after_restart=gv,
                                         status_before_stop=e['status'])))
    for f in sorted(exp['glob']):
        if exp['glob'][f] != got['glob'][f]:
            out.append((4, dict(field=f, demanded=exp['glob'][f], after_restart=got['glob'][f])))
    return out


# ---------------------------------------------------------------------------------------------------------------
# disagreements of the real code found while building this check (classifiers for known_findings)

def _dis(witness):
    return witness.get('disagreements') or []


def kf_outputs_of_waiting_task_not_restored(witness, res=None):
    """clause 2: load_db_task_pool_for_restart restores completed outputs only for running / failed / succeeded
    tasks; a task waiting for its retry (outputs of the earlier try) comes back with none"""
    d = _dis(witness)
    return bool(d) and all(x.get('field') == 'outputs' and x.get('status_before_stop') in ('waiting', 'preparing')
                           and x.get('after_restart') == [] for x in d)


def kf_custom_outputs_restored_by_label_not_message(witness, res=None):
    """clause 2: load_db_task_pool_for_restart iterates the {label: message} dict of the task_outputs row and
    passes the LABELS to set_message_complete: a custom output whose message differs from its label is not
    restored for a running / failed / succeeded task (standard outputs have label == message)"""
    d = _dis(witness)
    std = {'submitted', 'started', 'succeeded', 'failed', 'expired', 'submit-failed'}
    return bool(d) and all(
        x.get('field') == 'outputs' and x.get('status_before_stop') in ('running', 'failed', 'succeeded')
        and isinstance(x.get('after_restart'), list) and set(x['after_restart']) <= set(x['demanded'])
        and set(x['demanded']) - set(x['after_restart']) and not (set(x['demanded']) - set(x['after_restart'])) & std
        for x in d)


def kf_retry_xtrigger_not_restored(witness, res=None):
    """clause 3: the unsatisfied retry-timer xtrigger of a task waiting out an execution retry delay is not
    recreated (load_db_task_action_timers only does so for the pre-8.0 'retrying' key): the retry delay is lost"""
    d = _dis(witness)
    return bool(d) and all(
        x.get('field') == 'xtriggers' and x.get('demanded') and all(
            k.startswith(('_cylc_retry_', '_cylc_submit_retry_')) for k in x['demanded'])
        and set(x.get('after_restart', {}).values()) == {'absent'} for x in d)


def kf_suicide_prerequisites_not_restored(witness, res=None):
    """clause 3 / 5: put_task_pool does not record suicide prerequisites; a half-satisfied conjunctive suicide
    trigger starts from scratch after a restart, the task is never removed and the run stalls"""
    d = _dis(witness)
    if d:
        return all(x.get('field') == 'suicide' for x in d)
    return witness.get('scenario') == 'suicide' and 'end_restarted' in witness


def kf_stop_task_lost_on_second_restart(witness, res=None):
    """clause 4 / 5: on restart configure() re-queues stop_task=<restored> and then put_workflow_params queues
    stop_task=schd.stop_task (never set, None) which wins: a second restart has no stop task"""
    d = _dis(witness)
    n_stops = witness.get('n_stops', len(witness.get('stops', [])))
    if d:
        return n_stops >= 2 and all(x.get('field') == 'stop_task' and x.get('after_restart') is None for x in d)
    return witness.get('scenario') == 'stoptask' and 'end_restarted' in witness and n_stops >= 2


def kf_flow_counter_jumps_to_largest_flow_number(witness, res=None):
    """clause 4 / 5: FlowMgr.load_from_db sets the counter to the largest recorded flow number, also when that
    number was given by hand (trigger --flow=5 with counter 1): the next --flow=new is 6 instead of 2"""
    d = _dis(witness)
    if d:
        return all(x.get('field') == 'flow_counter' and isinstance(x.get('demanded'), int)
                   and isinstance(x.get('after_restart'), int) and x['after_restart'] > x['demanded'] for x in d)
    return witness.get('scenario') == 'flownum' and 'end_restarted' in witness


def kf_stop_task_finished_during_the_stop_is_forgotten(witness, res=None):
    """clause 5: when the stop task succeeds while the scheduler is already stopping on request,
    workflow_shutdown does not consume TaskPool.stop_task_finished (stop_mode is not None); the stop task is
    saved and restored but the in-memory flag is not, the task never succeeds again, and the restarted run goes
    on to the final cycle point where the uninterrupted run shuts down after the stop task"""
    return (not _dis(witness) and witness.get('scenario') == 'stoptask' and 'end_restarted' in witness
            and bool(witness.get('stop_task_already_finished_at_some_stop'))
            and not witness.get('finished_only_in_uninterrupted'))


def kf_sim_job_running_at_restart_ignores_broadcast(witness, res=None):
    """clause 5 only, a defect of the simulation run mode rather than of the restored state (the broadcast IS
    restored, clause 4): for a simulated job that was running at the stop (stop --now), sim_time_check rebuilds
    ModeSettings from `rtconfig = configure_sim_mode(...)`, which returns None, so the broadcast
    `[simulation]fail cycle points` is ignored and 3/b of scenario flows succeeds instead of failing"""
    if _dis(witness) or witness.get('scenario') != 'flows' or 'end_restarted' not in witness:
        return False
    miss = {(x[0], x[2]) for x in witness.get('finished_only_in_uninterrupted', [])}
    extra = {(x[0], x[2]) for x in witness.get('finished_only_in_restarted', [])}
    return ('3/b' in witness.get('running_at_some_stop', ())
            and miss == {('3/b', 'failed'), ('3/r', 'succeeded')} and extra == {('3/b', 'succeeded')})


_KF = (kf_outputs_of_waiting_task_not_restored, kf_custom_outputs_restored_by_label_not_message,
       kf_sim_job_running_at_restart_ignores_broadcast, kf_stop_task_finished_during_the_stop_is_forgotten,
       kf_retry_xtrigger_not_restored,
       kf_suicide_prerequisites_not_restored, kf_stop_task_lost_on_second_restart,
       kf_flow_counter_jumps_to_largest_flow_number)


def _known(witness):
    return any(kf(witness) for kf in _KF)


def _pick(witnesses, limit=12):
    """witnesses that match no kf_* first, then round-robin over the kf_* classes so that each is represented"""
    groups = {}
    for w in witnesses:
        groups.setdefault(next((kf.__name__ for kf in _KF if kf(w)), ''), []).append(w)
    out = groups.pop('', [])[:limit]
    while len(out) < limit and any(groups.values()):
        for name in sorted(groups):
            if groups[name] and len(out) < limit:
                out.append(groups[name].pop(0))
    return out


# ---------------------------------------------------------------------------------------------------------------
# driving real schedulers

class _Harness:
    def __init__(self, scn, seed, bound):
        self.scn, self.seed, self.bound = scn, seed, bound
        self.phase = 0            # next phase to issue
        self.finished = []        # (identity, flows, status, outputs, submit, reason) of every task removed
        self.total_iter = 0
        self.restarts = []
        self.end = None
        self.final_pool = None
        self.prep_set = set()
        self.shapes = []          # per iteration of the run: coarse description of the pool (stop-point selection)
        self.trace = []

    def dur(self, ident):
        return zlib.crc32(f'{self.seed}/{self.scn["name"]}/{ident}'.encode()) % 2


async def _do_cmd(schd, cmd):
    from cylc.flow import commands
    kind = cmd[0]
    if kind == 'hold_point':
        await commands.run_cmd(commands.set_hold_point(schd, cmd[1]))
    elif kind == 'hold':
        await commands.run_cmd(commands.hold(schd, cmd[1]))
    elif kind == 'release':
        await commands.run_cmd(commands.release(schd, cmd[1]))
    elif kind == 'release_all':
        await commands.run_cmd(commands.release_hold_point(schd))
    elif kind == 'stop_point':
        await commands.run_cmd(commands.stop(schd, None, cycle_point=cmd[1]))
    elif kind == 'stop_task':
        await commands.run_cmd(commands.stop(schd, None, task=cmd[1]))
    elif kind == 'broadcast':
        schd.broadcast_mgr.put_broadcast(point_strings=list(cmd[1]), namespaces=list(cmd[2]),
                                         settings=copy.deepcopy(cmd[3]))
    elif kind == 'trigger':
        await commands.run_cmd(commands.force_trigger_tasks(schd, cmd[1], cmd[2]))
    elif kind == 'set':
        await commands.run_cmd(commands.set_prereqs_and_outputs(schd, cmd[1], [], cmd[2], cmd[3]))
    else:
        raise ValueError(kind)


def _signature(schd):
    return tuple(sorted(
        (t.identity, str(t.state), tuple(sorted(t.flow_nums)), t.submit_num,
         tuple(sorted(t.state.outputs.get_completed_outputs())),
         tuple(sorted(t.state.xtriggers.items())))
        for t in schd.pool.get_tasks()))


def _shape(schd):
    """coarse, name-free description of what the pool contains (used to pick varied stop points)"""
    out = set()
    for t in schd.pool.get_tasks():
        st = t.state
        out.add((st.status, bool(st.is_held), tuple(sorted(t.flow_nums)), min(t.submit_num, 2),
                 len(st.outputs.get_completed_outputs()),
                 tuple(sorted(bool(v) for v in st.xtriggers.values())),
                 any(bool(v) for p in st.prerequisites for v in p._satisfied.values()),
                 any(bool(v) for p in st.suicide_prerequisites for v in p._satisfied.values())))
    return frozenset(out)


def _inprocess_xtriggers(schd):
    """evaluate xtrigger functions synchronously in this process instead of `cylc function-run` subprocesses"""
    import contextlib
    import io
    import json
    from cylc.flow.subprocctx import SubFuncContext
    from cylc.flow.xtriggers.echo import echo
    pool = schd.proc_pool
    orig = pool.put_command

    def put_command(ctx, *args, callback=None, callback_args=None, **kwargs):
        if isinstance(ctx, SubFuncContext) and ctx.func_name == 'echo' and not pool.closed:
            with contextlib.redirect_stdout(io.StringIO()):
                res = echo(*ctx.func_args, **ctx.func_kwargs)
            ctx.out, ctx.ret_code = json.dumps(res), 0
            callback(ctx, *(callback_args or []))
        else:
            orig(ctx, *args, callback=callback, callback_args=callback_args, **kwargs)
    pool.put_command = put_command


def _stick_in_preparation(h, schd):
    """from now on, tasks released to run by Scheduler.release_tasks_to_run get stuck in job preparation, as
    live-mode tasks do while host selection / remote init is pending: the real
    TaskJobManager.prep_submit_task_jobs runs (submit number bumped, status preparing, waiting_on_job_prep
    stays set), the job-file preparation itself answers None = 'not ready yet', nothing is submitted"""
    tjm = schd.task_job_mgr

    def submit_task_jobs(itasks):
        itasks = list(itasks)
        tjm._prep_submit_task_job = lambda itask, check_syntax=True: None
        try:
            tjm.prep_submit_task_jobs(itasks)
        finally:
            del tjm._prep_submit_task_job
        h.prep_set.update((t.identity, t.submit_num) for t in itasks if t.state('preparing'))
        return []
    schd.submit_task_jobs = submit_task_jobs


async def _run_one_scheduler(h, wid, stop_plan):
    """start (or restart) a scheduler on run directory `wid` and let the real run_scheduler() run it until it
    shuts down.  stop_plan: None or (iteration, mode name, stick tasks in preparation the iteration before).
    Returns (snapshot A if OUR stop ended it else None, last snapshot, iterations)"""
    from cylc.flow import commands
    from cylc.flow.scheduler import Scheduler, SchedulerStop
    from cylc.flow.scheduler_cli import RunOptions
    from cylc.flow.workflow_status import StopMode

    schd = Scheduler(wid, RunOptions(paused_start=False, run_mode='simulation'))
    try:
        await schd.install()
        await schd.start()
    except Exception as exc:
        if h.restarts and 'snap_a' in h.restarts[-1]:
            rec = h.restarts[-1]
            rec.pop('snap_a')
            rec['diffs'] = [(1, dict(field='restart', demanded='the scheduler restarts',
                                     after_restart=f'{type(exc).__name__}: {exc}'[:300]))]
            h.end = f'restart failed: {type(exc).__name__}'
            return None, None, 0
        raise
    schd.INTERVAL_MAIN_LOOP = 0.0
    schd.INTERVAL_MAIN_LOOP_QUICK = 0.0
    schd.INTERVAL_STOP_PROCESS_POOL_EMPTY = 0.0
    schd.server.OPERATE_SLEEP_INTERVAL = 0.005      # (the ZMQ server thread polls / is joined at this pace)
    schd.server.STOP_SLEEP_INTERVAL = 0.005
    _inprocess_xtriggers(schd)

    if schd.is_restart:
        # snapshot B and the contract evaluation
        snap_b = _snapshot(schd)
        rec = h.restarts[-1]
        rec['diffs'] = _compare(_expected_after_restart(rec.pop('snap_a')), snap_b)

    pool_remove = schd.pool.remove

    def remove(itask, reason=None):
        h.finished.append((itask.identity, tuple(sorted(itask.flow_nums)), itask.state.status,
                           tuple(sorted(itask.state.outputs.get_completed_outputs())), itask.submit_num,
                           reason or ''))
        return pool_remove(itask, reason)
    schd.pool.remove = remove

    st = dict(i=0, first_running={}, sigs=[], ours=False, snap_a=None, requested=False)
    orig_main_loop = schd._main_loop

    async def main_loop():
        i = st['i']
        # harness-decided job completion
        for itask in schd.pool.get_tasks():
            if itask.state.status == 'running':
                first = st['first_running'].setdefault((itask.identity, itask.submit_num), i)
                if i - first >= h.dur(itask.identity) and itask.mode_settings is not None:
                    itask.mode_settings.timeout = 0.0
        if h.phase == 0:
            # the start-up commands of the scenario: before the very first iteration of the first scheduler
            for c in h.scn['phases'][0]:
                await _do_cmd(schd, c)
            h.phase = 1
        if stop_plan is not None and stop_plan[2] and i == stop_plan[0] - 1 and schd.stop_mode is None:
            _stick_in_preparation(h, schd)
        if stop_plan is not None and not st['requested'] and i == stop_plan[0] and schd.stop_mode is None:
            cmd = commands.stop(schd, StopMode[stop_plan[1]])
            await cmd.__anext__()                                   # validation step, as the server does
            schd.command_queue.put((f'c19-{h.total_iter}', 'stop', cmd))
            st['requested'] = True
        elif not st['requested'] and schd.stop_mode is None and h.phase < len(h.scn['phases']):
            s = st['sigs']
            if (len(s) >= 3 and s[-1] == s[-2] == s[-3] and not any(
                    t.state('preparing', 'submitted', 'running') for t in schd.pool.get_tasks())):
                for c in h.scn['phases'][h.phase]:
                    await _do_cmd(schd, c)
                h.phase += 1
                s.clear()
        try:
            await orig_main_loop()
        except SchedulerStop:
            st['ours'] = (st['requested'] and schd.stop_mode is not None
                          and schd.stop_mode.name == stop_plan[1] and h.end != 'BOUND')
            st['snap_a'] = _snapshot(schd)
            if h.end != 'BOUND':
                h.end = schd.stop_mode.name if schd.stop_mode else 'None'
            raise
        st['i'] += 1
        h.total_iter += 1
        st['sigs'].append(_signature(schd))
        h.shapes.append(_shape(schd))
        if _TRACE:
            h.trace.append((h.total_iter, [(t.identity, str(t.state), sorted(t.flow_nums), t.submit_num)
                                           for t in schd.pool.get_tasks()]))
        if h.total_iter > h.bound and h.end != 'BOUND':
            h.end = 'BOUND'
            schd._set_stop(StopMode.REQUEST_NOW_NOW)
    schd._main_loop = main_loop

    try:
        await schd.run_scheduler()
    except Exception as exc:           # SchedulerError (e.g. stall abort) is re-raised after the real shutdown
        if st['snap_a'] is None and hasattr(schd, 'pool'):
            st['snap_a'] = _snapshot(schd)
        if h.end != 'BOUND':
            h.end = f'{type(exc).__name__}: {exc}'[:200]
        st['ours'] = False
    return st['snap_a'] if st['ours'] else None, st['snap_a'], st['i']


async def _run_scenario(scn, seed, plan, bound, run_dir_root, tag):
    """plan: list of (iteration since that scheduler's start, stop mode name, stick-in-preparation)"""
    wid = f'c19/{scn["name"]}_{tag}'
    rd = os.path.join(run_dir_root, wid)
    os.makedirs(rd)
    with open(os.path.join(rd, 'flow.cylc'), 'w') as fh:
        fh.write(scn['flow'])
    h = _Harness(scn, seed, bound)
    plan = list(plan)
    last = None
    try:
        while True:
            sp = plan.pop(0) if plan else None
            snap_a, last, n_iter = await _run_one_scheduler(h, wid, sp)
            if snap_a is None:
                break
            tasks = snap_a['tasks'].values()
            h.restarts.append(dict(
                stop=sp, reached=n_iter, snap_a=snap_a, n_tasks=len(snap_a['tasks']),
                statuses=sorted({t['status'] for t in tasks}), flows=sorted({tuple(t['flows']) for t in tasks}),
                max_submit=max([t['submit'] for t in tasks], default=0),
                running=sorted(i for i, t in snap_a['tasks'].items() if t['status'] == 'running'),
                stop_task_finished=snap_a['diag']['stop_task_finished'],
                unsat_xtrig=any(not v for t in tasks for v in t['xtriggers'].values()),
                custom_out=any(set(t['outputs']) - {'submitted', 'started', 'succeeded', 'failed'} for t in tasks),
                held=any(t['held'] for t in tasks), glob={k: v for k, v in snap_a['glob'].items() if v}))
    finally:
        h.final_pool = sorted(
            (i, tuple(t['flows']), t['status'], t['held'], tuple(t['outputs']), t['submit'])
            for i, t in (last or {'tasks': {}})['tasks'].items())
        shutil.rmtree(rd, ignore_errors=True)
    return h


def _outcome(h):
    return dict(end=h.end, finished=sorted(x[:5] for x in h.finished), final_pool=h.final_pool)


# ---------------------------------------------------------------------------------------------------------------
# environment isolation

class _Isolated:
    def __enter__(self):
        import logging
        import signal
        import sys
        import threading
        self.home = tempfile.mkdtemp(prefix='verif_c19_', dir='/var/tmp')
        self.environ = dict(os.environ)
        self.cwd = os.getcwd()
        self.sys_path = list(sys.path)
        self.signals = {}
        self.loggers = {}
        self.restore = None
        try:
            if threading.current_thread() is threading.main_thread():
                for s in (signal.SIGINT, signal.SIGTERM, signal.SIGHUP):
                    self.signals[s] = signal.getsignal(s)
            for name in ('cylc', 'cylc-install', 'cylc-reinstall'):
                lg = logging.getLogger(name)
                self.loggers[name] = (list(lg.handlers), lg.level, lg.propagate)
            os.environ['HOME'] = self.home
            for k in ('CYLC_CONF_PATH', 'CYLC_SITE_CONF_PATH'):
                os.environ.pop(k, None)
            from cylc.flow.cfgspec.glbl_cfg import glbl_cfg
            from cylc.flow.cycling import loader
            import cylc.flow.flags
            calendar = None
            try:
                from metomi.isodatetime.data import CALENDAR
                calendar = CALENDAR.mode
            except Exception:
                pass
            self.restore = ((cylc.flow.flags.verbosity, cylc.flow.flags.cylc7_back_compat),
                            {k: v for k, v in vars(loader.DefaultCycler).items() if not k.startswith('__')},
                            calendar)
            glbl_cfg(reload=True)
            from cylc.flow.pathutil import get_cylc_run_dir
            self.run_dir_root = get_cylc_run_dir()
            if not os.path.realpath(self.run_dir_root).startswith(os.path.realpath(self.home) + os.sep):
                raise RuntimeError(f'cylc run directory {self.run_dir_root} is not inside the scratch HOME')
            # the scheduler logs to the 'cylc' logger: keep the records away from the console
            lg = logging.getLogger('cylc')
            lg.addHandler(logging.NullHandler())
            lg.propagate = False
        except BaseException:
            self.__exit__(None, None, None)
            raise
        return self

    def __exit__(self, *exc):
        import logging
        import signal
        import sys
        for name, (handlers, level, propagate) in self.loggers.items():
            lg = logging.getLogger(name)
            for hd in list(lg.handlers):
                if hd not in handlers:
                    lg.removeHandler(hd)
                    try:
                        hd.close()
                    except Exception:
                        pass
            lg.setLevel(level)
            lg.propagate = propagate
        for s, hd in self.signals.items():
            try:
                signal.signal(s, hd)
            except Exception:
                pass
        os.environ.clear()
        os.environ.update(self.environ)
        os.chdir(self.cwd)
        sys.path[:] = self.sys_path
        try:
            from cylc.flow.cfgspec.glbl_cfg import glbl_cfg
            from cylc.flow.cycling import loader
            import cylc.flow.flags
            if self.restore is not None:
                flags, cycler, calendar = self.restore
                cylc.flow.flags.verbosity, cylc.flow.flags.cylc7_back_compat = flags
                for k in [k for k in vars(loader.DefaultCycler) if not k.startswith('__') and k not in cycler]:
                    delattr(loader.DefaultCycler, k)          # (TYPE is unset until a config is loaded)
                for k, v in cycler.items():
                    setattr(loader.DefaultCycler, k, v)
                if calendar is not None:
                    from metomi.isodatetime.data import CALENDAR
                    CALENDAR.set_mode(calendar)
            from cylc.flow.graphnode import GraphNodeParser
            GraphNodeParser.get_inst().clear()
            glbl_cfg(reload=True)
        except Exception:
            pass
        shutil.rmtree(self.home, ignore_errors=True)
        return False


# ---------------------------------------------------------------------------------------------------------------

_NAMES = {
    1: 'bounded::after stop + restart the pool holds the same task instances with the same status, flow numbers, '
       'held state and submit number (a preparing task comes back waiting, to be prepared under the same number)',
    2: 'bounded::after stop + restart every pooled task has the same completed outputs',
    3: 'bounded::after stop + restart every prerequisite and every xtrigger of every pooled task has the same '
       'satisfaction',
    4: 'bounded::after stop + restart the hold point, stop point, stop task, broadcasts and flow counter are the '
       'same',
    5: 'bounded::a stopped-and-restarted run finishes the same task instances with the same final outputs (and '
       'job numbers) as the uninterrupted run',
}


def _compact(plan):
    letter = {'REQUEST_CLEAN': 'C', 'REQUEST_NOW': 'N', 'REQUEST_NOW_NOW': 'X'}
    return ' '.join(f'{k}{letter[m]}{"+" if p else "-"}' for k, m, p in plan)


def _plans(ref, thorough, modes, rnd):
    """stop plans for one scenario whose uninterrupted run took n iterations"""
    n = ref.total_iter
    plans = []
    if thorough:
        for k in range(n):
            for m, mode in enumerate(modes):
                plans.append([(k, mode, (k + m) % 3 != 2)])
        for j, k in enumerate(range(0, n, 2)):        # restart of a restart of a restart
            plans.append([(k, modes[j % 2], True), (1 + j % 3, modes[(j + 1) % 2], True),
                          (2, modes[j % 3], False)])
        plans.append([(1 if j else 0, modes[j % 3], j % 2 == 0) for j in range(3 * n)])
        return plans
    # quick: max(4, n/5) single stops drawn (seeded) from the iterations that show a new pool shape of the
    # uninterrupted run, topped up with seeded other iterations; plus one chain of 6 successive stop+restarts
    quota = max(4, (n + 4) // 5)
    seen, picked = set(), []
    for k in range(n):
        shape = ref.shapes[k - 1] if k else frozenset()
        if shape - seen:
            picked.append(k)
            seen |= shape
    rnd.shuffle(picked)
    picked = picked[:quota]
    rest = [k for k in range(n) if k not in picked]
    rnd.shuffle(rest)
    picked = sorted(picked + rest[:max(0, quota - len(picked))])
    off = rnd.randrange(2)
    for j, k in enumerate(picked):
        plans.append([(k, modes[(j + off) % 2], j % 3 != 2)])
    k0 = rnd.randrange(max(1, n - 6))
    plans.append([(k0, modes[off], True)] + [(1, modes[(j + off) % 2], j % 2 == 0) for j in range(1, 6)])
    return plans


def check(tier='quick', seed=0):
    import asyncio
    import random
    import time
    thorough = tier != 'quick'
    rnd = random.Random(seed)
    t0 = time.time()
    budget = 800 if thorough else 75
    modes = ['REQUEST_CLEAN', 'REQUEST_NOW'] + (['REQUEST_NOW_NOW'] if thorough else [])

    evals = {c: 0 for c in _NAMES}
    bad = {c: [] for c in _NAMES}
    samples, distinct, problems = [], set(), []
    cnt = dict(planned=0, executed=0, skipped=0, restarts=0)
    seen = dict(status=set(), flows=set(), submit=0, prep=0, unsat_xtrig=False, custom_out=False, held=False,
                glob=set())

    async def go(iso):
        for scn in SCENARIOS:
            ref = await _run_scenario(scn, seed, [], 400, iso.run_dir_root, 'ref')
            n = ref.total_iter
            if ref.end != 'AUTO' or ref.phase != len(scn['phases']):
                problems.append(dict(scenario=scn['name'], problem='uninterrupted run did not complete',
                                     end=ref.end, iterations=n, phases_issued=ref.phase))
                continue
            ref_out = _outcome(ref)
            plans = _plans(ref, thorough, modes, rnd)
            cnt['planned'] += len(plans)
            for pi, plan in enumerate(plans):
                if time.time() - t0 > budget:
                    cnt['skipped'] += 1
                    continue
                h = await _run_scenario(scn, seed, plan, 4 * n + 60 + 4 * len(plan), iso.run_dir_root, f'p{pi}')
                cnt['executed'] += 1
                seen['prep'] += len(h.prep_set)
                if not h.restarts:
                    problems.append(dict(scenario=scn['name'], plan=plan, problem='no restart happened',
                                         end=h.end))
                    continue
                for ri, rec in enumerate(h.restarts):
                    if 'diffs' not in rec:        # stopped by us but never restarted: cannot happen
                        problems.append(dict(scenario=scn['name'], plan=plan, problem='restart not evaluated'))
                        continue
                    cnt['restarts'] += 1
                    seen['status'].update(rec['statuses'])
                    seen['flows'].update(rec['flows'])
                    seen['submit'] = max(seen['submit'], rec['max_submit'])
                    seen['glob'].update(rec['glob'])
                    for f in ('unsat_xtrig', 'custom_out', 'held'):
                        seen[f] = seen[f] or rec[f]
                    distinct.add((scn['name'], tuple(plan[:ri + 1])))
                    per_clause = {}
                    for clause, d in rec['diffs']:
                        per_clause.setdefault(clause, []).append(d)
                    for c in (1, 2, 3, 4):
                        evals[c] += 1
                        if c in per_clause:
                            bad[c].append(dict(
                                scenario=scn['name'], seed=seed, stops=[list(p) for p in plan[:ri + 1]][-3:],
                                n_stops=ri + 1, all_stops=_compact(plan[:ri + 1]),
                                note='stops = (main-loop iteration since that scheduler started, stop mode, tasks '
                                     'stuck in preparation), the last 3 of all_stops (same, as k C|N|X +|-); '
                                     'the disagreement is at the restart after the last stop',
                                disagreements=per_clause[c][:4]))
                evals[5] += 1
                out = _outcome(h)
                if out != ref_out:
                    miss = [x for x in ref_out['finished'] if x not in out['finished']]
                    extra = [x for x in out['finished'] if x not in ref_out['finished']]
                    w = dict(scenario=scn['name'], seed=seed, stops=[list(p) for p in plan[:len(h.restarts)]][:3],
                             n_stops=len(h.restarts), all_stops=_compact(plan[:len(h.restarts)]),
                             end_uninterrupted=ref_out['end'], end_restarted=out['end'],
                             running_at_some_stop=sorted({i for r in h.restarts for i in r['running']}),
                             stop_task_already_finished_at_some_stop=any(
                                 r['stop_task_finished'] for r in h.restarts),
                             finished_only_in_uninterrupted=miss[:4], finished_only_in_restarted=extra[:4],
                             note='entries = (task, flow numbers, status, completed outputs, submit number)')
                    if out['final_pool'] != ref_out['final_pool']:
                        w['final_pool_uninterrupted'] = ref_out['final_pool'][:4]
                        w['final_pool_restarted'] = out['final_pool'][:4]
                    bad[5].append(w)
                if len(samples) < 3 and len(plan) <= 3 and h.restarts[0]['n_tasks'] > 1:
                    samples.append(dict(scenario=scn['name'], stops=[list(p) for p in plan],
                                        pool_sizes_at_stop=[r['n_tasks'] for r in h.restarts],
                                        statuses_at_stop=h.restarts[0]['statuses'], end=h.end))

    try:
        with _Isolated() as iso:
            asyncio.run(go(iso))
    except Exception as exc:    # harness failure: report, do not pretend
        import traceback
        problems.append(dict(problem='harness exception', exc=f'{type(exc).__name__}: {exc}',
                             tb=traceback.format_exc()[-1200:]))

    rule = (
        f'{len(SCENARIOS)} integer-cycling workflows (flows: a[-P1]=>a=>b?, b:fail?=>r, runahead P1, hold point, '
        'two broadcasts of which one makes 3/b fail, trigger --flow=new giving {1},{2},{1,2}; xtrig: custom '
        'outputs, inter-cycle dependency on one, echo xtriggers satisfied / never satisfied / forced by `set '
        '--pre=xtrigger/y`, execution retry giving submit number 2; stoptask: stop task + hold of a future task; '
        'stoppoint: stop point < final point, hold of a pooled task, broadcast; suicide: conjunctive ordinary and '
        'suicide prerequisites satisfied one half at a time; flownum: trigger --flow=5 then --flow=new) run as '
        f'real Schedulers in simulation mode, seed {seed}.  Stop plans per workflow, N = iterations of its '
        'uninterrupted run: '
        + ('one stop at every iteration k<N for each of REQUEST_CLEAN / REQUEST_NOW / REQUEST_NOW_NOW; a chain of '
           'three successive stop+restarts from every 2nd k; one chain that stops at EVERY main-loop iteration '
           '(3N successive restarts).  '
           if thorough else
           'max(4, N/5) single stops at iterations chosen (seeded) among those that show a new pool shape of the '
           'uninterrupted run, modes REQUEST_CLEAN / REQUEST_NOW alternating; one chain of 6 successive '
           'stop+restarts (a stop at every iteration) from a seeded iteration.  ')
        + 'At 2 of 3 stops the tasks released in the iteration before get stuck in preparation.  Snapshot A when '
        'the main loop raises SchedulerStop (after the stop completed, before shutdown writes the pool), B right '
        'after the new Scheduler.start().  Harness devices: job completion decided by the harness (0-1 iterations '
        'after first seen running), operator commands issued at quiescence, echo xtriggers evaluated in-process, '
        'job-file preparation stubbed for the preparing state.  NOT exercised: live / dummy mode and real job '
        'submission (submitted status, polling, remote init), datetime cycling and wall_clock xtriggers other '
        'than retry timers, reload, stop --kill, paused state, external triggers, event-handler timers, queue '
        'limits, restart with a changed flow.cylc, stop clock time')
    base = dict(kind='bounded', distinct=len(distinct), rule=rule, samples=samples,
                exhaustive=bool(thorough and not cnt['skipped'] and not problems))
    vac = []
    if problems:
        vac.append(f'harness problems: {problems[:2]}')
    if cnt['executed'] < 0.8 * max(cnt['planned'], 1):
        vac.append(f'only {cnt["executed"]} of {cnt["planned"]} planned runs executed ({cnt["skipped"]} skipped on '
                   'the time budget)')
    need = {'waiting', 'running', 'preparing'}
    if not need <= seen['status']:
        vac.append(f'statuses seen at a stop {sorted(seen["status"])} lack {sorted(need - seen["status"])}')
    if not {(1,), (2,), (1, 2)} <= seen['flows']:
        vac.append(f'flow sets seen at a stop: {sorted(seen["flows"])}')
    if seen['submit'] < 2:
        vac.append('no pooled task with submit number > 1 at a stop')
    if not seen['prep']:
        vac.append('no task stuck in preparation')
    if not (seen['unsat_xtrig'] and seen['custom_out'] and seen['held']):
        vac.append(f'not seen at a stop: unsatisfied xtrigger {seen["unsat_xtrig"]}, custom output '
                   f'{seen["custom_out"]}, held task {seen["held"]}')
    if not {'hold_point', 'stop_point', 'stop_task', 'broadcasts', 'flow_counter'} <= seen['glob']:
        vac.append(f'workflow-level state seen at a stop: {sorted(seen["glob"])}')
    res = []
    for c in sorted(_NAMES):
        wit = _pick(bad[c])
        n_known = sum(1 for w in bad[c] if _known(w))
        d = dict(base, name=_NAMES[c], evaluations=evals[c])
        if bad[c]:
            res.append(dict(d, verdict='refuted', witness=wit[:12],
                            detail=f'{len(bad[c])} of {evals[c]} evaluations disagree with clause {c} '
                                   f'({n_known} of them match a kf_* classifier of this module)'
                                   + (f'; ALSO harness caveats: {"; ".join(vac)[:300]}' if vac else '')))
        elif vac:
            res.append(dict(d, verdict='unknown', witness=[], detail='; '.join(vac)[:600]))
        else:
            res.append(dict(d, verdict='proved', witness=[],
                            detail=f'{evals[c]} evaluations: {cnt["executed"]} runs, {cnt["restarts"]} restarts, '
                                   f'{seen["prep"]} tasks stuck in preparation, statuses at stop '
                                   f'{sorted(seen["status"])}'))
    return res
