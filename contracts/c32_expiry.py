"""C32 — clock expiry only expires eligible tasks.

The "expired" message is a *sink*: TaskEventsManager.process_message carries the
precondition that, when it is told "expired" (not forced), the task is waiting,
not manually triggered and past its expiry time.  The precondition generates an
obligation at every call site under contract; a census lists all senders."""
from pyvc.spec import (contract, schema, spec, uninterp, implies, iff, forall, exists, REG)
import contracts.c09_state  # noqa: F401
import contracts.c26_pool  # noqa: F401
from contracts.c26_pool import wf_pool

P = 'cylc.flow.task_pool:TaskPool.'
T = 'cylc.flow.task_proxy:TaskProxy.'

schema('TaskProxy', 'cylc.flow.task_proxy:TaskProxy', fields={'expire_time': 'opt[float]'})
schema('TaskEventsManager', 'cylc.flow.task_events_mgr:TaskEventsManager', fields={})
schema('TaskPool', 'cylc.flow.task_pool:TaskPool', fields={'task_events_mgr': 'TaskEventsManager'})


@uninterp(sorts=(), result='float')
def wallclock():
    """the wall clock during this call (A-CLOCK: constant within one call)"""
    import time
    return time.time()


def _time_model(eng, args, kwargs):
    return eng.call_function(wallclock, [], {})


import time as _time  # noqa: E402
REG.externals[_time.time] = _time_model


@spec
def expirable(t):
    return (not t.is_manual_submit and t.state.status == 'waiting'
            and t.expire_time is not None and wallclock() >= t.expire_time)


contract(T + 'clock_expire',
         sorts={'self': 'TaskProxy', 'result': 'bool'},
         ensures={'iff': 'result == (self.expire_time is not None and self.state.status != "expired" '
                         'and wallclock() >= self.expire_time)'},
         pure=True, props=['C32'])

# TaskEventsManager.process_message (the sink of the "expired" message) is under contract in
# contracts/c10_messages.py: its precondition `message == "expired" and not forced => expirable(itask)`
# generates the call-site obligation in clock_expire_tasks below.

contract(P + 'clock_expire_tasks',
         sorts={'self': 'TaskPool'},
         requires=['wf_pool(self)'],
         ensures={},
         loops={0: dict(invariant=[], modifies=[
             'all:[*]', 'all:TaskState.status', 'all:TaskState.is_held', 'all:TaskState.is_queued',
             'all:TaskState.is_runahead', 'all:TaskState.is_updated', 'all:TaskState.kill_failed',
             'all:TaskState.time_updated', 'all:TaskProxy.transient', 'all:TaskProxy.submit_num',
             'all:TaskProxy.waiting_on_job_prep', 'all:TaskProxy.is_manual_submit',
             'all:TaskPool.active_tasks_changed', 'all:TaskPool.tasks_removed',
             'all:TaskPool._active_tasks_list'])},
         modifies=['all:[*]', 'all:TaskState.status', 'all:TaskState.is_held', 'all:TaskState.is_queued',
                   'all:TaskState.is_runahead', 'all:TaskState.is_updated', 'all:TaskState.kill_failed',
                   'all:TaskState.time_updated', 'all:TaskProxy.transient', 'all:TaskProxy.submit_num',
                   'all:TaskProxy.waiting_on_job_prep', 'all:TaskProxy.is_manual_submit',
                   'all:TaskPool.active_tasks_changed', 'all:TaskPool.tasks_removed',
                   'all:TaskPool._active_tasks_list'],
         props=['C32'])


def census(tier='quick', seed=0):
    """Every call of process_message(..., <expired>) in the package."""
    import ast
    import os
    from pyvc.census import repo_root
    root = os.path.join(repo_root(), 'cylc/flow')
    sites = []
    for dp, dns, fns in os.walk(root):
        for fn in fns:
            if not fn.endswith('.py'):
                continue
            path = os.path.join(dp, fn)
            tree = ast.parse(open(path).read())
            for fdef in ast.walk(tree):
                if not isinstance(fdef, (ast.FunctionDef, ast.AsyncFunctionDef)):
                    continue
                for c in ast.walk(fdef):
                    if isinstance(c, ast.Call) and isinstance(c.func, ast.Attribute) \
                            and c.func.attr == 'process_message':
                        for a in list(c.args) + [k.value for k in c.keywords]:
                            if (isinstance(a, ast.Name) and a.id in ('TASK_OUTPUT_EXPIRED', 'TASK_STATUS_EXPIRED')) \
                                    or (isinstance(a, ast.Constant) and a.value == 'expired'):
                                sites.append((os.path.relpath(path, root), fdef.name, c.lineno))
    allowed = {('task_pool.py', 'clock_expire_tasks'),     # under contract (obligation above)
               ('task_pool.py', 'spawn_on_output')}        # experimental "expire_triggers" suicide branch
    bad = [s for s in sites if (s[0], s[1]) not in allowed]
    name = 'census::"expired" is sent only by clock_expire_tasks (and the experimental expire_triggers branch)'
    if bad or not any(s[1] == 'clock_expire_tasks' for s in sites):
        return [dict(name=name, kind='census', verdict='refuted', backend='scan',
                     detail='unexpected sender of the expired message',
                     witness=[dict(file=f, function=q, line=l) for f, q, l in (bad or sites)])]
    return [dict(name=name, kind='census', verdict='proved', backend='scan',
                 detail=f'senders: {sorted(set(sites))}; messages built dynamically (cylc set, job messages) '
                        'pass forced=True or arrive as job messages and are outside this census')]
