"""C26, second sentence - "the task_pool table lists exactly the pooled tasks": the part within reach.

WorkflowDatabaseManager.put_task_pool rewrites the table as "delete every row, then insert one row per
pooled task".  Verified here, as a FRAGMENT (the top-level statements of the real body before the loop
`for itask in pool.get_tasks()`): a delete-everything request ({} = no WHERE clause) is queued for the
task_pool table - and for the prerequisites and timeout-timer tables - unconditionally, whatever the pool's
flags say; so no row of a task that left the pool, changed flows or changed status survives the rewrite.
What the fragment drops: the insert loop (heterogeneous row dictionaries, JSON) - the rows themselves are
compared with the live pool by the bounded checks c19_bounded / c30_bounded, which read the table."""
from pyvc.spec import (contract, schema, spec, uninterp, implies, iff, forall, exists, REG)
import contracts.c26_pool  # noqa: F401

W = 'cylc.flow.workflow_db_mgr:WorkflowDatabaseManager.'

schema('WorkflowDatabaseManager', 'cylc.flow.workflow_db_mgr:WorkflowDatabaseManager', fields={
    'db_deletes_map': 'dict[str,list[dict[str,any]]]'})

contract(W + 'put_task_pool',
         sorts={'self': 'WorkflowDatabaseManager', 'pool': 'TaskPool'},
         requires=['"task_pool" in self.db_deletes_map', '"task_prerequisites" in self.db_deletes_map',
                   '"task_timeout_timers" in self.db_deletes_map',
                   'self.db_deletes_map["task_pool"] is not self.db_deletes_map["task_prerequisites"]',
                   'self.db_deletes_map["task_pool"] is not self.db_deletes_map["task_timeout_timers"]',
                   'self.db_deletes_map["task_prerequisites"] is not self.db_deletes_map["task_timeout_timers"]'],
         ensures={
             'the-task-pool-table-is-wiped-unconditionally':
                 'len(self.db_deletes_map["task_pool"]) == old(len(self.db_deletes_map["task_pool"])) + 1 '
                 'and len(self.db_deletes_map["task_pool"][len(self.db_deletes_map["task_pool"]) - 1]) == 0',
             'and-so-is-the-prerequisites-table':
                 'len(self.db_deletes_map["task_prerequisites"]) == '
                 'old(len(self.db_deletes_map["task_prerequisites"])) + 1',
         },
         modifies=['self.db_deletes_map["task_pool"][*]', 'self.db_deletes_map["task_prerequisites"][*]',
                   'self.db_deletes_map["task_timeout_timers"][*]'],
         options={'fragment_before': 'for itask in pool.get_tasks()'},
         props=['C26'])
