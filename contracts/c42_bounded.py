"""C42 — the subprocess pool runs every command once, within its bounds.  BOUNDED stand-in, not a proof.

SubProcPool keeps heterogeneous Python lists ([proc, ctx, bad_hosts, callback, ...]) in a deque and a
list, polls real child processes and pipes: outside the subset the verifier generator models.  Reading it
for a contract found the defect repaired by fix b73e6fd (queued commands dropped without their callback
while the pool is stopping).  The contract

    every command put into the pool gets exactly one callback (also when it fails, times out, or the
    pool is stopping / terminated);  at no time are more than `size` children running;
    a jobs-submit command is never started once the pool is stopping

is checked at run time on the REAL class with real child processes, for every batch of the stated bound."""
import itertools
import os
import tempfile
import time

KINDS = {
    'short': ['true'],
    'fail': ['false'],
    'slow': ['sleep', '0.15'],
    'hang': ['sleep', '30'],          # outlives the pool time-out: must be killed and still called back
}


def _scenario(kinds, stop_at, size, use_terminate):
    from cylc.flow.subprocpool import SubProcPool
    from cylc.flow.subprocctx import SubProcContext
    tmp = tempfile.mkdtemp(prefix='verif_c42_', dir='/var/tmp')
    pool = SubProcPool()
    pool.size = size
    pool.proc_pool_timeout = 0.4
    calls = {}
    max_running = [0]
    problems = []

    def cb(ctx, *args):
        calls[id(ctx)] = calls.get(id(ctx), 0) + 1

    ctxs = []

    def put(i, kind):
        if kind == 'submit':
            marker = os.path.join(tmp, f'started_{i}')
            ctx = SubProcContext(SubProcPool.JOBS_SUBMIT, ['touch', marker])
            ctx._marker = marker
        else:
            ctx = SubProcContext(kind, list(KINDS[kind]))
            ctx._marker = None
        ctx._after_stop = stopped[0]
        ctxs.append(ctx)
        pool.put_command(ctx, callback=cb)

    def step():
        pool.process()
        max_running[0] = max(max_running[0], len(pool.runnings))

    stopped = [False]
    try:
        for i, kind in enumerate(kinds):
            if i == stop_at:
                pool.set_stopping()
                stopped[0] = True
            put(i, kind)
            step()
        if stop_at >= len(kinds):
            pool.set_stopping()
            stopped[0] = True
        deadline = time.time() + 4.0
        killed = set()
        if use_terminate:
            # terminate() is final (it closes the pipe poller): children it had to kill are reaped
            # by one last process() call, which may come too early for the kernel - for those
            # "at most one callback" is all that is required here (no flaky alarm on a race)
            killed = {id(r[1]) for r in pool.runnings}
            pool.terminate()
        else:
            while pool.is_not_done() and time.time() < deadline:
                step()
                time.sleep(0.02)
            if pool.is_not_done():
                problems.append('commands still queued or running after 4 s')
        if use_terminate and pool.queuings:
            problems.append('terminate() left commands in the queue')
        for i, ctx in enumerate(ctxs):
            n = calls.get(id(ctx), 0)
            if n > 1 or (n != 1 and id(ctx) not in killed):
                problems.append(f'command {i} ({ctx.cmd_key}) got {n} callbacks')
            if ctx._marker and ctx._after_stop and os.path.exists(ctx._marker):
                problems.append(f'jobs-submit command {i} was started although the pool was stopping')
        if max_running[0] > size:
            problems.append(f'{max_running[0]} children ran at once, pool size {size}')
    finally:
        for r in list(pool.runnings):
            try:
                r[0].kill()
            except Exception:     # noqa: BLE001
                pass
        try:
            pool.close()
        except Exception:     # noqa: BLE001
            pass
        for f in os.listdir(tmp):
            os.unlink(os.path.join(tmp, f))
        os.rmdir(tmp)
    return problems


def check(tier='quick', seed=0):
    import random
    rnd = random.Random(seed)
    kinds = ['short', 'fail', 'slow', 'hang', 'submit']
    batches = []
    n = 3 if tier == 'quick' else 4
    allb = [b for k in range(1, n + 1) for b in itertools.product(kinds, repeat=k) if b.count('hang') <= 1]
    rnd.shuffle(allb)
    budget = 36 if tier == 'quick' else 200
    # always include the shapes that matter: a full pool with submits queued behind it, then a stop
    fixed = [('slow', 'slow', 'submit'), ('hang', 'submit', 'submit'), ('slow', 'submit', 'short'),
             ('submit', 'submit', 'submit'), ('fail', 'hang', 'short')]
    for b in fixed + allb[:budget]:
        for stop_at in sorted({0, len(b) // 2 + 1, len(b) + 1}):
            batches.append((b, stop_at))
    n_eval, bad, samples, distinct = 0, [], [], set()
    for b, stop_at in batches:
        for size, term in ((1, False), (2, True)):
            n_eval += 1
            problems = _scenario(b, stop_at, size, term)
            distinct.add((b, stop_at, size, term))
            if problems and len(bad) < 8:
                bad.append(dict(batch=list(b), stop_before_command=stop_at, pool_size=size,
                                terminate=term, problems=problems))
            if len(samples) < 3 and 'submit' in b and not problems:
                samples.append(dict(batch=list(b), stop_before_command=stop_at, pool_size=size, terminate=term))
    name = ('bounded::every command gets exactly one callback; never more than `size` children; no jobs-submit '
            'started once stopping')
    rule = (f'{len(batches)} (batch, stop position) pairs x (pool size 1 without terminate, size 2 with '
            f'terminate): 5 fixed shapes + {min(budget, len(allb))} batches of <= {n} commands drawn (seed {seed}) '
            'from short / failing / slow / hanging (killed on time-out) / jobs-submit; real child processes')
    base = dict(name=name, kind='bounded', evaluations=n_eval, distinct=len(distinct), rule=rule, samples=samples)
    if bad:
        return [dict(base, verdict='refuted', witness=bad, detail=f'{len(bad)} scenarios break the contract')]
    return [dict(base, verdict='proved', detail=f'{n_eval} scenarios')]
