"""C02 — no task instance runs twice in a flow without intervention (per-call parts).

A retry is granted only by TaskActionTimer.next(): it hands out delays[num]
and increments num, and returns None (granting nothing) once num has reached
len(delays).  _process_message_failed / _process_message_submit_failed complete
the failed / submit-failed output only when no retry is granted."""
from pyvc.spec import (contract, schema, spec, uninterp, implies, iff, forall, exists, REG)
import contracts.c09_state  # noqa: F401
import contracts.c32_expiry  # noqa: F401  (wall clock model)
from contracts.c32_expiry import wallclock

A = 'cylc.flow.task_action_timer:TaskActionTimer.'
E = 'cylc.flow.task_events_mgr:TaskEventsManager.'

schema('TaskActionTimer', 'cylc.flow.task_action_timer:TaskActionTimer', fields={
    'delays': 'list[float]', 'num': 'int', 'delay': 'opt[float]', 'timeout': 'opt[float]',
    'is_waiting': 'bool'})
schema('TaskProxy', 'cylc.flow.task_proxy:TaskProxy', fields={
    'try_timers': 'dict[str,TaskActionTimer]', 'removed': 'bool'})
schema('TaskEventsManager', 'cylc.flow.task_events_mgr:TaskEventsManager', fields={
    'workflow_db_mgr': 'WorkflowDatabaseManager', 'data_store_mgr': 'DataStoreMgr'})

contract(A + 'next',
         sorts={'self': 'TaskActionTimer', 'no_exhaust': 'bool', 'result': 'opt[float]'},
         requires=['self.num >= 0'],
         ensures={
             # a delay is handed out (a retry granted) exactly while num < len(delays)
             'grants-the-next-delay':
                 'implies(old(self.num) < len(self.delays), result is not None '
                 'and result == oldget(self.delays, old(self.num)) and self.num == old(self.num) + 1 '
                 'and self.timeout == wallclock() + result)',
             'exhausted-grants-nothing':
                 'implies(old(self.num) >= len(self.delays) and not no_exhaust, '
                 'result is None and self.num == old(self.num) and self.delay is None)',
             'never-counts-down': 'self.num >= old(self.num)',
             'result-is-delay': '(result is None) == (self.delay is None)',
         },
         modifies=['self.delay', 'self.timeout', 'self.num'], props=['C02'])


def _noop(target, **kw):
    contract(target, assumed=True, props=['C02'],
             note='collaborator (data store / DB / event handlers / job bookkeeping): assumed not to '
                  'touch task status, outputs or retry timers', **kw)


for _m in ('_process_job_failed', 'setup_event_handlers', '_reset_job_timers', '_process_job_submit_failed'):
    _noop(E + _m)
_noop('cylc.flow.data_store_mgr:DataStoreMgr.delta_task_output')
_noop('cylc.flow.data_store_mgr:DataStoreMgr.delta_task_state')
_noop('cylc.flow.workflow_db_mgr:WorkflowDatabaseManager.put_update_task_state')
_noop(A + 'delay_timeout_as_str', sorts={'result': 'str'})
contract(E + '_retry_task',
         sorts={'self': 'TaskEventsManager', 'itask': 'TaskProxy', 'wallclock_time': 'opt[float]',
                'submit_retry': 'bool'},
         # puts the task back to waiting behind a wall_clock xtrigger; does not complete outputs
         ensures={'back-to-waiting': 'itask.state.status == "waiting"',
                  'outputs-untouched':
                      'forall(lambda m: (m in itask.state.outputs._completed) == '
                      'old(m in itask.state.outputs._completed) and implies(m in itask.state.outputs._completed, '
                      'itask.state.outputs._completed[m] == old(itask.state.outputs._completed[m])), m="str")'},
         modifies=['itask.state.status', 'itask.state.is_held', 'itask.state.is_queued',
                   'itask.state.is_runahead', 'itask.state.time_updated', 'itask.state.is_updated',
                   'itask.state.kill_failed'],
         assumed=True, props=['C02'],
         note='xtrigger bookkeeping + state_reset(waiting); assumed (SubFuncContext, os.getenv, data store)')


@spec
def completed(t, m):
    return m in t.state.outputs._completed and t.state.outputs._completed[m]


@spec
def outputs_monotone(t):
    """same outputs registered; nothing that was complete is incomplete afterwards"""
    return forall(lambda m: (m in t.state.outputs._completed) == old(m in t.state.outputs._completed)
                  and implies(old(m in t.state.outputs._completed and t.state.outputs._completed[m]),
                              t.state.outputs._completed[m]), m="str")


@spec
def retry_left(t, key):
    return key in t.try_timers and t.try_timers[key].num < len(t.try_timers[key].delays)


_TIMERS_OK = ('forall(lambda k: implies(k in itask.try_timers, itask.try_timers[k].num >= 0), k="str")')

contract(E + '_process_message_failed',
         sorts={'self': 'TaskEventsManager', 'itask': 'TaskProxy', 'event_time': 'str', 'message': 'str',
                'forced': 'bool', 'full_message': 'str', 'run_signal': 'opt[str]', 'result': 'bool',
                'no_retries': 'bool', 'delay_msg': 'str', 'msg': 'str'},
         requires=[_TIMERS_OK],
         ensures={
             'definitive-iff-no-retry-left':
                 'result == (forced or not old(retry_left(itask, "execution-retry")))',
             # "its failed output is completed only when no retry remains"
             'failed-output-only-when-definitive':
                 'implies(not result, completed(itask, "failed") == old(completed(itask, "failed")) '
                 'and itask.state.status == "waiting")',
             'retry-consumes-one-delay':
                 'implies(not result, itask.try_timers["execution-retry"].num == '
                 'old(itask.try_timers["execution-retry"].num) + 1)',
             'definitive-sets-failed':
                 'implies(result and not forced, itask.state.status == "failed")',
             'outputs-monotone': 'outputs_monotone(itask)',
             'back-to-waiting-only-as-a-retry':
                 'implies(itask.state.status == "waiting" and old(itask.state.status) != "waiting", not result)',
         },
         modifies=['all:TaskActionTimer.delay', 'all:TaskActionTimer.timeout', 'all:TaskActionTimer.num',
                   'itask.state.status', 'itask.state.is_held', 'itask.state.is_queued',
                   'itask.state.is_runahead', 'itask.state.time_updated', 'itask.state.is_updated',
                   'itask.state.kill_failed', 'itask.state.outputs._completed[*]',
                   'itask.state.outputs._forced[*]'],
         props=['C02'])

contract(E + '_process_message_submit_failed',
         sorts={'self': 'TaskEventsManager', 'itask': 'TaskProxy', 'event_time': 'str', 'result': 'bool',
                'no_retries': 'bool', 'delay_msg': 'str', 'msg': 'str'},
         requires=[_TIMERS_OK],
         ensures={
             'definitive-iff-no-retry-left':
                 'result == (not old(retry_left(itask, "submission-retry")))',
             'submit-failed-output-only-when-definitive':
                 'implies(not result, completed(itask, "submit-failed") == '
                 'old(completed(itask, "submit-failed")) and itask.state.status == "waiting")',
             'retry-consumes-one-delay':
                 'implies(not result, itask.try_timers["submission-retry"].num == '
                 'old(itask.try_timers["submission-retry"].num) + 1)',
             'definitive-sets-submit-failed': 'implies(result, itask.state.status == "submit-failed")',
             'outputs-monotone': 'outputs_monotone(itask)',
         },
         modifies=['all:TaskActionTimer.delay', 'all:TaskActionTimer.timeout', 'all:TaskActionTimer.num',
                   'itask.state.status', 'itask.state.is_held', 'itask.state.is_queued',
                   'itask.state.is_runahead', 'itask.state.time_updated', 'itask.state.is_updated',
                   'itask.state.kill_failed', 'itask.state.outputs._completed[*]',
                   'itask.state.outputs._forced[*]'],
         props=['C02'])


def census(tier='quick', seed=0):
    """The retry counter `num` is reset only where a job has started / been vacated."""
    from pyvc.census import census_obligation
    return [census_obligation(
        'census::TaskActionTimer.num assigned only by __init__, next, reset and after a job start/vacation',
        ['num'],
        ['TaskActionTimer.__init__', 'TaskActionTimer.next', 'TaskActionTimer.reset',
         'TaskEventsManager._process_message_started', 'TaskEventsManager.process_message',
         # poll timer (not a retry timer): initialises a None counter
         'TaskEventsManager.check_poll_time'])]


def conc_next(model, oname):
    from cylc.flow.task_action_timer import TaskActionTimer
    for delays in ([], [5.0], [1.0, 2.0], [0.0, 3.0, 3.0], [0.0], [60.0, 0.0]):
        for num in range(0, 5):
            for prev in (None, 7.0):
                for ne in (False, True):
                    def mk(delays=delays, num=num, prev=prev, ne=ne):
                        t = TaskActionTimer(delays=list(delays), num=num)
                        t.delays = list(delays)
                        t.delay = prev
                        return [t, ne], {}
                    yield dict(delays=delays, num=num, delay=prev, no_exhaust=ne), mk


REG.contracts[A + 'next'].concretise = conc_next
