"""C13, bounded stand-in (NOT a proof) for the text pipeline
   graph line -> GraphParser -> WorkflowConfig.generate_triggers (listify)
   -> Dependency.get_prerequisite -> Prerequisite.set_conditional_expr
   -> eval of the rewritten expression.

The Prerequisite class itself is under contract (contracts/c13_prereq.py) with
the conditional expression as an ABSTRACT monotone function of the satisfied
keys.  That this text really denotes the user's boolean expression is a fact
about regex rewriting of strings into Python source; both solvers leave
replace_all / re.sub chains undecided, so this part is searched, not proved:

  for every expression shape over up to N atoms, every assignment of atoms
  drawn from a pool chosen for name collisions (prefix / suffix / substring
  task names, names with '-', custom outputs, offsets, negative integer points
  and time-zoned datetime points), and every order of satisfaction:
      build the real objects, call the real satisfy_me one output at a time,
      and compare the real is_satisfied() with the expression's truth value
      (pre-initial atoms count as true) after every call.

It also checks, on every generated prerequisite, the well-formedness fact the
proof assumes as a precondition (an expression comes with recorded keys and a
cleared cache).

Scope quick: all shapes with <= 3 atoms, 3 cycling set-ups; thorough: <= 4."""
import itertools
from types import SimpleNamespace


# ------------------------------------------------------------------ shapes
def _shapes(n):
    """all and/or trees with leaves 0..n-1 in order (as nested tuples)"""
    def build(lo, hi):
        if hi - lo == 1:
            yield lo
            return
        for mid in range(lo + 1, hi):
            for left in build(lo, mid):
                for right in build(mid, hi):
                    for op in '&|':
                        yield (op, left, right)
    return list(build(0, n))


def _text(tree, atoms):
    if isinstance(tree, int):
        return atoms[tree]
    op, a, b = tree
    return f'({_text(a, atoms)} {op} {_text(b, atoms)})'


def _truth(tree, val):
    if isinstance(tree, int):
        return val[tree]
    op, a, b = tree
    return (_truth(a, val) and _truth(b, val)) if op == '&' else (_truth(a, val) or _truth(b, val))


# ------------------------------------------------------------------ set-ups
def _setups():
    from cylc.flow.cycling.loader import (ISO8601_CYCLING_TYPE, INTEGER_CYCLING_TYPE)
    names = ['a', 'aa', 'a_a', 'ba', 'a-b', 'b', 'foo', 'foo_x', 'x_foo', 'a1', '1a',
             'a+b', 'a%b', 'b-', 'b@a', '1']
    outs = ['', ':fail', ':x', ':started', ':succeed', ':xx']
    yield dict(label='integer, initial point 1', ctype=INTEGER_CYCLING_TYPE, icp='1',
               points=['1', '2', '3', '11', '12'],
               offsets=['', '[-P1]', '[+P1]', '[-P2]', '[-P10]', '[^]'], names=names, outs=outs)
    yield dict(label='integer, negative points', ctype=INTEGER_CYCLING_TYPE, icp='-3',
               points=['-3', '-2', '-1', '0', '1'], offsets=['', '[-P1]', '[+P1]', '[-P2]'],
               names=names, outs=outs)
    yield dict(label='datetime, time zone +0530', ctype=ISO8601_CYCLING_TYPE, icp='20200101T0000+0530',
               tz='+0530', points=['20200101T0000+0530', '20200102T0000+0530'],
               offsets=['', '[-P1D]', '[+PT12H]', '[-P2D]'], names=names, outs=outs)
    yield dict(label='datetime, UTC', ctype=ISO8601_CYCLING_TYPE, icp='20200101T0000Z', tz='Z',
               points=['20200101T0000Z', '20200102T0000Z'],
               offsets=['', '[-P1D]', '[+PT12H]'], names=names, outs=outs)


def _init_cycling(su):
    from cylc.flow.cycling import loader
    from cylc.flow.cycling.loader import ISO8601_CYCLING_TYPE
    loader.DefaultCycler.TYPE = su['ctype']
    if su['ctype'] == ISO8601_CYCLING_TYPE:
        from cylc.flow.cycling import iso8601
        iso8601.init(time_zone=su['tz'], custom_dump_format=None)
        try:
            from cylc.flow.wallclock import set_utc_mode  # noqa: F401
        except ImportError:
            pass


_CUSTOM = {'x': 'the x message', 'xx': 'the x message two'}


def _build(su, line_left, point_text):
    """the real pipeline for  '<line_left> => t'  at one cycle point"""
    from cylc.flow.graph_parser import GraphParser
    from cylc.flow.config import WorkflowConfig
    from cylc.flow.cycling.loader import get_point
    parser = GraphParser()
    parser.parse_graph(f'{line_left} => t')
    icp = get_point(su['icp']).standardise()
    recorded = {}

    class _TD(SimpleNamespace):
        def add_graph_child(self, *a):
            pass

        def add_graph_parent(self, *a):
            pass

        def add_dependency(self, dep, seq):
            recorded.setdefault(self.name, []).append(dep)

        def add_xtrig_label(self, *a):
            pass

    class _Defs(dict):
        def __missing__(self, name):
            self[name] = _TD(name=name, initial_point=icp, start_point=icp, max_future_prereq_offset=None)
            return self[name]

    class _RT(dict):
        def __missing__(self, name):
            self[name] = {'outputs': dict(_CUSTOM)}
            return self[name]

    cfg = SimpleNamespace(
        cfg={'runtime': _RT(), 'scheduling': {'xtriggers': {}, 'sequential xtriggers': False}},
        taskdefs=_Defs(), initial_point=icp, cycling_type=su['ctype'],
        xtrigger_collator=SimpleNamespace(), fdir=None)
    task_triggers = {}
    for right, val in parser.triggers.items():
        for expr, (lefts, suicide) in val.items():
            WorkflowConfig.generate_triggers(cfg, expr, lefts, right, None, suicide, task_triggers)
    deps = recorded.get('t', [])
    point = get_point(point_text).standardise()
    return [d.get_prerequisite(point, cfg.taskdefs['t']) for d in deps], task_triggers, icp, point


def _atom_facts(su, atom, icp, point):
    """(key, pre_initial) of one atom text such as 'aa[-P1]:fail', computed independently"""
    from cylc.flow.cycling.loader import get_point_relative
    from cylc.flow.task_outputs import TaskOutputs  # noqa: F401
    import re
    m = re.fullmatch(r'([^\[:]+)(?:\[([^\]]*)\])?(?::(.+))?', atom.rstrip('?'))
    name, off, out = m.group(1), m.group(2), m.group(3)
    std = {None: 'succeeded', 'fail': 'failed', 'succeed': 'succeeded', 'started': 'started'}
    msg = _CUSTOM[out] if out in _CUSTOM else std[out]
    if off is None:
        p = point
    elif off == '^':
        p = icp
    else:
        p = get_point_relative(off, point)
    return (str(p), name, msg), (off is not None and p < icp)


def check(tier='quick', seed=0):
    import random
    from cylc.flow.prerequisite import Prerequisite
    rnd = random.Random(seed)
    max_atoms = 3 if tier == 'quick' else 4
    per_shape = 40 if tier == 'quick' else 120
    n_pre = n_cmp = bad = 0
    witnesses = []
    seen_exprs = set()
    labels = []

    def fail(**w):
        nonlocal bad
        bad += 1
        if len(witnesses) < 5:
            witnesses.append(w)

    for su in _setups():
        _init_cycling(su)
        labels.append(su['label'])
        # '?' (optional output) so that opposite outputs of one task may share a line
        pool = [n + o + q + '?' for n in su['names'] for o in su['offsets'] for q in su['outs']]
        for n in range(1, max_atoms + 1):
            for tree in _shapes(n):
                draws = [(rnd.sample(pool, n), rnd.choice(su['points'])) for _ in range(per_shape)]
                if n >= 2:
                    # systematic: the SAME task and output at two different offsets (e.g. 1/a beside
                    # -1/a around the initial point: one message is a suffix of the other)
                    for name in ('a', '1'):
                        for o1, o2 in itertools.permutations(su['offsets'], 2):
                            for pt in su['points'][:2]:
                                atoms = [name + o1 + '?', name + o2 + '?'] + rnd.sample(pool, n - 2)
                                draws.append((atoms, pt))
                for atoms, point_text in draws:
                    line = _text(tree, atoms)
                    try:
                        pres, _tt, icp, point = _build(su, line, point_text)
                    except Exception as ex:    # noqa: BLE001 - the generator made an invalid line
                        fail(line=line, point=point_text, error=repr(ex))
                        continue
                    facts = [_atom_facts(su, a, icp, point) for a in atoms]
                    if len(pres) != 1:
                        fail(line=line, point=point_text, error=f'{len(pres)} prerequisites for one trigger line')
                        continue
                    order = list(range(n))
                    rnd.shuffle(order)
                    pre = pres[0]
                    n_pre += 1
                    seen_exprs.add(pre.conditional_expression)
                    # the precondition the proof part assumes of freshly built prerequisites
                    if pre._cached_satisfied is not None or (pre.conditional_expression and not pre._satisfied):
                        fail(line=line, point=point_text, error='fresh prerequisite: cache set or expression without keys')
                    if {k for k, _ in facts} != {tuple(k) for k in pre._satisfied}:
                        fail(line=line, point=point_text, keys=sorted(map(tuple, pre._satisfied)),
                             expected=sorted(k for k, _ in facts), error='recorded keys differ from the atoms')
                        continue
                    done = set()
                    for step in [None] + order:
                        if step is not None:
                            key = facts[step][0]
                            pre.satisfy_me([{'cycle': key[0], 'task': key[1], 'task_sel': key[2]}])
                            done.add(key)
                        val = [facts[i][1] or facts[i][0] in done for i in range(n)]
                        want = _truth(tree, val)
                        try:
                            got = pre.is_satisfied()
                        except Exception as ex:    # noqa: BLE001
                            fail(line=line, point=point_text, python_expression=pre.conditional_expression,
                                 error=repr(ex))
                            break
                        n_cmp += 1
                        if bool(got) != bool(want):
                            fail(line=line, point=point_text, satisfied=sorted(done),
                                 pre_initial=[atoms[i] for i in range(n) if facts[i][1]],
                                 python_expression=pre.conditional_expression,
                                 is_satisfied=bool(got), expression_truth=bool(want))
                            break
    res = dict(name='bounded::is_satisfied() equals the trigger expression after every satisfy_me '
                    f'({n_pre} prerequisites built through GraphParser/generate_triggers/Dependency, '
                    f'{n_cmp} comparisons)',
               kind='bounded', backend='native-enumeration', evaluations=n_cmp,
               distinct_outcomes=len(seen_exprs),
               detail=f'every and/or tree with <= {max_atoms} atoms x {per_shape} random atom draws (seed {seed}) '
                      f'from a name-collision pool, set-ups: {labels}; one random satisfaction order each; '
                      'NOT a proof')
    res['verdict'] = 'refuted' if bad else 'proved'
    if bad:
        res['witness'] = witnesses
        res['failures'] = bad
    return [res]
